/-
  Property C03 — a saved package is a conforming ODF zip container with a truthful manifest.
  Theorems about `OdfModel.Pkg.save` (model of `__zipwrite`, `_saveXmlObjects`, `_savePictures`) and
  `OdfModel.Pkg.load`; tied to odf/opendocument.py by the correspondence run of harness/c03.py.

  Main theorems (all for object trees of any nesting depth, by mutual induction over Doc / List Doc):
    mimetype_first              first entry = ("mimetype", stored, no extra, utf8 of the media type)
    required_members            content.xml, styles.xml, meta.xml, META-INF/manifest.xml are members
    manifest_exact_ordered      member names = mimetype :: (paths of the manifest's file entries, same order) ++ [manifest]
    manifest_exact              … hence a permutation of the names minus mimetype and the manifest (multiset)
    folder_entries              which entries are folder entries: "/", every object folder, "Thumbnails/", None-extras
    folder_iff_slash  [DocOK, plainHrefs]   … and these are exactly the manifest paths ending in "/"
    root_and_object_mediatypes  "/" carries the document's media type, every object folder its object's
    parts_present               every object's styles/content/(settings).xml under its folder, holding its own part
    pictures_present            every registered picture under folder ++ href, stored, its bytes, its media type
    thumbnail_present           the thumbnail member with its bytes, listed with the media type the document carries for it
    names_nodup       [DocOK]   no member name twice
    manifest_nodup    [DocOK, plainHrefs]   no manifest path twice (exactly one root entry)
    register_nodup              the registry is a dict: hrefs pairwise distinct by construction
    load_docOK                  every document built by `load` (any package) satisfies DocOK (full strength since fix 87ffca7)
    loaded_names_nodup          … hence no member name twice after load + save
    loaded_manifest_nodup_partial [NoPictureDirs]  no manifest path twice / folder entries = paths ending in "/" after load + save
    root_entry_once_after_load, reserved_name_once_after_load   the former findings KF-C03-1/2, now proved absent
-/
import OdfModel.Pkg
namespace OdfModel.Props.C03
open OdfModel OdfModel.Pkg

/-! ### vocabulary -/

/-- member names of the archive, in order -/
def names (o : Out) : List Str := o.zip.map (·.name)
/-- the manifest entries that describe a file (not tagged as folder entry), in order -/
def fileEntries (o : Out) : List ME := o.man.filter (fun e => !e.isFolder)
/-- the manifest entries that describe a folder, in order -/
def folderEntries (o : Out) : List ME := o.man.filter (fun e => e.isFolder)
def filePaths (o : Out) : List Str := (fileEntries o).map (·.path)

@[simp] theorem names_append (a b : Out) : names (a ++ b) = names a ++ names b := by simp [names]
@[simp] theorem filePaths_append (a b : Out) : filePaths (a ++ b) = filePaths a ++ filePaths b := by
  simp [filePaths, fileEntries]
@[simp] theorem folderEntries_append (a b : Out) :
    folderEntries (a ++ b) = folderEntries a ++ folderEntries b := by simp [folderEntries]
@[simp] theorem names_empty : names Out.empty = [] := rfl
@[simp] theorem filePaths_empty : filePaths Out.empty = [] := rfl
@[simp] theorem folderEntries_empty : folderEntries Out.empty = [] := rfl
@[simp] theorem names_emFile (n : Str) (m : Method) (c : Content) (t : Str) : names (emFile n m c t) = [n] := rfl
@[simp] theorem filePaths_emFile (n : Str) (m : Method) (c : Content) (t : Str) :
    filePaths (emFile n m c t) = [n] := rfl
@[simp] theorem folderEntries_emFile (n : Str) (m : Method) (c : Content) (t : Str) :
    folderEntries (emFile n m c t) = [] := rfl
@[simp] theorem names_emM (e : ME) : names (emM e) = [] := rfl
@[simp] theorem names_emZ (e : ZE) : names (emZ e) = [e.name] := rfl
@[simp] theorem filePaths_emZ (e : ZE) : filePaths (emZ e) = [] := rfl
@[simp] theorem folderEntries_emZ (e : ZE) : folderEntries (emZ e) = [] := rfl
@[simp] theorem filePaths_emM_folder (p t : Str) : filePaths (emM ⟨p, t, true⟩) = [] := rfl
@[simp] theorem folderEntries_emM_folder (p t : Str) :
    folderEntries (emM ⟨p, t, true⟩) = [⟨p, t, true⟩] := rfl
@[simp] theorem names_xmlPart (F : Str) (k : PartKind) (n : Str) (i : Nat) : names (xmlPart F k n i) = [F ++ n] := rfl
@[simp] theorem filePaths_xmlPart (F : Str) (k : PartKind) (n : Str) (i : Nat) :
    filePaths (xmlPart F k n i) = [F ++ n] := rfl
@[simp] theorem folderEntries_xmlPart (F : Str) (k : PartKind) (n : Str) (i : Nat) :
    folderEntries (xmlPart F k n i) = [] := rfl

/-! ### first entry, required members -/

/-- **C03 (first entry)**: the first zip entry is `mimetype`, stored, without extra field, and its
    bytes are the UTF-8 encoding of the document's media type. -/
theorem mimetype_first (d : Doc) :
    (save d).zip.head? = some ⟨sMimetype, .stored, [], .bytes (utf8 d.mimetype)⟩ := by
  simp [save]

/-- **C03 (required members)**: content.xml, styles.xml, meta.xml and META-INF/manifest.xml are
    members of every saved package. -/
theorem required_members (d : Doc) :
    sContent ∈ names (save d) ∧ sStyles ∈ names (save d) ∧ sMeta ∈ names (save d)
      ∧ sManifestPath ∈ names (save d) := by
  cases d with
  | mk id mt hs pics th ex fo kids => simp [save, saveXml]

/-! ### the manifest lists exactly the files of the archive -/

mutual
theorem balanced_saveXml (top : Bool) (F : Str) (d : Doc) :
    names (saveXml top F d) = filePaths (saveXml top F d) := by
  cases d with
  | mk id mt hs pics th ex fo kids =>
    have ih := balanced_saveXmlKids F 1 kids
    cases hs <;> cases top <;> simp [saveXml, ih]
theorem balanced_saveXmlKids (F : Str) (k : Nat) (ds : List Doc) :
    names (saveXmlKids F k ds) = filePaths (saveXmlKids F k ds) := by
  cases ds with
  | nil => simp [saveXmlKids]
  | cons c cs =>
    simp [saveXmlKids, balanced_saveXml false (F ++ objPrefix k) c, balanced_saveXmlKids F (k+1) cs]
end

theorem balanced_picsOut (F : Str) (ps : List Pic) : names (picsOut F ps) = filePaths (picsOut F ps) := by
  induction ps with
  | nil => simp [picsOut]
  | cons p ps ih => simp [picsOut, picOut, ih]

mutual
theorem balanced_savePics (F : Str) (d : Doc) : names (savePics F d) = filePaths (savePics F d) := by
  cases d with
  | mk id mt hs pics th ex fo kids =>
    simp [savePics, balanced_picsOut, balanced_savePicsKids F 1 kids]
theorem balanced_savePicsKids (F : Str) (k : Nat) (ds : List Doc) :
    names (savePicsKids F k ds) = filePaths (savePicsKids F k ds) := by
  cases ds with
  | nil => simp [savePicsKids]
  | cons c cs =>
    simp [savePicsKids, balanced_savePics (F ++ objPrefix k) c, balanced_savePicsKids F (k+1) cs]
end

theorem balanced_thumbOut (t : Option Thumb) : names (thumbOut t) = filePaths (thumbOut t) := by
  cases t <;> simp [thumbOut]

theorem balanced_extrasOut (es : List Extra) : names (extrasOut es) = filePaths (extrasOut es) := by
  induction es with
  | nil => simp [extrasOut]
  | cons e es ih =>
    simp only [extrasOut, names_append, filePaths_append, ih]
    congr 1
    unfold extraOut
    split
    · rfl
    · cases e.content <;> simp

/-- **C03 (manifest exactness, ordered form)**: the member names of the archive are `mimetype`, then
    exactly the paths of the manifest's file entries *in the same order*, then `META-INF/manifest.xml`.
    No omission, no extra, each file under the path where its bytes are. -/
theorem manifest_exact_ordered (d : Doc) :
    names (save d) = sMimetype :: (filePaths (save d) ++ [sManifestPath]) := by
  simp [save, balanced_saveXml, balanced_savePics, balanced_thumbOut, balanced_extrasOut]

/-- **C03 (manifest exactness)**: the paths of the manifest's file entries are a permutation of the
    archive's member names minus one `mimetype` and one `META-INF/manifest.xml` (multiset
    difference, so a duplicated name could not hide). -/
theorem manifest_exact (d : Doc) :
    (filePaths (save d)).Perm (((names (save d)).erase sMimetype).erase sManifestPath) := by
  rw [manifest_exact_ordered]
  simp only [List.erase_cons_head]
  have h1 : (filePaths (save d) ++ [sManifestPath]).Perm
      (sManifestPath :: (filePaths (save d) ++ [sManifestPath]).erase sManifestPath) :=
    List.perm_cons_erase (by simp)
  have h2 : (filePaths (save d) ++ [sManifestPath]).Perm (sManifestPath :: filePaths (save d)) :=
    List.perm_append_comm
  exact (List.Perm.cons_inv (h2.symm.trans h1))

/-! ### which manifest entries are folder entries -/

mutual
/-- the folder entries `_saveXmlObjects` produces for the objects below a document -/
def objFolderEntries (F : Str) (k : Nat) : List Doc → List ME
  | [] => []
  | c :: cs => objFolderEntries1 (F ++ objPrefix k) c ++ objFolderEntries F (k+1) cs
def objFolderEntries1 (F : Str) : Doc → List ME
  | ⟨_, mt, _, _, _, _, _, kids⟩ => ⟨F, mt, true⟩ :: objFolderEntries F 1 kids
end

def thumbFolderEntries : Option Thumb → List ME
  | none => []
  | some _ => [⟨sThumbDir, [], true⟩]

def extraFolderEntries (es : List Extra) : List ME :=
  (es.filter (fun e => e.filename ≠ sDocSig ∧ e.content.isNone)).map (fun e => ⟨e.filename, e.mediatype, true⟩)

mutual
theorem folderEntries_saveXmlKids (F : Str) (k : Nat) (ds : List Doc) :
    folderEntries (saveXmlKids F k ds) = objFolderEntries F k ds := by
  cases ds with
  | nil => simp [saveXmlKids, objFolderEntries]
  | cons c cs =>
    simp [saveXmlKids, objFolderEntries, folderEntries_saveXml_sub (F ++ objPrefix k) c,
      folderEntries_saveXmlKids F (k+1) cs]
theorem folderEntries_saveXml_sub (F : Str) (d : Doc) :
    folderEntries (saveXml false F d) = objFolderEntries1 F d := by
  cases d with
  | mk id mt hs pics th ex fo kids =>
    cases hs <;> simp [saveXml, objFolderEntries1, folderEntries_saveXmlKids F 1 kids]
end

theorem folderEntries_picsOut (F : Str) (ps : List Pic) : folderEntries (picsOut F ps) = [] := by
  induction ps with
  | nil => simp [picsOut]
  | cons p ps ih => simp [picsOut, picOut, ih]

mutual
theorem folderEntries_savePics (F : Str) (d : Doc) : folderEntries (savePics F d) = [] := by
  cases d with
  | mk id mt hs pics th ex fo kids =>
    simp [savePics, folderEntries_picsOut, folderEntries_savePicsKids F 1 kids]
theorem folderEntries_savePicsKids (F : Str) (k : Nat) (ds : List Doc) :
    folderEntries (savePicsKids F k ds) = [] := by
  cases ds with
  | nil => simp [savePicsKids]
  | cons c cs =>
    simp [savePicsKids, folderEntries_savePics (F ++ objPrefix k) c, folderEntries_savePicsKids F (k+1) cs]
end

theorem folderEntries_extrasOut (es : List Extra) :
    folderEntries (extrasOut es) = extraFolderEntries es := by
  induction es with
  | nil => simp [extrasOut, extraFolderEntries]
  | cons e es ih =>
    simp only [extrasOut, folderEntries_append, ih]
    unfold extraOut extraFolderEntries
    by_cases h : e.filename = sDocSig
    · simp [h]
    · cases hc : e.content <;> simp [h, hc]

/-- **C03 (which manifest entries are folder entries)**: the entries written without a member are, in
    this order: the root "/" with the document's media type; one entry per embedded object, its path
    the object's positional folder `…Object k/` and its media type the object's; "Thumbnails/" if
    there is a thumbnail; the extras whose content is None.  Everything else in the manifest is a file
    entry and is covered by `manifest_exact`. -/
theorem folder_entries (d : Doc) :
    folderEntries (save d) =
      ⟨sSlash, d.mimetype, true⟩ :: objFolderEntries [] 1 d.children
        ++ thumbFolderEntries d.thumbnail ++ extraFolderEntries d.extras := by
  cases d with
  | mk id mt hs pics th ex fo kids =>
    have hth : folderEntries (thumbOut th) = thumbFolderEntries th := by
      cases th <;> simp [thumbOut, thumbFolderEntries]
    cases hs <;>
      simp [save, saveXml, folderEntries_saveXmlKids, folderEntries_savePics, folderEntries_extrasOut, hth]


/-! ### every object of the tree, at any depth: media type, parts, pictures -/

/-- the members `_saveXmlObjects` writes for one object stored in folder `G` -/
def ownXmlZ (G : Str) (o : Doc) : List ZE :=
  [⟨G ++ sStyles, .deflated, [], .part .styles o.id⟩, ⟨G ++ sContent, .deflated, [], .part .content o.id⟩]
  ++ (if o.hasSettings then [⟨G ++ sSettings, .deflated, [], .part .settings o.id⟩] else [])
/-- … and their manifest entries -/
def ownXmlM (G : Str) (o : Doc) : List ME :=
  [⟨G ++ sStyles, sTextXml, false⟩, ⟨G ++ sContent, sTextXml, false⟩]
  ++ (if o.hasSettings then [⟨G ++ sSettings, sTextXml, false⟩] else [])

mutual
theorem xml_sub (top : Bool) (F : Str) (d : Doc) :
    ∀ p ∈ objects F d, (∀ e ∈ ownXmlZ p.1 p.2, e ∈ (saveXml top F d).zip)
      ∧ (∀ e ∈ ownXmlM p.1 p.2, e ∈ (saveXml top F d).man) := by
  cases d with
  | mk id mt hs pics th ex fo kids =>
    intro p hp
    simp only [objects, List.mem_cons] at hp
    rcases hp with hp | hp
    · subst hp
      cases hs <;> cases top <;> simp [ownXmlZ, ownXmlM, saveXml, xmlPart]
    · have := xml_subK F 1 kids p hp
      constructor
      · intro e he; simp [saveXml, this.1 e he]
      · intro e he; simp [saveXml, this.2.1 e he]
theorem xml_subK (F : Str) (k : Nat) (ds : List Doc) :
    ∀ p ∈ objectsK F k ds, (∀ e ∈ ownXmlZ p.1 p.2, e ∈ (saveXmlKids F k ds).zip)
      ∧ (∀ e ∈ ownXmlM p.1 p.2, e ∈ (saveXmlKids F k ds).man)
      ∧ ⟨p.1, p.2.mimetype, true⟩ ∈ (saveXmlKids F k ds).man := by
  cases ds with
  | nil => simp [objectsK]
  | cons c cs =>
    intro p hp
    simp only [objectsK, List.mem_append] at hp
    rcases hp with hp | hp
    · have h1 := xml_sub false (F ++ objPrefix k) c p hp
      refine ⟨fun e he => by simp [saveXmlKids, h1.1 e he], fun e he => by simp [saveXmlKids, h1.2 e he], ?_⟩
      cases c with
      | mk id mt hs pics th ex fo kids =>
        simp only [objects, List.mem_cons] at hp
        rcases hp with hp | hp
        · subst hp; simp [saveXmlKids, saveXml]
        · have := (xml_subK (F ++ objPrefix k) 1 kids p hp).2.2
          simp [saveXmlKids, saveXml, this]
    · have h2 := xml_subK F (k+1) cs p hp
      exact ⟨fun e he => by simp [saveXmlKids, h2.1 e he], fun e he => by simp [saveXmlKids, h2.2.1 e he],
        by simp [saveXmlKids, h2.2.2]⟩
end

theorem pics_mem (F : Str) (ps : List Pic) : ∀ pic ∈ ps,
    (⟨F ++ pic.href, .stored, [], picContent pic.src⟩ : ZE) ∈ (picsOut F ps).zip
      ∧ (⟨F ++ pic.href, pic.mediatype, false⟩ : ME) ∈ (picsOut F ps).man := by
  induction ps with
  | nil => simp
  | cons q qs ih =>
    intro pic hp
    simp only [List.mem_cons] at hp
    rcases hp with hp | hp
    · subst hp; simp [picsOut, picOut]
    · have := ih pic hp; simp [picsOut, this.1, this.2]

mutual
theorem pics_sub (F : Str) (d : Doc) :
    ∀ p ∈ objects F d, ∀ pic ∈ p.2.pictures,
      (⟨p.1 ++ pic.href, .stored, [], picContent pic.src⟩ : ZE) ∈ (savePics F d).zip
        ∧ (⟨p.1 ++ pic.href, pic.mediatype, false⟩ : ME) ∈ (savePics F d).man := by
  cases d with
  | mk id mt hs pics th ex fo kids =>
    intro p hp pic hpic
    simp only [objects, List.mem_cons] at hp
    rcases hp with hp | hp
    · subst hp
      have := pics_mem F pics pic hpic
      simp [savePics, this.1, this.2]
    · have := pics_subK F 1 kids p hp pic hpic
      simp [savePics, this.1, this.2]
theorem pics_subK (F : Str) (k : Nat) (ds : List Doc) :
    ∀ p ∈ objectsK F k ds, ∀ pic ∈ p.2.pictures,
      (⟨p.1 ++ pic.href, .stored, [], picContent pic.src⟩ : ZE) ∈ (savePicsKids F k ds).zip
        ∧ (⟨p.1 ++ pic.href, pic.mediatype, false⟩ : ME) ∈ (savePicsKids F k ds).man := by
  cases ds with
  | nil => simp [objectsK]
  | cons c cs =>
    intro p hp pic hpic
    simp only [objectsK, List.mem_append] at hp
    rcases hp with hp | hp
    · have := pics_sub (F ++ objPrefix k) c p hp pic hpic
      simp [savePicsKids, this.1, this.2]
    · have := pics_subK F (k+1) cs p hp pic hpic
      simp [savePicsKids, this.1, this.2]
end

/-- **C03 (media types of the root and of every object folder)**: the manifest entry "/" carries the
    document's media type, and for every embedded object `o`, at any nesting depth, stored in
    (positional) folder `G`, the manifest has the folder entry `G` with `o`'s media type. -/
theorem root_and_object_mediatypes (d : Doc) :
    (⟨sSlash, d.mimetype, true⟩ : ME) ∈ (save d).man ∧
    ∀ p ∈ objectsK [] 1 d.children, (⟨p.1, p.2.mimetype, true⟩ : ME) ∈ (save d).man := by
  cases d with
  | mk id mt hs pics th ex fo kids =>
    constructor
    · simp [save, saveXml]
    · intro p hp
      have := (xml_subK [] 1 kids p hp).2.2
      simp [save, saveXml, this]

/-- **C03 (every object's own parts are where its folder is)**: for every object of the tree (the top
    document with folder "" included) styles.xml and content.xml — and settings.xml if it has
    settings — are members under its folder, deflated, holding *that* object's part, and listed as
    text/xml. -/
theorem parts_present (d : Doc) :
    ∀ p ∈ objects [] d, (∀ e ∈ ownXmlZ p.1 p.2, e ∈ (save d).zip) ∧ (∀ e ∈ ownXmlM p.1 p.2, e ∈ (save d).man) := by
  intro p hp
  have := xml_sub true [] d p hp
  exact ⟨fun e he => by simp [save, this.1 e he], fun e he => by simp [save, this.2 e he]⟩

/-- **C03 (pictures)**: every picture registered in any object of the tree is a member under
    `folder ++ href` (the folder being the one that holds the object's content.xml, see
    `parts_present`), stored, with exactly its bytes, and the manifest lists that path with the
    picture's media type. -/
theorem pictures_present (d : Doc) :
    ∀ p ∈ objects [] d, ∀ pic ∈ p.2.pictures,
      (⟨p.1 ++ pic.href, .stored, [], picContent pic.src⟩ : ZE) ∈ (save d).zip
        ∧ (⟨p.1 ++ pic.href, pic.mediatype, false⟩ : ME) ∈ (save d).man := by
  intro p hp pic hpic
  have := pics_sub [] d p hp pic hpic
  simp [save, this.1, this.2]


/-- **C03 (thumbnail)**: a thumbnail is the member "Thumbnails/thumbnail.png", deflated, with exactly its
    bytes, listed with the media type the document carries for it ("" for a thumbnail set through the
    API, the source manifest's media type for a loaded one — fix f4df084). -/
theorem thumbnail_present (d : Doc) (t : Thumb) (h : d.thumbnail = some t) :
    (⟨sThumb, .deflated, [], .bytes t.content⟩ : ZE) ∈ (save d).zip
      ∧ (⟨sThumb, t.mediatype, false⟩ : ME) ∈ (save d).man := by
  simp [save, h, thumbOut]

/-- `load` keeps the media type the manifest gave "Thumbnails/thumbnail.png" -/
theorem load_keeps_thumbnail_mediatype :
    (load ⟨some sOdt, [(sSlash, sOdt), (sContent, sTextXml), (sThumbDir, []), (sThumb, [105])],
           [(sContent, [60]), (sThumb, [5, 6])], []⟩).map
      (fun d => (d.thumbnail, (save d).man.filter (fun e => e.path == sThumb)))
      = some (some ⟨[5, 6], [105]⟩, [⟨sThumb, [105], false⟩]) := by
  decide

/-! ### no member name occurs twice -/

/-! #### `"%d"` is injective and produces digits only -/

theorem decAux_digits : ∀ (f n : Nat) (c : Nat), c ∈ decAux f n → (48 : Nat) ≤ c ∧ c ≤ (57 : Nat) := by
  intro f
  induction f with
  | zero =>
    intro n c hc
    simp only [decAux, List.mem_singleton] at hc
    subst hc; constructor <;> omega
  | succ f ih =>
    intro n c hc
    by_cases hn : n < 10
    · simp only [decAux, hn, if_true, List.mem_singleton] at hc
      subst hc; constructor <;> omega
    · simp only [decAux, hn, if_false, List.mem_append, List.mem_singleton] at hc
      rcases hc with hc | hc
      · exact ih _ c hc
      · subst hc; constructor <;> omega

def undec (s : Str) : Nat := s.foldl (fun a c => a * 10 + (c - 48)) 0

theorem undec_snoc (s : Str) (c : Nat) : undec (s ++ [c]) = undec s * 10 + (c - 48) := by
  simp [undec, List.foldl_append]

theorem undec_decAux : ∀ (f n : Nat), n ≤ f → undec (decAux f n) = n := by
  intro f
  induction f with
  | zero =>
    intro n h
    have : n = 0 := by omega
    subst this; simp [decAux, undec]
  | succ f ih =>
    intro n h
    by_cases hn : n < 10
    · simp [decAux, hn, undec]
    · have h10 : n / 10 ≤ f := by omega
      simp only [decAux, hn, if_false]
      rw [undec_snoc, ih (n / 10) h10]; omega

theorem dec_inj {k j : Nat} (h : dec k = dec j) : k = j := by
  have := congrArg undec h
  simpa [dec, undec_decAux] using this

theorem dec_no_slash (k : Nat) : 47 ∉ dec k := by
  intro h; have := (decAux_digits k k 47 h).1; omega

theorem split_at_sep (c : Nat) : ∀ (a b x y : Str), c ∉ a → c ∉ b → a ++ c :: x = b ++ c :: y → a = b ∧ x = y := by
  intro a
  induction a with
  | nil =>
    intro b x y _ hb h
    cases b with
    | nil => simpa using h
    | cons b0 bs => simp at h; simp [h.1] at hb
  | cons a0 as ih =>
    intro b x y ha hb h
    cases b with
    | nil => simp at h; simp [h.1] at ha
    | cons b0 bs =>
      simp at h ha hb
      have := ih bs x y ha.2 hb.2 h.2
      simp [h.1, this.1, this.2]

/-- names under different `Object k/` folders differ -/
theorem objPrefix_inj {k j : Nat} {a b : Str} (h : objPrefix k ++ a = objPrefix j ++ b) : k = j ∧ a = b := by
  simp only [objPrefix, sSlash, List.append_assoc, List.singleton_append] at h
  have h' := List.append_cancel_left h
  have := split_at_sep 47 (dec k) (dec j) a b (dec_no_slash k) (dec_no_slash j) h'
  exact ⟨dec_inj this.1, this.2⟩

/-! #### well-formedness of a document (decidable) -/

/-- names the package layer generates itself -/
def reserved : List Str := [sStyles, sContent, sSettings, sMeta, sMimetype, sThumb, sManifestPath]

/-- begins with "Object " -/
def startsObj (s : Str) : Bool := s.take 7 == sObjectSp
/-- ends with "/" -/
def endsSlash (s : Str) : Bool := s.getLast? == some 47

/-- a picture href: not a generated name, not inside an object folder -/
def hrefOK (h : Str) : Bool := !reserved.contains h && !startsObj h
/-- a picture href that does not look like a directory: not ending in "/", not empty -/
def hrefPlain (h : Str) : Bool := !endsSlash h && !h.isEmpty

def picsOK (ps : List Pic) : Bool := decide (ps.map (·.href)).Nodup && ps.all (fun p => hrefOK p.href)

mutual
def treeOK : Doc → Bool
  | ⟨_, _, _, pics, _, _, _, kids⟩ => picsOK pics && treeOKs kids
def treeOKs : List Doc → Bool
  | [] => true
  | c :: cs => treeOK c && treeOKs cs
end

mutual
/-- **`plainHrefs d`** — the extra decidable hypothesis of `folder_iff_slash` / `manifest_nodup`: no picture
    href of any document of the tree ends in "/" or is empty -/
def plainHrefs : Doc → Bool
  | ⟨_, _, _, pics, _, _, _, kids⟩ => pics.all (fun p => hrefPlain p.href) && plainHrefsK kids
def plainHrefsK : List Doc → Bool
  | [] => true
  | c :: cs => plainHrefs c && plainHrefsK cs
end

/-- the extras that `save` writes -/
def liveExtras (d : Doc) : List Extra := d.extras.filter (fun e => e.filename ≠ sDocSig)

/-- an extra: not a generated name, not inside an object folder, not the name of a picture of the top
    document, not one of the folder entries save generates; None content exactly for directory names -/
def extraOK (hrefs : List Str) (e : Extra) : Bool :=
  !reserved.contains e.filename && !startsObj e.filename && !hrefs.contains e.filename
  && e.filename != sSlash && e.filename != sThumbDir && (e.content.isNone == endsSlash e.filename)

/-- **`DocOK d`** — the decidable well-formedness hypothesis of `names_nodup` and `manifest_nodup`:
    in every document of the tree the picture hrefs are pairwise distinct (they are dict keys), none
    is a generated name or begins with "Object "; the extras of the top document have
    pairwise distinct names, none generated, none beginning with "Object ", none equal to a picture
    href of the top document, to "/" or to "Thumbnails/", and content None exactly for names ending
    in "/". -/
def DocOK (d : Doc) : Bool :=
  treeOK d && decide ((liveExtras d).map (·.filename)).Nodup
  && (liveExtras d).all (extraOK (d.pictures.map (·.href)))

/-! #### names relative to an object's folder -/

mutual
def relNames : Doc → List Str
  | ⟨_, _, hs, pics, _, _, _, kids⟩ =>
    ([sStyles, sContent] ++ (if hs then [sSettings] else [])) ++ pics.map (·.href) ++ relNamesK 1 kids
def relNamesK (k : Nat) : List Doc → List Str
  | [] => []
  | c :: cs => (relNames c).map (objPrefix k ++ ·) ++ relNamesK (k+1) cs
end

theorem perm_interleave {α} (a b c d : List α) : ((a ++ b) ++ (c ++ d)).Perm ((a ++ c) ++ (b ++ d)) := by
  simp only [List.append_assoc]
  apply List.Perm.append_left
  rw [← List.append_assoc, ← List.append_assoc]
  exact List.Perm.append_right _ List.perm_append_comm

theorem names_picsOut (F : Str) (ps : List Pic) : names (picsOut F ps) = ps.map (fun p => F ++ p.href) := by
  induction ps with
  | nil => simp [picsOut]
  | cons p ps ih => simp [picsOut, picOut, ih]

mutual
theorem names_perm (F : Str) (d : Doc) :
    (names (saveXml false F d) ++ names (savePics F d)).Perm ((relNames d).map (F ++ ·)) := by
  cases d with
  | mk id mt hs pics th ex fo kids =>
    have ih := names_permK F 1 kids
    have e1 : names (saveXml false F ⟨id, mt, hs, pics, th, ex, fo, kids⟩)
        = ([sStyles, sContent] ++ (if hs then [sSettings] else [])).map (F ++ ·) ++ names (saveXmlKids F 1 kids) := by
      cases hs <;> simp [saveXml]
    have e2 : names (savePics F ⟨id, mt, hs, pics, th, ex, fo, kids⟩)
        = (pics.map (·.href)).map (F ++ ·) ++ names (savePicsKids F 1 kids) := by
      simp [savePics, names_picsOut]
    rw [e1, e2]
    refine (perm_interleave _ _ _ _).trans ?_
    simp only [relNames, List.map_append]
    exact List.Perm.append_left _ ih
theorem names_permK (F : Str) (k : Nat) (ds : List Doc) :
    (names (saveXmlKids F k ds) ++ names (savePicsKids F k ds)).Perm ((relNamesK k ds).map (F ++ ·)) := by
  cases ds with
  | nil => simp [saveXmlKids, savePicsKids, relNamesK]
  | cons c cs =>
    have h1 := names_perm (F ++ objPrefix k) c
    have h2 := names_permK F (k+1) cs
    simp only [saveXmlKids, savePicsKids, names_append, relNamesK, List.map_append, List.map_map]
    refine (perm_interleave _ _ _ _).trans ?_
    refine List.Perm.append ?_ h2
    have : (fun x => F ++ objPrefix k ++ x) = ((fun x => F ++ x) ∘ fun x => objPrefix k ++ x) := by
      funext x; simp
    rw [← this]; exact h1
end

theorem mem_ownXml {hs : Bool} {a : Str} (h : a ∈ [sStyles, sContent] ++ (if hs = true then [sSettings] else [])) :
    a = sStyles ∨ a = sContent ∨ a = sSettings := by
  cases hs <;> simp at h <;> rcases h with h | h | h <;> simp [*]

theorem startsObj_objPrefix (k : Nat) (r : Str) : startsObj (objPrefix k ++ r) = true := by
  simp [startsObj, objPrefix, sObjectSp]

theorem relNamesK_shape : ∀ (ds : List Doc) (k : Nat), ∀ n ∈ relNamesK k ds, ∃ j r, k ≤ j ∧ n = objPrefix j ++ r := by
  intro ds
  induction ds with
  | nil => intro k n hn; simp [relNamesK] at hn
  | cons c cs ih =>
    intro k n hn
    simp only [relNamesK, List.mem_append, List.mem_map] at hn
    rcases hn with ⟨r, _, rfl⟩ | hn
    · exact ⟨k, r, Nat.le_refl k, rfl⟩
    · obtain ⟨j, r, hj, rfl⟩ := ih (k+1) n hn
      exact ⟨j, r, by omega, rfl⟩

mutual
theorem nodup_rel (d : Doc) (h : treeOK d = true) : (relNames d).Nodup := by
  cases d with
  | mk id mt hs pics th ex fo kids =>
    simp only [treeOK, picsOK, Bool.and_eq_true, decide_eq_true_eq, List.all_eq_true] at h
    obtain ⟨⟨hnd, hok⟩, hk⟩ := h
    have ihk := nodup_relK 1 kids hk
    have hK : ∀ n ∈ relNamesK 1 kids, startsObj n = true := by
      intro n hn
      obtain ⟨j, r, _, rfl⟩ := relNamesK_shape kids 1 n hn
      exact startsObj_objPrefix j r
    have hH : ∀ n ∈ pics.map (·.href), hrefOK n = true := by
      intro n hn
      simp only [List.mem_map] at hn
      obtain ⟨p, hp, rfl⟩ := hn
      exact hok p hp
    simp only [relNames]
    rw [List.nodup_append, List.nodup_append]
    refine ⟨⟨?_, hnd, ?_⟩, ihk, ?_⟩
    · cases hs <;> decide
    · intro a ha b hb hab
      subst hab
      have := hH a hb
      simp only [hrefOK, Bool.and_eq_true, Bool.not_eq_true'] at this
      have hr : reserved.contains a = true := by
        rcases mem_ownXml ha with rfl | rfl | rfl <;> decide
      rw [this.1] at hr; cases hr
    · intro a ha b hb hab
      subst hab
      have hs' := hK a hb
      rcases List.mem_append.mp ha with ha | ha
      · have : startsObj a = false := by
          rcases mem_ownXml ha with rfl | rfl | rfl <;> decide
        rw [this] at hs'; cases hs'
      · have := hH a ha
        simp only [hrefOK, Bool.and_eq_true, Bool.not_eq_true'] at this
        rw [this.2] at hs'; cases hs'
theorem nodup_relK (k : Nat) (ds : List Doc) (h : treeOKs ds = true) : (relNamesK k ds).Nodup := by
  cases ds with
  | nil => simp [relNamesK]
  | cons c cs =>
    simp only [treeOKs, Bool.and_eq_true] at h
    have h1 := nodup_rel c h.1
    have h2 := nodup_relK (k+1) cs h.2
    simp only [relNamesK]
    rw [List.nodup_append]
    refine ⟨?_, h2, ?_⟩
    · exact List.Pairwise.map _ (fun a b hab heq => hab (List.append_cancel_left heq)) h1
    · intro a ha b hb hab
      subst hab
      simp only [List.mem_map] at ha
      obtain ⟨r, _, rfl⟩ := ha
      obtain ⟨j, r', hj, heq⟩ := relNamesK_shape cs (k+1) _ hb
      have := (objPrefix_inj heq).1
      omega
end


theorem relNames_shape (d : Doc) : ∀ n ∈ relNames d,
    n ∈ [sStyles, sContent, sSettings] ∨ n ∈ d.pictures.map (·.href) ∨ startsObj n = true := by
  cases d with
  | mk id mt hs pics th ex fo kids =>
    intro n hn
    simp only [relNames] at hn
    rcases List.mem_append.mp hn with hn | hn
    · rcases List.mem_append.mp hn with hn | hn
      · left; rcases mem_ownXml hn with rfl | rfl | rfl <;> simp
      · right; left; exact hn
    · right; right
      obtain ⟨j, r, _, rfl⟩ := relNamesK_shape kids 1 n hn
      exact startsObj_objPrefix j r

theorem names_saveXml_top (F : Str) (d : Doc) :
    (names (saveXml true F d)).Perm (sMeta :: names (saveXml false F d)) := by
  cases d with
  | mk id mt hs pics th ex fo kids =>
    cases hs <;> simp [saveXml]
    · exact List.perm_middle (l₁ := [_, _])
    · exact List.perm_middle (l₁ := [_, _, _])

theorem names_extrasOut (es : List Extra) :
    names (extrasOut es)
      = ((es.filter (fun e => e.filename ≠ sDocSig)).filter (fun e => e.content.isSome)).map (·.filename) := by
  induction es with
  | nil => simp [extrasOut]
  | cons e es ih =>
    simp only [extrasOut, names_append, ih]
    unfold extraOut
    by_cases h : e.filename = sDocSig
    · simp [h]
    · cases hc : e.content <;> simp [h, hc]

theorem names_thumbOut (t : Option Thumb) : ∀ n ∈ names (thumbOut t), n = sThumb := by
  cases t <;> simp [thumbOut]

theorem nodup_thumbOut (t : Option Thumb) : (names (thumbOut t)).Nodup := by
  cases t <;> simp [thumbOut]

/-- **C03 (no member name twice)**: under `DocOK d` the member names of the saved package are pairwise
    distinct — for object trees of any depth. -/
theorem names_nodup (d : Doc) (h : DocOK d = true) : (names (save d)).Nodup := by
  have hp : (names (save d)).Perm (sMimetype :: sMeta :: (relNames d
      ++ (names (thumbOut d.thumbnail) ++ (names (extrasOut d.extras) ++ [sManifestPath])))) := by
    have h1 := names_perm [] d
    have h2 := names_saveXml_top [] d
    have e : names (save d) = sMimetype :: ((names (saveXml true [] d) ++ names (savePics [] d))
        ++ (names (thumbOut d.thumbnail) ++ (names (extrasOut d.extras) ++ [sManifestPath]))) := by
      simp [save]
    rw [e]
    refine List.Perm.cons _ ?_
    have h3 : (names (saveXml true [] d) ++ names (savePics [] d)).Perm (sMeta :: relNames d) := by
      refine (List.Perm.append_right _ h2).trans ?_
      simp only [List.cons_append]
      refine List.Perm.cons _ ?_
      simpa using h1
    exact (List.Perm.append_right _ h3)
  refine (List.Perm.nodup_iff hp).mpr ?_
  simp only [DocOK, Bool.and_eq_true, decide_eq_true_eq, List.all_eq_true] at h
  obtain ⟨⟨hT, hEnd⟩, hEok⟩ := h
  have hR := nodup_rel d hT
  have hshape := relNames_shape d
  have hhref : ∀ n ∈ d.pictures.map (·.href), hrefOK n = true := by
    cases d with
    | mk id mt hs pics th ex fo kids =>
      simp only [treeOK, picsOK, Bool.and_eq_true, decide_eq_true_eq, List.all_eq_true] at hT
      intro n hn
      simp only [List.mem_map] at hn
      obtain ⟨p, hp, rfl⟩ := hn
      exact hT.1.2 p hp
  -- a reserved, non-"Object " name is not among the relative names
  have hres : ∀ n, reserved.contains n = true → startsObj n = false → n ≠ sStyles → n ≠ sContent → n ≠ sSettings
      → n ∉ relNames d := by
    intro n hr hs h1 h2 h3 hn
    rcases hshape n hn with hm | hm | hm
    · simp at hm; rcases hm with rfl | rfl | rfl <;> simp_all
    · have := hhref n hm
      simp only [hrefOK, Bool.and_eq_true, Bool.not_eq_true'] at this
      rw [this.1] at hr; cases hr
    · rw [hs] at hm; cases hm
  -- what is known about the names of the extras
  have hE : ∀ n ∈ names (extrasOut d.extras),
      reserved.contains n = false ∧ startsObj n = false ∧ n ∉ d.pictures.map (·.href) := by
    intro n hn
    rw [names_extrasOut] at hn
    simp only [List.mem_map, List.mem_filter] at hn
    obtain ⟨e, ⟨⟨he, hne⟩, _⟩, rfl⟩ := hn
    have := hEok e (by simp [liveExtras, he]; simpa using hne)
    simp only [extraOK, Bool.and_eq_true, Bool.not_eq_true'] at this
    refine ⟨this.1.1.1.1.1, this.1.1.1.1.2, ?_⟩
    have h3 := this.1.1.1.2
    intro hc
    have : (d.pictures.map (·.href)).contains e.filename = true := by simpa using hc
    rw [this] at h3; cases h3
  have hEnodup : (names (extrasOut d.extras)).Nodup := by
    rw [names_extrasOut]
    exact List.Nodup.sublist (List.Sublist.map _ List.filter_sublist) hEnd
  have hEnotrel : ∀ n ∈ names (extrasOut d.extras), n ∉ relNames d := by
    intro n hn hrel
    obtain ⟨h1, h2, h3⟩ := hE n hn
    rcases hshape n hrel with hm | hm | hm
    · have : reserved.contains n = true := by simp at hm; rcases hm with rfl | rfl | rfl <;> decide
      rw [h1] at this; cases this
    · exact h3 hm
    · rw [h2] at hm; cases hm
  have hEnotres : ∀ n ∈ names (extrasOut d.extras), ∀ r, reserved.contains r = true → n ≠ r := by
    intro n hn r hr heq
    subst heq
    rw [(hE n hn).1] at hr; cases hr
  have hTh := names_thumbOut d.thumbnail
  -- assemble
  rw [List.nodup_cons, List.nodup_cons, List.nodup_append, List.nodup_append, List.nodup_append]
  refine ⟨?_, ?_, hR, ⟨nodup_thumbOut _, ⟨hEnodup, by simp, ?_⟩, ?_⟩, ?_⟩
  · -- mimetype
    simp only [List.mem_cons, List.mem_append, not_or]
    refine ⟨by decide, hres _ (by decide) (by decide) (by decide) (by decide) (by decide), ?_, ?_, by decide⟩
    · intro hc; have := hTh _ hc; revert this; decide
    · intro hc; exact hEnotres _ hc sMimetype (by decide) rfl
  · -- meta.xml
    simp only [List.mem_append, not_or]
    refine ⟨hres _ (by decide) (by decide) (by decide) (by decide) (by decide), ?_, ?_, by decide⟩
    · intro hc; have := hTh _ hc; revert this; decide
    · intro hc; exact hEnotres _ hc sMeta (by decide) rfl
  · -- extras vs manifest
    intro a ha b hb
    simp at hb; subst hb
    exact hEnotres a ha sManifestPath (by decide)
  · -- thumbnail vs extras, manifest
    intro a ha b hb
    have := hTh a ha; subst this
    rcases List.mem_append.mp hb with hb | hb
    · exact fun heq => hEnotres b hb sThumb (by decide) heq.symm
    · simp at hb; subst hb; decide
  · -- relative names vs thumbnail, extras, manifest
    intro a ha b hb heq
    subst heq
    rcases List.mem_append.mp hb with hb | hb
    · have := hTh a hb; subst this
      exact hres _ (by decide) (by decide) (by decide) (by decide) (by decide) ha
    · rcases List.mem_append.mp hb with hb | hb
      · exact hEnotrel a hb ha
      · simp at hb; subst hb
        exact hres _ (by decide) (by decide) (by decide) (by decide) (by decide) ha


/-! ### folder entries are exactly the manifest paths that end in "/" ; no manifest path twice -/

theorem endsSlash_append (F h : Str) (hne : h ≠ []) : endsSlash (F ++ h) = endsSlash h := by
  cases hl : h.getLast? with
  | none => exact absurd (List.getLast?_eq_none_iff.mp hl) hne
  | some x => simp [endsSlash, List.getLast?_append, hl]

theorem endsSlash_objPrefix (F : Str) (k : Nat) : endsSlash (F ++ objPrefix k) = true := by
  simp [endsSlash, objPrefix, sSlash, List.getLast?_append]

/-- every manifest entry of `o` is tagged as folder entry iff its path ends in "/" -/
def SlashOK (o : Out) : Prop := ∀ e ∈ o.man, e.isFolder = endsSlash e.path

theorem SlashOK.append {a b : Out} (ha : SlashOK a) (hb : SlashOK b) : SlashOK (a ++ b) := by
  intro e he
  simp only [Out.man_append, List.mem_append] at he
  rcases he with he | he
  · exact ha e he
  · exact hb e he

theorem slashOK_empty : SlashOK Out.empty := by intro e he; simp at he

theorem slashOK_xmlPart (F : Str) (k : PartKind) (n : Str) (i : Nat) (hn : n ≠ []) (hs : endsSlash n = false) :
    SlashOK (xmlPart F k n i) := by
  intro e he
  simp [xmlPart] at he
  subst he
  simp [endsSlash_append F n hn, hs]

mutual
theorem slashOK_saveXml (top : Bool) (F : Str) (d : Doc) (hF : top = true ∨ endsSlash F = true) :
    SlashOK (saveXml top F d) := by
  cases d with
  | mk id mt hs pics th ex fo kids =>
    simp only [saveXml]
    refine SlashOK.append (SlashOK.append (SlashOK.append (SlashOK.append (SlashOK.append ?_ ?_) ?_) ?_) ?_) ?_
    · intro e he
      simp at he; subst he
      rcases hF with hF | hF
      · subst hF; simp; decide
      · cases top
        · simp [hF]
        · simp; decide
    · exact slashOK_xmlPart F _ _ _ (by decide) (by decide)
    · exact slashOK_xmlPart F _ _ _ (by decide) (by decide)
    · cases hs
      · exact slashOK_empty
      · exact slashOK_xmlPart F _ _ _ (by decide) (by decide)
    · cases top
      · exact slashOK_empty
      · intro e he; simp at he; subst he; decide
    · exact slashOK_saveXmlKids F 1 kids
theorem slashOK_saveXmlKids (F : Str) (k : Nat) (ds : List Doc) : SlashOK (saveXmlKids F k ds) := by
  cases ds with
  | nil => exact slashOK_empty
  | cons c cs =>
    simp only [saveXmlKids]
    exact SlashOK.append (slashOK_saveXml false _ c (Or.inr (endsSlash_objPrefix F k))) (slashOK_saveXmlKids F (k+1) cs)
end

theorem slashOK_picsOut (F : Str) (ps : List Pic) (h : ∀ p ∈ ps, hrefPlain p.href = true) : SlashOK (picsOut F ps) := by
  induction ps with
  | nil => exact slashOK_empty
  | cons p ps ih =>
    simp only [picsOut]
    refine SlashOK.append ?_ (ih (fun q hq => h q (List.mem_cons_of_mem _ hq)))
    intro e he
    simp [picOut] at he; subst he
    have := h p List.mem_cons_self
    simp only [hrefPlain, Bool.and_eq_true, Bool.not_eq_true', List.isEmpty_eq_false_iff] at this
    simp [endsSlash_append F p.href this.2, this.1]

mutual
theorem slashOK_savePics (F : Str) (d : Doc) (h : plainHrefs d = true) : SlashOK (savePics F d) := by
  cases d with
  | mk id mt hs pics th ex fo kids =>
    simp only [plainHrefs, Bool.and_eq_true, List.all_eq_true] at h
    simp only [savePics]
    exact SlashOK.append (slashOK_picsOut F pics h.1) (slashOK_savePicsKids F 1 kids h.2)
theorem slashOK_savePicsKids (F : Str) (k : Nat) (ds : List Doc) (h : plainHrefsK ds = true) :
    SlashOK (savePicsKids F k ds) := by
  cases ds with
  | nil => exact slashOK_empty
  | cons c cs =>
    simp only [plainHrefsK, Bool.and_eq_true] at h
    simp only [savePicsKids]
    exact SlashOK.append (slashOK_savePics _ c h.1) (slashOK_savePicsKids F (k+1) cs h.2)
end

theorem slashOK_extrasOut (hrefs : List Str) (es : List Extra)
    (h : ∀ e ∈ es, e.filename ≠ sDocSig → extraOK hrefs e = true) : SlashOK (extrasOut es) := by
  induction es with
  | nil => exact slashOK_empty
  | cons x xs ih =>
    simp only [extrasOut]
    refine SlashOK.append ?_ (ih (fun e he => h e (List.mem_cons_of_mem _ he)))
    unfold extraOut
    by_cases hx : x.filename = sDocSig
    · simp [hx]; exact slashOK_empty
    · have := h x List.mem_cons_self hx
      simp only [extraOK, Bool.and_eq_true, beq_iff_eq] at this
      have hc := this.2
      intro e he
      cases hcc : x.content with
      | none => simp [hx, hcc] at he; subst he; simpa [hcc] using hc
      | some b => simp [hx, hcc] at he; subst he; simpa [hcc] using hc

/-- **C03 (folder entries, syntactically)**: under `DocOK d` and `plainHrefs d` a manifest entry is one of the folder
    entries of `folder_entries` exactly when its path ends in "/" — so a reader of the package can tell
    the two kinds apart, and `manifest_exact` speaks about all paths not ending in "/". -/
theorem folder_iff_slash (d : Doc) (h : DocOK d = true) (hp : plainHrefs d = true) :
    ∀ e ∈ (save d).man, e.isFolder = endsSlash e.path := by
  simp only [DocOK, Bool.and_eq_true, decide_eq_true_eq, List.all_eq_true] at h
  obtain ⟨_, hEok⟩ := h
  have hx : SlashOK (extrasOut d.extras) := by
    apply slashOK_extrasOut (d.pictures.map (·.href))
    intro e he hne
    exact hEok e (by simp [liveExtras, he]; simpa using hne)
  have hth : SlashOK (thumbOut d.thumbnail) := by
    cases d.thumbnail with
    | none => exact slashOK_empty
    | some b => intro e he; simp [thumbOut] at he; rcases he with rfl | rfl <;> simp <;> decide
  have h0 : ∀ z, SlashOK (emZ z) := by intro z e he; simp at he
  exact SlashOK.append (SlashOK.append (SlashOK.append (SlashOK.append (SlashOK.append (h0 _)
    (slashOK_saveXml true [] d (Or.inl rfl))) (slashOK_savePics [] d hp)) hth) hx) (h0 _)


mutual
/-- object folders relative to a document's own folder ("" = the document itself) -/
def relFolders1 : Doc → List Str
  | ⟨_, _, _, _, _, _, _, kids⟩ => [] :: relFolders 1 kids
def relFolders (k : Nat) : List Doc → List Str
  | [] => []
  | c :: cs => (relFolders1 c).map (objPrefix k ++ ·) ++ relFolders (k+1) cs
end

mutual
theorem objFolder_paths (F : Str) (k : Nat) (ds : List Doc) :
    (objFolderEntries F k ds).map (·.path) = (relFolders k ds).map (F ++ ·) := by
  cases ds with
  | nil => simp [objFolderEntries, relFolders]
  | cons c cs =>
    simp [objFolderEntries, relFolders, objFolder1_paths (F ++ objPrefix k) c, objFolder_paths F (k+1) cs]
theorem objFolder1_paths (F : Str) (d : Doc) :
    (objFolderEntries1 F d).map (·.path) = (relFolders1 d).map (F ++ ·) := by
  cases d with
  | mk id mt hs pics th ex fo kids =>
    simp [objFolderEntries1, relFolders1, objFolder_paths F 1 kids]
end

theorem relFolders_shape : ∀ (ds : List Doc) (k : Nat), ∀ n ∈ relFolders k ds, ∃ j r, k ≤ j ∧ n = objPrefix j ++ r := by
  intro ds
  induction ds with
  | nil => intro k n hn; simp [relFolders] at hn
  | cons c cs ih =>
    intro k n hn
    simp only [relFolders, List.mem_append, List.mem_map] at hn
    rcases hn with ⟨r, _, rfl⟩ | hn
    · exact ⟨k, r, Nat.le_refl k, rfl⟩
    · obtain ⟨j, r, hj, rfl⟩ := ih (k+1) n hn
      exact ⟨j, r, by omega, rfl⟩

mutual
theorem nodup_relFolders1 (d : Doc) : (relFolders1 d).Nodup := by
  cases d with
  | mk id mt hs pics th ex fo kids =>
    simp only [relFolders1, List.nodup_cons]
    refine ⟨?_, nodup_relFolders 1 kids⟩
    intro hn
    obtain ⟨j, r, _, h⟩ := relFolders_shape kids 1 [] hn
    simp [objPrefix, sObjectSp] at h
theorem nodup_relFolders (k : Nat) (ds : List Doc) : (relFolders k ds).Nodup := by
  cases ds with
  | nil => simp [relFolders]
  | cons c cs =>
    simp only [relFolders]
    rw [List.nodup_append]
    refine ⟨?_, nodup_relFolders (k+1) cs, ?_⟩
    · exact List.Pairwise.map _ (fun a b hab heq => hab (List.append_cancel_left heq)) (nodup_relFolders1 c)
    · intro a ha b hb hab
      subst hab
      simp only [List.mem_map] at ha
      obtain ⟨r, _, rfl⟩ := ha
      obtain ⟨j, r', hj, heq⟩ := relFolders_shape cs (k+1) _ hb
      have := (objPrefix_inj heq).1
      omega
end

theorem extraFolder_paths (es : List Extra) :
    (extraFolderEntries es).map (·.path)
      = ((es.filter (fun e => e.filename ≠ sDocSig)).filter (fun e => e.content.isNone)).map (·.filename) := by
  induction es with
  | nil => rfl
  | cons e es ih =>
    unfold extraFolderEntries at ih ⊢
    by_cases h : e.filename = sDocSig <;> cases hc : e.content <;> simp_all

/-- all manifest paths, in order -/
def paths (o : Out) : List Str := o.man.map (·.path)

/-- **C03 (no manifest path twice; in particular exactly one root entry)**: under `DocOK d` and `plainHrefs d` the
    manifest of the saved package lists every path once — file entries and folder entries, object
    trees of any depth. -/
theorem manifest_nodup (d : Doc) (h : DocOK d = true) (hp : plainHrefs d = true) : (paths (save d)).Nodup := by
  have hsl := folder_iff_slash d h hp
  have hnames := names_nodup d h
  rw [manifest_exact_ordered] at hnames
  have hfiles : (filePaths (save d)).Nodup :=
    ((List.nodup_append.mp (List.nodup_cons.mp hnames).2).1)
  -- split the manifest into its file and its folder entries
  have hperm : (paths (save d)).Perm (filePaths (save d) ++ (folderEntries (save d)).map (·.path)) := by
    unfold paths filePaths fileEntries folderEntries
    rw [← List.map_append]
    apply List.Perm.map
    have := List.filter_append_perm (fun e : ME => !e.isFolder) (save d).man
    simpa using this.symm
  refine (List.Perm.nodup_iff hperm).mpr ?_
  rw [List.nodup_append]
  refine ⟨hfiles, ?_, ?_⟩
  · -- folder paths are distinct
    rw [folder_entries]
    simp only [DocOK, Bool.and_eq_true, decide_eq_true_eq, List.all_eq_true] at h
    obtain ⟨⟨_, hEnd⟩, hEok⟩ := h
    have hobj : ∀ n ∈ (objFolderEntries [] 1 d.children).map (·.path), startsObj n = true := by
      intro n hn
      rw [objFolder_paths] at hn
      simp only [List.mem_map] at hn
      obtain ⟨r, hr, rfl⟩ := hn
      obtain ⟨j, r', _, rfl⟩ := relFolders_shape d.children 1 r hr
      simpa using startsObj_objPrefix j r'
    have hobjnd : ((objFolderEntries [] 1 d.children).map (·.path)).Nodup := by
      rw [objFolder_paths]
      simpa using nodup_relFolders 1 d.children
    have hth : ∀ n ∈ (thumbFolderEntries d.thumbnail).map (·.path), n = sThumbDir := by
      cases d.thumbnail <;> simp [thumbFolderEntries]
    have hthnd : ((thumbFolderEntries d.thumbnail).map (·.path)).Nodup := by
      cases d.thumbnail <;> simp [thumbFolderEntries]
    have hX : ∀ n ∈ (extraFolderEntries d.extras).map (·.path),
        startsObj n = false ∧ n ≠ sSlash ∧ n ≠ sThumbDir := by
      intro n hn
      simp only [extraFolderEntries, List.map_map, List.mem_map, List.mem_filter, Function.comp] at hn
      obtain ⟨e, ⟨he, hne⟩, rfl⟩ := hn
      have hne' : e.filename ≠ sDocSig := by simpa using (by simpa using hne : _ ∧ _).1
      have := hEok e (by simp [liveExtras, he, hne'])
      simp only [extraOK, Bool.and_eq_true, Bool.not_eq_true', bne_iff_ne] at this
      exact ⟨this.1.1.1.1.2, this.1.1.2, this.1.2⟩
    have hXnd : ((extraFolderEntries d.extras).map (·.path)).Nodup := by
      rw [extraFolder_paths]
      exact List.Nodup.sublist (List.Sublist.map _ List.filter_sublist) hEnd
    simp only [List.map_cons, List.map_append, List.cons_append]
    rw [List.nodup_cons, List.nodup_append, List.nodup_append]
    refine ⟨?_, ⟨hobjnd, hthnd, ?_⟩, hXnd, ?_⟩
    · simp only [List.mem_append, not_or]
      refine ⟨⟨?_, ?_⟩, ?_⟩
      · intro hc; have := hobj _ hc; revert this; decide
      · intro hc; have := hth _ hc; revert this; decide
      · intro hc; exact (hX _ hc).2.1 rfl
    · intro a ha b hb hab
      subst hab
      have h1 := hobj a ha
      have h2 := hth a hb
      subst h2; revert h1; decide
    · intro a ha b hb hab
      subst hab
      rcases List.mem_append.mp ha with ha | ha
      · have h1 := hobj a ha
        rw [(hX a hb).1] at h1; cases h1
      · exact (hX a hb).2.2 (hth a ha)
  · -- a file path never equals a folder path
    intro a ha b hb hab
    subst hab
    simp only [filePaths, fileEntries, folderEntries, List.mem_map, List.mem_filter] at ha hb
    obtain ⟨e1, ⟨he1, hf1⟩, rfl⟩ := ha
    obtain ⟨e2, ⟨he2, hf2⟩, heq⟩ := hb
    have s1 := hsl e1 he1
    have s2 := hsl e2 he2
    rw [heq] at s2
    rw [s2] at hf2
    rw [s1] at hf1
    simp [hf2] at hf1


/-! ### the hypothesis is satisfiable; what the API and `load` guarantee of it -/

theorem register_hrefs (ps : List Pic) (p : Pic) :
    (register ps p).map (·.href) = if ps.any (fun q => q.href == p.href) then ps.map (·.href)
      else ps.map (·.href) ++ [p.href] := by
  unfold register
  split
  · simp only [List.map_map]
    apply List.map_congr_left
    intro q _
    by_cases h : q.href = p.href <;> simp [h]
  · simp

/-- the picture registry is a dict: whatever sequence of registrations, the hrefs are pairwise
    distinct (the first conjunct of `picsOK` holds by construction) -/
theorem register_nodup (regs : List Pic) : ((regs.foldl register []).map (·.href)).Nodup := by
  suffices h : ∀ acc : List Pic, (acc.map (·.href)).Nodup → ((regs.foldl register acc).map (·.href)).Nodup from
    h [] (by simp)
  induction regs with
  | nil => intro acc h; simpa using h
  | cons p ps ih =>
    intro acc h
    simp only [List.foldl_cons]
    apply ih
    rw [register_hrefs]
    split
    · exact h
    · rename_i hn
      rw [List.nodup_append]
      refine ⟨h, by simp, ?_⟩
      intro a ha b hb hab
      simp at hb; subst hb; subst hab
      apply hn
      simp only [List.mem_map] at ha
      obtain ⟨q, hq, hqe⟩ := ha
      simp only [List.any_eq_true]
      exact ⟨q, hq, by simp [hqe]⟩

/-- a document with an object in an object, pictures at every level (one by file name), a thumbnail,
    a file extra and a directory extra -/
def sampleDoc : Doc :=
  ⟨0, sOdt, true, [⟨sPictures ++ [97], .image [1, 2], [105]⟩], some ⟨[7], [105]⟩,
    [⟨[120, 47, 121], [], some [9]⟩, ⟨[120, 47], [], none⟩], [],
    [⟨1, sOdt, false, [⟨sPictures ++ [97], .file [102], []⟩], none, [], [], [⟨2, sOdt, true, [⟨sPictures ++ [98], .image [], []⟩], none, [], [], []⟩]⟩,
     ⟨3, sOdt, false, [], none, [], [], []⟩]⟩

/-- `DocOK` and `plainHrefs` are satisfiable (by a document that exercises every clause) -/
theorem docOK_sample : DocOK sampleDoc = true ∧ plainHrefs sampleDoc = true := by decide

/-! ### what `load` guarantees (code as of fix 87ffca7: "/", "Thumbnails/", mimetype and the manifest are
     no longer kept as extras) -/

/-- the smallest conforming package: mimetype member, root entry, content.xml, styles.xml -/
def pkgMinimal : Package :=
  ⟨some sOdt, [(sSlash, sOdt), (sContent, sTextXml), (sStyles, sTextXml)], [(sContent, [60]), (sStyles, [60])], []⟩

/-- (was finding KF-C03-1, repaired in 87ffca7) the root entry is listed once after load + save -/
theorem root_entry_once_after_load :
    (load pkgMinimal).map (fun d => (decide (paths (save d)).Nodup, DocOK d,
        (paths (save d)).count sSlash)) = some (true, true, 1) := by
  decide

/-- the same package with a manifest that also lists `mimetype` -/
def pkgListsMimetype : Package :=
  ⟨some sOdt, [(sContent, sTextXml), (sStyles, sTextXml), (sMimetype, [])],
    [(sMimetype, [97]), (sContent, [60]), (sStyles, [60])], []⟩

/-- (was finding KF-C03-2, repaired in 87ffca7) a manifest that lists `mimetype` no longer produces a
    second member of that name -/
theorem reserved_name_once_after_load :
    (load pkgListsMimetype).map (fun d => (decide (names (save d)).Nodup, DocOK d,
        (names (save d)).count sMimetype)) = some (true, true, 1) := by
  decide

theorem dictSet_keys (d : List (Str × Str)) (k v : Str) :
    (dictSet d k v).map (·.1) = if d.any (fun e => e.1 == k) then d.map (·.1) else d.map (·.1) ++ [k] := by
  unfold dictSet
  split
  · simp only [List.map_map]
    apply List.map_congr_left
    intro q _
    by_cases h : q.1 = k <;> simp [h]
  · simp

/-- `manifestlist` is a dict: its keys are pairwise distinct -/
theorem manifestlist_nodup (raw : List (Str × Str)) : ((manifestlist raw).map (·.1)).Nodup := by
  unfold manifestlist
  suffices h : ∀ acc : List (Str × Str), (acc.map (·.1)).Nodup →
      ((raw.foldl (fun d e => dictSet d e.1 e.2) acc).map (·.1)).Nodup from h [] (by simp)
  induction raw with
  | nil => intro acc h; simpa using h
  | cons e es ih =>
    intro acc h
    simp only [List.foldl_cons]
    apply ih
    rw [dictSet_keys]
    split
    · exact h
    · rename_i hn
      rw [List.nodup_append]
      refine ⟨h, by simp, ?_⟩
      intro a ha b hb hab
      simp at hb; subst hb; subst hab
      apply hn
      simp only [List.mem_map] at ha
      obtain ⟨q, hq, hqe⟩ := ha
      simp only [List.any_eq_true]
      exact ⟨q, hq, by simp [hqe]⟩

/-- a manifest key that is not a directory below "Pictures/" -/
def noPicDir (k : Str) : Bool := !(isPicturePath k && endsSlash k)

/-- **the one hypothesis that remains for loaded documents** (needed for `plainHrefs` only): the manifest
    lists no directory below "Pictures/" ("Pictures/sub/").  `load` registers such an entry, when the zip
    has the directory member, as a zero-byte picture whose href ends in "/"; it is saved back
    consistently (member and manifest entry "Pictures/sub/"), but then a path ending in "/" is not a
    folder entry in the sense of `folder_entries`. -/
def NoPictureDirs (p : Package) : Bool := ((manifestlist p.manifest).map (·.1)).all noPicDir

/-- loop invariants; `plain = true` additionally tracks `hrefPlain` -/
def PicsGood (plain : Bool) (ps : List Pic) : Prop :=
  (ps.map (·.href)).Nodup ∧ ∀ q ∈ ps, hrefOK q.href = true ∧ isPicturePath q.href = true
    ∧ (plain = true → hrefPlain q.href = true)
def KidsGood (ks : List Doc) : Prop := ∀ c ∈ ks, c.pictures = [] ∧ c.children = []
def ExtrasGood (xs : List Extra) : Prop :=
  ∀ x ∈ xs, reserved.contains x.filename = false ∧ startsObj x.filename = false ∧ isPicturePath x.filename = false
    ∧ x.filename ≠ sSlash ∧ x.filename ≠ sThumbDir ∧ (x.content.isNone == endsSlash x.filename) = true

theorem register_mem (ps : List Pic) (p q : Pic) (h : q ∈ register ps p) : q = p ∨ q ∈ ps := by
  unfold register at h
  split at h
  · simp only [List.mem_map] at h
    obtain ⟨q0, hq0, rfl⟩ := h
    by_cases hh : (q0.href == p.href) = true
    · simp [hh]
    · simp [hh, hq0]
  · simp only [List.mem_append, List.mem_singleton] at h
    rcases h with h | h
    · exact Or.inr h
    · exact Or.inl h

theorem register_good (plain : Bool) (ps : List Pic) (p : Pic) (h : PicsGood plain ps) (h1 : hrefOK p.href = true)
    (h2 : isPicturePath p.href = true) (h3 : plain = true → hrefPlain p.href = true) :
    PicsGood plain (register ps p) := by
  refine ⟨?_, ?_⟩
  · rw [register_hrefs]
    split
    · exact h.1
    · rename_i hn
      rw [List.nodup_append]
      refine ⟨h.1, by simp, ?_⟩
      intro a ha b hb hab
      simp at hb; subst hb; subst hab
      apply hn
      simp only [List.mem_map] at ha
      obtain ⟨q, hq, hqe⟩ := ha
      simp only [List.any_eq_true]
      exact ⟨q, hq, by simp [hqe]⟩
  · intro q hq
    rcases register_mem ps p q hq with rfl | hq
    · exact ⟨h1, h2, h3⟩
    · exact h.2 q hq

theorem picturePath_hrefOK (m : Str) (hp : isPicturePath m = true) : hrefOK m = true := by
  simp only [isPicturePath, Bool.and_eq_true, beq_iff_eq, decide_eq_true_eq] at hp
  have hres : reserved.contains m = false := by
    cases hr : reserved.contains m with
    | false => rfl
    | true =>
      exfalso
      simp [reserved] at hr
      rcases hr with rfl | rfl | rfl | rfl | rfl | rfl | rfl <;> exact absurd hp.1 (by decide)
  have hobj : startsObj m = false := by
    have : m.take 7 = (m.take 9).take 7 := by simp [List.take_take]
    simp only [startsObj, this, hp.1]; decide
  simp only [hrefOK, hres, hobj, Bool.not_false, Bool.and_self]

theorem picturePath_plain (m : Str) (hp : isPicturePath m = true) (hc : noPicDir m = true) : hrefPlain m = true := by
  have hne : m.isEmpty = false := by
    cases m with
    | nil => simp [isPicturePath] at hp
    | cons a b => rfl
  have hsl : endsSlash m = false := by
    simp only [noPicDir, hp, Bool.true_and, Bool.not_eq_true'] at hc
    exact hc
  simp only [hrefPlain, hne, hsl, Bool.not_false, Bool.and_self]

/-- one iteration of the dispatch loop keeps the invariants and adds at most the extra named by the key -/
theorem loadEntry_good (plain : Bool) (p : Package) (keys : List Str) (s s1 : LoadSt) (e : Str × Str)
    (h : loadEntry p keys s e = some s1) (hc : plain = true → noPicDir e.1 = true)
    (hP : PicsGood plain s.pics) (hK : KidsGood s.kids) (hX : ExtrasGood s.extras) :
    PicsGood plain s1.pics ∧ KidsGood s1.kids ∧ ExtrasGood s1.extras
      ∧ (s1.extras = s.extras ∨ ∃ c, s1.extras = s.extras ++ [⟨e.1, e.2, c⟩]) := by
  unfold loadEntry at h
  simp only at h
  by_cases h1 : isPicturePath e.1 = true
  · simp only [h1, if_true] at h
    cases hz : zread p.members e.1 with
    | none => simp [hz] at h
    | some b =>
      simp only [hz, Option.some.injEq] at h
      subst h
      exact ⟨register_good plain _ _ hP (picturePath_hrefOK e.1 h1) h1 (fun hpl => picturePath_plain e.1 h1 (hc hpl)),
        hK, hX, Or.inl rfl⟩
  · simp only [h1, Bool.false_eq_true, ↓reduceIte] at h
    by_cases h2 : (e.1 == sThumb) = true
    · simp only [h2, if_true] at h
      cases hz : zread p.members e.1 with
      | none => simp [hz] at h
      | some b =>
        simp only [hz, Option.some.injEq] at h
        subst h
        exact ⟨hP, hK, hX, Or.inl rfl⟩
    · simp only [h2, Bool.false_eq_true, ↓reduceIte] at h
      by_cases h3 : isXmlPart e.1 = true
      · simp only [h3, if_true, Option.some.injEq] at h
        subst h; exact ⟨hP, hK, hX, Or.inl rfl⟩
      · simp only [h3, Bool.false_eq_true, ↓reduceIte] at h
        by_cases hr : isRegenerated e.1 = true
        · simp only [hr, if_true, Option.some.injEq] at h
          subst h; exact ⟨hP, hK, hX, Or.inl rfl⟩
        · simp only [hr, Bool.false_eq_true, ↓reduceIte] at h
          by_cases h4 : isObjectFolder e.1 = true
          · simp only [h4, if_true, Option.some.injEq] at h
            subst h
            refine ⟨hP, ?_, hX, Or.inl rfl⟩
            intro c hcm
            simp only [List.mem_append, List.mem_singleton] at hcm
            rcases hcm with hcm | hcm
            · exact hK c hcm
            · subst hcm; exact ⟨rfl, rfl⟩
          · simp only [h4, Bool.false_eq_true, ↓reduceIte] at h
            by_cases h5 : (e.1.take 7 == sObjectSp) = true
            · simp only [h5, if_true, Option.some.injEq] at h
              subst h; exact ⟨hP, hK, hX, Or.inl rfl⟩
            · simp only [h5, Bool.false_eq_true, ↓reduceIte] at h
              -- the extra: common facts about its name
              have hreg : e.1 ≠ sSlash ∧ e.1 ≠ sThumbDir ∧ e.1 ≠ sMimetype ∧ e.1 ≠ sManifestPath := by
                simp only [isRegenerated, Bool.or_eq_true, beq_iff_eq, not_or] at hr
                exact ⟨hr.1.1.1, hr.1.1.2, hr.1.2, hr.2⟩
              have hres : reserved.contains e.1 = false := by
                cases hrs : reserved.contains e.1 with
                | false => rfl
                | true =>
                  exfalso
                  simp [reserved] at hrs
                  rcases hrs with hrs | hrs | hrs | hrs | hrs | hrs | hrs
                  · exact h3 (by simp [isXmlPart, hrs])
                  · exact h3 (by simp [isXmlPart, hrs])
                  · exact h3 (by simp [isXmlPart, hrs])
                  · exact h3 (by simp [isXmlPart, hrs])
                  · exact hreg.2.2.1 hrs
                  · exact h2 (by simp [hrs])
                  · exact hreg.2.2.2 hrs
              have hobj : startsObj e.1 = false := by simpa [startsObj] using h5
              have hpic : isPicturePath e.1 = false := by simpa using h1
              cases hl : e.1.getLast? with
              | none => simp [hl] at h
              | some c =>
                simp only [hl] at h
                by_cases h6 : (c == 47) = true
                · simp only [h6, if_true, Option.some.injEq] at h
                  subst h
                  refine ⟨hP, hK, ?_, Or.inr ⟨none, rfl⟩⟩
                  intro x hx
                  simp only [List.mem_append, List.mem_singleton] at hx
                  rcases hx with hx | hx
                  · exact hX x hx
                  · subst hx
                    refine ⟨hres, hobj, hpic, hreg.1, hreg.2.1, ?_⟩
                    have : c = 47 := by simpa using h6
                    simp [endsSlash, hl, this]
                · simp only [h6, Bool.false_eq_true, ↓reduceIte] at h
                  cases hz : zread p.members e.1 with
                  | none => simp [hz] at h
                  | some b =>
                    simp only [hz, Option.some.injEq] at h
                    subst h
                    refine ⟨hP, hK, ?_, Or.inr ⟨some b, rfl⟩⟩
                    intro x hx
                    simp only [List.mem_append, List.mem_singleton] at hx
                    rcases hx with hx | hx
                    · exact hX x hx
                    · subst hx
                      refine ⟨hres, hobj, hpic, hreg.1, hreg.2.1, ?_⟩
                      have : c ≠ 47 := by simpa using h6
                      simp [endsSlash, hl, this]

theorem loadLoop_good (plain : Bool) (p : Package) (keys : List Str) : ∀ (es : List (Str × Str)) (s s' : LoadSt),
    loadLoop p keys s es = some s' → (∀ e ∈ es, plain = true → noPicDir e.1 = true) → (es.map (·.1)).Nodup →
    PicsGood plain s.pics → KidsGood s.kids → ExtrasGood s.extras → (s.extras.map (·.filename)).Nodup →
    (∀ x ∈ s.extras, x.filename ∉ es.map (·.1)) →
    PicsGood plain s'.pics ∧ KidsGood s'.kids ∧ ExtrasGood s'.extras ∧ (s'.extras.map (·.filename)).Nodup := by
  intro es
  induction es with
  | nil =>
    intro s s' h _ _ hP hK hX hN _
    simp only [loadLoop, Option.some.injEq] at h
    subst h; exact ⟨hP, hK, hX, hN⟩
  | cons e es ih =>
    intro s s' h hc hnd hP hK hX hN hfresh
    simp only [loadLoop] at h
    cases h1 : loadEntry p keys s e with
    | none => simp [h1] at h
    | some s1 =>
      simp only [h1] at h
      obtain ⟨gP, gK, gX, gE⟩ := loadEntry_good plain p keys s s1 e h1 (hc e List.mem_cons_self) hP hK hX
      simp only [List.map_cons, List.nodup_cons] at hnd
      refine ih s1 s' h (fun x hx => hc x (List.mem_cons_of_mem _ hx)) hnd.2 gP gK gX ?_ ?_
      · rcases gE with gE | ⟨c, gE⟩
        · rw [gE]; exact hN
        · rw [gE, List.map_append, List.nodup_append]
          refine ⟨hN, by simp, ?_⟩
          intro a ha b hb hab
          simp at hb; subst hb; subst hab
          simp only [List.mem_map] at ha
          obtain ⟨x, hx, hxe⟩ := ha
          exact hfresh x hx (by simp [hxe])
      · intro x hx
        rcases gE with gE | ⟨c, gE⟩
        · rw [gE] at hx
          intro hm; exact hfresh x hx (List.mem_cons_of_mem _ hm)
        · rw [gE] at hx
          simp only [List.mem_append, List.mem_singleton] at hx
          rcases hx with hx | hx
          · intro hm; exact hfresh x hx (List.mem_cons_of_mem _ hm)
          · subst hx; exact hnd.1

theorem treeOKs_of_kidsGood : ∀ (ks : List Doc), KidsGood ks → treeOKs ks = true ∧ plainHrefsK ks = true := by
  intro ks
  induction ks with
  | nil => intro _; simp [treeOKs, plainHrefsK]
  | cons c cs ih =>
    intro h
    have hc := h c List.mem_cons_self
    have ih' := ih (fun x hx => h x (List.mem_cons_of_mem _ hx))
    cases c with
    | mk id mt hs pics th ex fo kids =>
      simp only at hc
      obtain ⟨rfl, rfl⟩ := hc
      simp only [treeOKs, treeOK, plainHrefsK, plainHrefs, Bool.and_eq_true]
      exact ⟨⟨by decide, ih'.1⟩, ⟨by decide, ih'.2⟩⟩

/-- everything `load` establishes, with or without the `NoPictureDirs` hypothesis -/
theorem load_good (plain : Bool) (p : Package) (d : Doc) (hc : plain = true → NoPictureDirs p = true)
    (hl : load p = some d) : DocOK d = true ∧ (plain = true → plainHrefs d = true) := by
  unfold load at hl
  simp only at hl
  cases h : loadLoop p ((manifestlist p.manifest).map (·.1)) ⟨[], none, [], []⟩ (manifestlist p.manifest) with
  | none => simp [h] at hl
  | some s =>
    simp only [h, Option.some.injEq] at hl
    subst hl
    have hkeys : ∀ e ∈ manifestlist p.manifest, plain = true → noPicDir e.1 = true := by
      intro e he hpl
      have := hc hpl
      simp only [NoPictureDirs, List.all_eq_true, List.mem_map] at this
      exact this e.1 ⟨e, he, rfl⟩
    obtain ⟨gP, gK, gX, gN⟩ := loadLoop_good plain p _ (manifestlist p.manifest) _ s h hkeys (manifestlist_nodup _)
      ⟨by simp, by simp⟩ (by intro c hc; cases hc) (by intro x hx; cases hx) (by simp) (by intro x hx; cases hx)
    have hk := treeOKs_of_kidsGood _ gK
    refine ⟨?_, ?_⟩
    · simp only [DocOK, treeOK, picsOK, liveExtras, Bool.and_eq_true, decide_eq_true_eq, List.all_eq_true]
      refine ⟨⟨⟨⟨gP.1, fun q hq => (gP.2 q hq).1⟩, hk.1⟩, ?_⟩, ?_⟩
      · exact decide_eq_true (List.Nodup.sublist (List.Sublist.map _ List.filter_sublist) gN)
      · intro x hx
        simp only [List.mem_filter] at hx
        obtain ⟨h1, h2, h3, h4, h5, h6⟩ := gX x hx.1
        have hnot : (List.map (fun q : Pic => q.href) s.pics).contains x.filename = false := by
          cases hcn : (List.map (fun q : Pic => q.href) s.pics).contains x.filename with
          | false => rfl
          | true =>
            exfalso
            simp only [List.contains_iff_mem, List.mem_map] at hcn
            obtain ⟨q, hq, hqe⟩ := hcn
            have := (gP.2 q hq).2.1
            rw [hqe, h3] at this; cases this
        have e4 : (x.filename != sSlash) = true := by simpa using h4
        have e5 : (x.filename != sThumbDir) = true := by simpa using h5
        simp only [extraOK, h1, h2, hnot, e4, e5, h6, Bool.not_false, Bool.and_self]
    · intro hpl
      simp only [plainHrefs, Bool.and_eq_true, List.all_eq_true]
      exact ⟨fun q hq => (gP.2 q hq).2.2 hpl, hk.2⟩

/-- **C03 (`load` produces well-formed documents — full strength, no hypothesis)**: every document that
    `load` builds, from ANY package, satisfies `DocOK`: picture hrefs distinct and not generated names,
    extras distinct, disjoint from every generated name, from the pictures, from "/" and "Thumbnails/",
    content None exactly for directory names. -/
theorem load_docOK (p : Package) (d : Doc) (hl : load p = some d) : DocOK d = true :=
  (load_good false p d (by intro h; cases h) hl).1

/-- **C03 (no member name twice, loaded documents, full strength)** -/
theorem loaded_names_nodup (p : Package) (d : Doc) (hl : load p = some d) : (names (save d)).Nodup :=
  names_nodup d (load_docOK p d hl)

/-- FULL STATEMENT wanted: `∀ p d, load p = some d → (paths (save d)).Nodup ∧ ∀ e ∈ (save d).man, e.isFolder =
    endsSlash e.path`.  Proved under the one remaining decidable hypothesis `NoPictureDirs p` (see there;
    without it `plainHrefs` is false — `pictureDir_sample` — although the saved package is still
    consistent).
    **C03 (no manifest path twice and folder entries = paths ending in "/", loaded documents)** -/
theorem loaded_manifest_nodup_partial (p : Package) (d : Doc) (hc : NoPictureDirs p = true) (hl : load p = some d) :
    (paths (save d)).Nodup ∧ ∀ e ∈ (save d).man, e.isFolder = endsSlash e.path := by
  have := load_good true p d (fun _ => hc) hl
  exact ⟨manifest_nodup d this.1 (this.2 rfl), folder_iff_slash d this.1 (this.2 rfl)⟩

/-- a package with the root entry, "Thumbnails/", a picture, an object folder, a file extra and a
    directory extra satisfies the hypothesis, loads, and saves without any path twice -/
theorem load_sample :
    let p : Package := ⟨some sOdt,
      [(sSlash, sOdt), (sContent, sTextXml), (sStyles, sTextXml), (sThumbDir, []), (sThumb, []), (sPictures ++ [97], [105]),
       (objPrefix 1, sOdt), (objPrefix 1 ++ sContent, sTextXml), ([120, 47, 121], []), ([120, 47], [])],
      [(sContent, [60]), (sStyles, [60]), (sThumb, [5]), (sPictures ++ [97], [1]), (objPrefix 1 ++ sContent, [60]), ([120, 47, 121], [2])], []⟩
    NoPictureDirs p = true ∧ (load p).map (fun d => (DocOK d, plainHrefs d, decide (paths (save d)).Nodup)) = some (true, true, true) := by
  decide

/-- the residual class: a directory entry below "Pictures/" whose zip member exists becomes a picture
    whose href ends in "/" (`plainHrefs` false); names and paths are still pairwise distinct -/
theorem pictureDir_sample :
    let p : Package := ⟨some sOdt, [(sSlash, sOdt), (sContent, sTextXml), (sPictures ++ [115, 47], [])],
      [(sContent, [60]), (sPictures ++ [115, 47], [])], []⟩
    NoPictureDirs p = false ∧ (load p).map (fun d => (DocOK d, plainHrefs d, decide (names (save d)).Nodup,
        decide (paths (save d)).Nodup)) = some (true, false, true, true) := by
  decide

end OdfModel.Props.C03

/-
  OdfModel.XhtmlLemmas — helper lemmas about the XHTML transducer model (property C18):
  field lemmas of the primitive write operations, the bracket checker `bal`, and the effect of every handler of
  the supported vocabulary in the form the induction over the document tree needs.
-/
import OdfModel.Xhtml
namespace OdfModel.Xhtml
open OdfModel OdfModel.Xml OdfModel.Generated.Xhtml

/-! ### primitive operations: field lemmas -/

@[simp] theorem emit_out (t : Tok) (st : St) : (emit t st).out = st.out ++ [t] := rfl
@[simp] theorem emit_depth (t : Tok) (st : St) : (emit t st).depth = st.depth := rfl
@[simp] theorem emit_saved (t : Tok) (st : St) : (emit t st).saved = st.saved := rfl
@[simp] theorem emit_nbOpen (t : Tok) (st : St) : (emit t st).nbOpen = st.nbOpen := rfl
@[simp] theorem emit_notes (t : Tok) (st : St) : (emit t st).notes = st.notes := rfl
@[simp] theorem emit_cur (t : Tok) (st : St) : (emit t st).cur = st.cur := rfl
@[simp] theorem emit_listtypes (t : Tok) (st : St) : (emit t st).listtypes = st.listtypes := rfl
@[simp] theorem emit_data (t : Tok) (st : St) : (emit t st).data = st.data := rfl

@[simp] theorem purge_out (st : St) : (purgedata st).out = st.out := rfl
@[simp] theorem purge_depth (st : St) : (purgedata st).depth = st.depth := rfl
@[simp] theorem purge_saved (st : St) : (purgedata st).saved = st.saved := rfl
@[simp] theorem purge_nbOpen (st : St) : (purgedata st).nbOpen = st.nbOpen := rfl
@[simp] theorem purge_notes (st : St) : (purgedata st).notes = st.notes := rfl
@[simp] theorem purge_cur (st : St) : (purgedata st).cur = st.cur := rfl
@[simp] theorem purge_listtypes (st : St) : (purgedata st).listtypes = st.listtypes := rfl
@[simp] theorem purge_data (st : St) : (purgedata st).data = [] := rfl

@[simp] theorem opentag_out (t : Str) (a : Attrs) (b : Bool) (st : St) : (opentag t a b st).out = st.out ++ [.otag t a b] := rfl
@[simp] theorem opentag_depth (t : Str) (a : Attrs) (b : Bool) (st : St) : (opentag t a b st).depth = st.depth + 1 := rfl
@[simp] theorem opentag_saved (t : Str) (a : Attrs) (b : Bool) (st : St) : (opentag t a b st).saved = st.saved := rfl
@[simp] theorem opentag_nbOpen (t : Str) (a : Attrs) (b : Bool) (st : St) : (opentag t a b st).nbOpen = st.nbOpen := rfl
@[simp] theorem opentag_notes (t : Str) (a : Attrs) (b : Bool) (st : St) : (opentag t a b st).notes = st.notes := rfl
@[simp] theorem opentag_cur (t : Str) (a : Attrs) (b : Bool) (st : St) : (opentag t a b st).cur = st.cur := rfl
@[simp] theorem opentag_listtypes (t : Str) (a : Attrs) (b : Bool) (st : St) : (opentag t a b st).listtypes = st.listtypes := rfl
@[simp] theorem opentag_data (t : Str) (a : Attrs) (b : Bool) (st : St) : (opentag t a b st).data = st.data := rfl

@[simp] theorem closePure_out (t : Str) (b : Bool) (st : St) : (closePure t b st).out = st.out ++ [.ctag t b] := rfl
@[simp] theorem closePure_depth (t : Str) (b : Bool) (st : St) : (closePure t b st).depth = st.depth - 1 := rfl
@[simp] theorem closePure_saved (t : Str) (b : Bool) (st : St) : (closePure t b st).saved = st.saved := rfl
@[simp] theorem closePure_nbOpen (t : Str) (b : Bool) (st : St) : (closePure t b st).nbOpen = st.nbOpen := rfl
@[simp] theorem closePure_notes (t : Str) (b : Bool) (st : St) : (closePure t b st).notes = st.notes := rfl
@[simp] theorem closePure_cur (t : Str) (b : Bool) (st : St) : (closePure t b st).cur = st.cur := rfl
@[simp] theorem closePure_listtypes (t : Str) (b : Bool) (st : St) : (closePure t b st).listtypes = st.listtypes := rfl
@[simp] theorem closePure_data (t : Str) (b : Bool) (st : St) : (closePure t b st).data = st.data := rfl

@[simp] theorem emptytag_out (t : Str) (a : Attrs) (st : St) : (emptytag t a st).out = st.out ++ [.etag t a] := rfl
@[simp] theorem emptytag_depth (t : Str) (a : Attrs) (st : St) : (emptytag t a st).depth = st.depth := rfl
@[simp] theorem emptytag_saved (t : Str) (a : Attrs) (st : St) : (emptytag t a st).saved = st.saved := rfl
@[simp] theorem emptytag_nbOpen (t : Str) (a : Attrs) (st : St) : (emptytag t a st).nbOpen = st.nbOpen := rfl
@[simp] theorem emptytag_notes (t : Str) (a : Attrs) (st : St) : (emptytag t a st).notes = st.notes := rfl
@[simp] theorem emptytag_cur (t : Str) (a : Attrs) (st : St) : (emptytag t a st).cur = st.cur := rfl
@[simp] theorem emptytag_listtypes (t : Str) (a : Attrs) (st : St) : (emptytag t a st).listtypes = st.listtypes := rfl
@[simp] theorem emptytag_data (t : Str) (a : Attrs) (st : St) : (emptytag t a st).data = st.data := rfl

/-- what `writedata` appends -/
def dataToks (d : Str) : List Tok := if d.isEmpty then [] else [.text d]

@[simp] theorem emitText_out (s : Str) (st : St) : (emitText s st).out = st.out ++ dataToks s := by
  unfold emitText dataToks; split <;> simp
@[simp] theorem emitText_depth (s : Str) (st : St) : (emitText s st).depth = st.depth := by unfold emitText; split <;> rfl
@[simp] theorem emitText_saved (s : Str) (st : St) : (emitText s st).saved = st.saved := by unfold emitText; split <;> rfl
@[simp] theorem emitText_nbOpen (s : Str) (st : St) : (emitText s st).nbOpen = st.nbOpen := by unfold emitText; split <;> rfl
@[simp] theorem emitText_notes (s : Str) (st : St) : (emitText s st).notes = st.notes := by unfold emitText; split <;> rfl
@[simp] theorem emitText_cur (s : Str) (st : St) : (emitText s st).cur = st.cur := by unfold emitText; split <;> rfl
@[simp] theorem emitText_listtypes (s : Str) (st : St) : (emitText s st).listtypes = st.listtypes := by unfold emitText; split <;> rfl
@[simp] theorem emitText_data (s : Str) (st : St) : (emitText s st).data = st.data := by unfold emitText; split <;> rfl

@[simp] theorem writedata_out (st : St) : (writedata st).out = st.out ++ dataToks st.data := by simp [writedata]
@[simp] theorem writedata_depth (st : St) : (writedata st).depth = st.depth := by simp [writedata]
@[simp] theorem writedata_saved (st : St) : (writedata st).saved = st.saved := by simp [writedata]
@[simp] theorem writedata_nbOpen (st : St) : (writedata st).nbOpen = st.nbOpen := by simp [writedata]
@[simp] theorem writedata_notes (st : St) : (writedata st).notes = st.notes := by simp [writedata]
@[simp] theorem writedata_cur (st : St) : (writedata st).cur = st.cur := by simp [writedata]
@[simp] theorem writedata_listtypes (st : St) : (writedata st).listtypes = st.listtypes := by simp [writedata]
@[simp] theorem writedata_data (st : St) : (writedata st).data = st.data := by simp [writedata]

@[simp] theorem emitAll_out (ts : List Tok) (st : St) : (emitAll ts st).out = st.out ++ ts := rfl
@[simp] theorem emitAll_depth (ts : List Tok) (st : St) : (emitAll ts st).depth = st.depth := rfl
@[simp] theorem emitAll_saved (ts : List Tok) (st : St) : (emitAll ts st).saved = st.saved := rfl
@[simp] theorem emitAll_nbOpen (ts : List Tok) (st : St) : (emitAll ts st).nbOpen = st.nbOpen := rfl
@[simp] theorem emitAll_notes (ts : List Tok) (st : St) : (emitAll ts st).notes = st.notes := rfl
@[simp] theorem emitAll_cur (ts : List Tok) (st : St) : (emitAll ts st).cur = st.cur := rfl
@[simp] theorem emitAll_listtypes (ts : List Tok) (st : St) : (emitAll ts st).listtypes = st.listtypes := rfl
@[simp] theorem emitAll_data (ts : List Tok) (st : St) : (emitAll ts st).data = st.data := rfl

theorem emitN_out (t : Tok) (n : Nat) (st : St) : (emitN t n st).out = st.out ++ List.replicate n t := by
  induction n generalizing st with
  | zero => simp [emitN]
  | succ n ih => simp [emitN, ih, List.replicate_succ]
@[simp] theorem emitN_depth (t : Tok) (n : Nat) (st : St) : (emitN t n st).depth = st.depth := by
  induction n generalizing st with | zero => rfl | succ n ih => simp [emitN, ih]
@[simp] theorem emitN_saved (t : Tok) (n : Nat) (st : St) : (emitN t n st).saved = st.saved := by
  induction n generalizing st with | zero => rfl | succ n ih => simp [emitN, ih]
@[simp] theorem emitN_nbOpen (t : Tok) (n : Nat) (st : St) : (emitN t n st).nbOpen = st.nbOpen := by
  induction n generalizing st with | zero => rfl | succ n ih => simp [emitN, ih]
@[simp] theorem emitN_notes (t : Tok) (n : Nat) (st : St) : (emitN t n st).notes = st.notes := by
  induction n generalizing st with | zero => rfl | succ n ih => simp [emitN, ih]
@[simp] theorem emitN_cur (t : Tok) (n : Nat) (st : St) : (emitN t n st).cur = st.cur := by
  induction n generalizing st with | zero => rfl | succ n ih => simp [emitN, ih]
@[simp] theorem emitN_listtypes (t : Tok) (n : Nat) (st : St) : (emitN t n st).listtypes = st.listtypes := by
  induction n generalizing st with | zero => rfl | succ n ih => simp [emitN, ih]
@[simp] theorem emitN_data (t : Tok) (n : Nat) (st : St) : (emitN t n st).data = st.data := by
  induction n generalizing st with | zero => rfl | succ n ih => simp [emitN, ih]

theorem closetag_ok (t : Str) (b : Bool) (st : St) (h : 0 < st.depth) : closetag t b st = .ok (closePure t b st) := by
  unfold closetag; rw [if_neg (by omega)]

@[simp] theorem getAnchor_out (n : Str) (st : St) : (getAnchor n st).2.out = st.out := by simp only [getAnchor]; split <;> rfl
@[simp] theorem getAnchor_depth (n : Str) (st : St) : (getAnchor n st).2.depth = st.depth := by simp only [getAnchor]; split <;> rfl
@[simp] theorem getAnchor_saved (n : Str) (st : St) : (getAnchor n st).2.saved = st.saved := by simp only [getAnchor]; split <;> rfl
@[simp] theorem getAnchor_nbOpen (n : Str) (st : St) : (getAnchor n st).2.nbOpen = st.nbOpen := by simp only [getAnchor]; split <;> rfl
@[simp] theorem getAnchor_notes (n : Str) (st : St) : (getAnchor n st).2.notes = st.notes := by simp only [getAnchor]; split <;> rfl
@[simp] theorem getAnchor_cur (n : Str) (st : St) : (getAnchor n st).2.cur = st.cur := by simp only [getAnchor]; split <;> rfl
@[simp] theorem getAnchor_listtypes (n : Str) (st : St) : (getAnchor n st).2.listtypes = st.listtypes := by simp only [getAnchor]; split <;> rfl
@[simp] theorem getAnchor_data (n : Str) (st : St) : (getAnchor n st).2.data = st.data := by simp only [getAnchor]; split <;> rfl

/-- what `emitCss` appends -/
def cssToks (s : Str) : List Tok := if s.isEmpty then [] else [.raw (.css s)]

@[simp] theorem emitCss_out (s : Str) (st : St) : (emitCss s st).out = st.out ++ cssToks s := by
  unfold emitCss cssToks; split <;> simp
@[simp] theorem emitCss_depth (s : Str) (st : St) : (emitCss s st).depth = st.depth := by unfold emitCss; split <;> rfl
@[simp] theorem emitCss_saved (s : Str) (st : St) : (emitCss s st).saved = st.saved := by unfold emitCss; split <;> rfl
@[simp] theorem emitCss_nbOpen (s : Str) (st : St) : (emitCss s st).nbOpen = st.nbOpen := by unfold emitCss; split <;> rfl
@[simp] theorem emitCss_notes (s : Str) (st : St) : (emitCss s st).notes = st.notes := by unfold emitCss; split <;> rfl
@[simp] theorem emitCss_cur (s : Str) (st : St) : (emitCss s st).cur = st.cur := by unfold emitCss; split <;> rfl
@[simp] theorem emitCss_listtypes (s : Str) (st : St) : (emitCss s st).listtypes = st.listtypes := by unfold emitCss; split <;> rfl
@[simp] theorem emitCss_data (s : Str) (st : St) : (emitCss s st).data = st.data := by unfold emitCss; split <;> rfl

@[simp] theorem tfh_out (st : St) : (titleFromHeading st).out = st.out := by unfold titleFromHeading; split <;> rfl
@[simp] theorem tfh_depth (st : St) : (titleFromHeading st).depth = st.depth := by unfold titleFromHeading; split <;> rfl
@[simp] theorem tfh_saved (st : St) : (titleFromHeading st).saved = st.saved := by unfold titleFromHeading; split <;> rfl
@[simp] theorem tfh_nbOpen (st : St) : (titleFromHeading st).nbOpen = st.nbOpen := by unfold titleFromHeading; split <;> rfl
@[simp] theorem tfh_notes (st : St) : (titleFromHeading st).notes = st.notes := by unfold titleFromHeading; split <;> rfl
@[simp] theorem tfh_cur (st : St) : (titleFromHeading st).cur = st.cur := by unfold titleFromHeading; split <;> rfl
@[simp] theorem tfh_listtypes (st : St) : (titleFromHeading st).listtypes = st.listtypes := by unfold titleFromHeading; split <;> rfl
@[simp] theorem tfh_data (st : St) : (titleFromHeading st).data = st.data := by unfold titleFromHeading; split <;> rfl

/-! ### the bracket structure of a token list -/

/-- bracket view of a token: the hand-written `<title>` … `</title>` pair counts as a tag pair -/
inductive Br where
  | op (t : Str) | cl (t : Str) | neutral

def br : Tok → Br
  | .otag t _ _ => .op t
  | .ctag t _ => .cl t
  | .raw .titleOpen => .op nTitle
  | .raw .titleClose => .cl nTitle
  | _ => .neutral

/-- run the token list over a stack of open tags; `none` = a close tag that does not match the innermost open tag -/
def bal : List Tok → List Str → Option (List Str)
  | [], s => some s
  | t :: ts, s =>
    match br t with
    | .op x => bal ts (x :: s)
    | .cl x =>
      match s with
      | y :: s' => if x = y then bal ts s' else none
      | [] => none
    | .neutral => bal ts s

/-- the output is a Dyck word: every tag closed, properly nested -/
def Dyck (ts : List Tok) : Prop := bal ts [] = some []

/-- a segment that leaves every stack as it found it -/
def Balanced (w : List Tok) : Prop := ∀ s, bal w s = some s

theorem bal_append (w1 w2 : List Tok) (s : List Str) : bal (w1 ++ w2) s = (bal w1 s).bind (bal w2) := by
  induction w1 generalizing s with
  | nil => simp [bal]
  | cons t ts ih =>
    simp only [List.cons_append, bal]
    cases br t with
    | op x => exact ih _
    | cl x =>
      cases s with
      | nil => simp
      | cons y s' => by_cases h : x = y <;> simp [h, ih]
    | neutral => exact ih _

theorem Balanced.nil : Balanced [] := fun _ => rfl

theorem Balanced.append {w1 w2 : List Tok} (h1 : Balanced w1) (h2 : Balanced w2) : Balanced (w1 ++ w2) := by
  intro s; rw [bal_append, h1 s]; exact h2 s

theorem Balanced.neutral {t : Tok} (h : br t = .neutral) : Balanced [t] := by
  intro s; simp [bal, h]

theorem Balanced.wrap {w : List Tok} (h : Balanced w) (t : Str) (a : Attrs) (b b' : Bool) :
    Balanced (Tok.otag t a b :: (w ++ [Tok.ctag t b'])) := by
  intro s
  show bal (w ++ [Tok.ctag t b']) (t :: s) = some s
  rw [bal_append, h (t :: s)]
  simp [bal, br]

theorem Balanced.dataToks (d : Str) : Balanced (dataToks d) := by
  unfold Xhtml.dataToks; split
  · exact Balanced.nil
  · exact Balanced.neutral rfl

theorem Balanced.replicate {t : Tok} (h : br t = .neutral) (n : Nat) : Balanced (List.replicate n t) := by
  induction n with
  | zero => exact Balanced.nil
  | succ n ih => rw [List.replicate_succ]; exact Balanced.append (w1 := [t]) (Balanced.neutral h) ih

theorem Balanced.cons_neutral {t : Tok} {w : List Tok} (ht : br t = .neutral) (h : Balanced w) : Balanced (t :: w) :=
  Balanced.append (w1 := [t]) (Balanced.neutral ht) h

@[simp] theorem bal_cssToks (c : Str) (S : List Str) : bal (cssToks c) S = some S := by
  unfold cssToks; split <;> simp [bal, br]

@[simp] theorem bal_dataToks (d : Str) (S : List Str) : bal (dataToks d) S = some S := Balanced.dataToks d S

theorem bal_replicate_neutral {t : Tok} (h : br t = .neutral) (n : Nat) (S : List Str) :
    bal (List.replicate n t) S = some S := Balanced.replicate h n S

/-! ### effect of the handlers, in the form the induction needs -/

/-- the fields no handler of running text touches (only the note handlers do) -/
structure Same (st st' : St) : Prop where
  saved : st'.saved = st.saved
  nbOpen : st'.nbOpen = st.nbOpen
  notes : st'.notes = st.notes
  cur : st'.cur = st.cur
  listtypes : st'.listtypes = st.listtypes

theorem Same.refl (st : St) : Same st st := ⟨rfl, rfl, rfl, rfl, rfl⟩

theorem Same.trans {a b c : St} (h1 : Same a b) (h2 : Same b c) : Same a c :=
  ⟨h2.saved.trans h1.saved, h2.nbOpen.trans h1.nbOpen, h2.notes.trans h1.notes, h2.cur.trans h1.cur,
   h2.listtypes.trans h1.listtypes⟩

/-- the handler succeeds, keeps the flags, and leaves the tag `t` open on top of whatever was open -/
def Opens (r : M (St × Bool × Bool)) (st : St) (pe pc : Bool) (t : Str) : Prop :=
  ∃ st1, r = .ok (st1, pe, pc) ∧ st1.depth = st.depth + 1 ∧ Same st st1 ∧
    ∀ s S, bal st.out s = some S → bal st1.out s = some (t :: S)

/-- the handler succeeds and closes the innermost open tag `t` -/
def Closes (r : M (St × Bool × Bool)) (st : St) (t : Str) : Prop :=
  ∃ st1 pe pc, r = .ok (st1, pe, pc) ∧ st1.depth + 1 = st.depth ∧ Same st st1 ∧
    ∀ s S, bal st.out s = some (t :: S) → bal st1.out s = some S

/-- the handler succeeds, keeps the flags and writes a balanced segment -/
def Keeps (r : M (St × Bool × Bool)) (st : St) (pe pc : Bool) : Prop :=
  ∃ st1, r = .ok (st1, pe, pc) ∧ st1.depth = st.depth ∧ Same st st1 ∧
    ∀ s S, bal st.out s = some S → bal st1.out s = some S

/-- (start handler, end handler) pairs that bracket their content with one tag, and what they need from the attributes -/
inductive BracketH : HName → HName → Attrs → Prop
  | p (a) : BracketH .s_text_p .e_text_p a
  | span (a) : BracketH .s_text_span .e_text_span a
  | list (a) : BracketH .s_text_list .e_text_list a
  | item (a) : BracketH .s_text_list_item .e_text_list_item a
  | table (a) : BracketH .s_table_table .e_table_table a
  | row (a) : BracketH .s_table_table_row .e_table_table_row a
  | cell (a) : BracketH .s_table_table_cell .e_table_table_cell a
  | frame (a) : BracketH .s_draw_frame .e_draw_frame a
  | shape (a) : BracketH .s_custom_shape .e_custom_shape a
  | textbox (a) : BracketH .s_draw_textbox .e_draw_textbox a
  | page (a) : BracketH .s_draw_page .e_draw_page a
  | link (a v) : a.lookup kHref = some v → BracketH .s_text_a .e_text_a a
  | bmref (a v) : a.lookup kRefName = some v → BracketH .s_text_bookmark_ref .e_text_a a
  | heading (a lvl) : headingLevel a = .ok lvl → BracketH .s_text_h .e_text_h a

/-- start handlers without an end handler that write a balanced segment, and what they need -/
inductive LeafH : HName → Attrs → Prop
  | s (a n) : pyInt ((a.lookup kC).getD sOne) = some n → LeafH .s_text_s a
  | tab (a) : LeafH .s_text_tab a
  | br (a) : LeafH .s_text_line_break a
  | drawshape (a) : LeafH .s_draw_shape a
  | bookmark (a v) : a.lookup kName = some v → LeafH .s_text_bookmark a
  | image (a v) : a.lookup kHref = some v → LeafH .s_draw_image a
  | column (a n) : pyInt ((a.lookup kColsRepeated).getD sOne) = some n → LeafH .s_table_table_column a

syntax "bal_tac" : tactic
macro_rules
  | `(tactic| bal_tac) => `(tactic| (intro s S h; simp [bal_append, h, bal, br, emitN_out, bal_replicate_neutral]))

syntax "same_tac" : tactic
macro_rules
  | `(tactic| same_tac) => `(tactic| (constructor <;> simp))

theorem opens_pure {st1 st : St} {pe pc : Bool} {t : Str} {r : M (St × Bool × Bool)} (hr : r = .ok (st1, pe, pc))
    (hd : st1.depth = st.depth + 1) (hs : Same st st1)
    (hb : ∀ s S, bal st.out s = some S → bal st1.out s = some (t :: S)) : Opens r st pe pc t := ⟨st1, hr, hd, hs, hb⟩

/-- end handlers of the form `writedata(); closetag(t); purgedata()` -/
theorem closes_wcp (st : St) (t : Str) (b pe pc : Bool) (hd : 0 < st.depth) :
    Closes (((closetag t b (writedata st)).map purgedata).map (fun s => (s, pe, pc))) st t := by
  have hd' : 0 < (writedata st).depth := by simpa using hd
  refine ⟨purgedata (closePure t b (writedata st)), pe, pc, ?_, ?_, ?_, ?_⟩
  · simp [closetag_ok _ _ _ hd', Except.map]
  · simp; omega
  · same_tac
  · bal_tac

theorem closes_c (st : St) (t : Str) (b pe pc : Bool) (hd : 0 < st.depth) :
    Closes ((closetag t b st).map (fun s => (s, pe, pc))) st t := by
  refine ⟨closePure t b st, pe, pc, ?_, ?_, ?_, ?_⟩
  · simp [closetag_ok _ _ _ hd, Except.map]
  · simp; omega
  · same_tac
  · bal_tac

theorem bracket_spec {hs he : HName} {a : Attrs} (hb : BracketH hs he a) (cfg : Cfg) (ctx : Ctx) (q : Str) (pe pc : Bool) (st : St) :
    ∃ t, Opens (runH cfg ctx hs q a pe pc st) st pe pc t ∧
      ∀ st2 pe2 pc2, st2.listtypes = st.listtypes → 0 < st2.depth → Closes (runH cfg ctx he q a pe2 pc2 st2) st2 t := by
  cases hb with
  | p =>
    refine ⟨paraTag a, opens_pure rfl (by simp) (by same_tac) (by bal_tac), ?_⟩
    intro st2 pe2 pc2 _ hd; exact closes_wcp st2 _ true pe2 pc2 hd
  | span =>
    refine ⟨nSpan, opens_pure rfl (by simp) (by same_tac) (by bal_tac), ?_⟩
    intro st2 pe2 pc2 _ hd; exact closes_wcp st2 _ false pe2 pc2 hd
  | list =>
    refine ⟨listTag st (listClass ctx q a), opens_pure rfl (by simp) (by same_tac) (by bal_tac), ?_⟩
    intro st2 pe2 pc2 hl hd
    have : listTag st2 (listClass ctx q a) = listTag st (listClass ctx q a) := by simp [listTag, hl]
    rw [← this]; exact closes_wcp st2 _ true pe2 pc2 hd
  | item =>
    refine ⟨nLi, opens_pure rfl (by simp) (by same_tac) (by bal_tac), ?_⟩
    intro st2 pe2 pc2 _ hd; exact closes_wcp st2 _ true pe2 pc2 hd
  | table =>
    refine ⟨nTable, opens_pure rfl (by simp) (by same_tac) (by bal_tac), ?_⟩
    intro st2 pe2 pc2 _ hd; exact closes_wcp st2 _ true pe2 pc2 hd
  | row =>
    refine ⟨nTr, opens_pure rfl (by simp) (by same_tac) (by bal_tac), ?_⟩
    intro st2 pe2 pc2 _ hd; exact closes_wcp st2 _ true pe2 pc2 hd
  | cell =>
    refine ⟨nTd, opens_pure rfl (by simp) (by same_tac) (by bal_tac), ?_⟩
    intro st2 pe2 pc2 _ hd; exact closes_wcp st2 _ true pe2 pc2 hd
  | frame =>
    refine ⟨nDiv, ?_, ?_⟩
    · by_cases hc : cfg.css = true
      · exact opens_pure (by simp [runH, hc]; rfl) (by simp) (by same_tac) (by bal_tac)
      · exact opens_pure (by simp [runH, hc]; rfl) (by simp) (by same_tac) (by bal_tac)
    · intro st2 pe2 pc2 _ hd; exact closes_c st2 _ true pe2 pc2 hd
  | shape =>
    refine ⟨nDiv, ?_, ?_⟩
    · by_cases hc : cfg.css = true
      · exact opens_pure (by simp [runH, hc]; rfl) (by simp) (by same_tac) (by bal_tac)
      · exact opens_pure (by simp [runH, hc]; rfl) (by simp) (by same_tac) (by bal_tac)
    · intro st2 pe2 pc2 _ hd; exact closes_c st2 _ true pe2 pc2 hd
  | textbox =>
    refine ⟨nDiv, opens_pure rfl (by simp) (by same_tac) (by bal_tac), ?_⟩
    intro st2 pe2 pc2 _ hd; exact closes_c st2 _ true pe2 pc2 hd
  | page =>
    refine ⟨nFieldset, ?_, ?_⟩
    · by_cases hc : cfg.css = true
      · refine opens_pure (st1 := closePure nLegend true (emitText ((a.lookup kDrawName).getD sNoName) (opentag nLegend [] false
            (opentag nFieldset [(aClass, sDP ++ replaceDot ((a.lookup kDrawStyle).getD []) ++ sMP ++ replaceDot ((a.lookup kMasterPage).getD []))] false st))))
            ?_ (by simp) (by same_tac) (by bal_tac)
        simp [runH, hc, closetag_ok, Except.map]
      · refine opens_pure (st1 := closePure nLegend true (emitText ((a.lookup kDrawName).getD sNoName) (opentag nLegend [] false
            (opentag nFieldset [] false st)))) ?_ (by simp) (by same_tac) (by bal_tac)
        simp [runH, hc, closetag_ok, Except.map]
    · intro st2 pe2 pc2 _ hd; exact closes_c st2 _ true pe2 pc2 hd
  | link _ v h =>
    refine ⟨nA, ?_, ?_⟩
    · cases hb : beforeBar v with
      | nil => exact opens_pure (by simp [runH, h, hb]; rfl) (by simp) (by same_tac) (by bal_tac)
      | cons c r =>
        by_cases hc : c = 35
        · subst hc
          exact opens_pure (by simp [runH, h, hb]; rfl) (by simp) (by same_tac) (by bal_tac)
        · refine opens_pure (st1 := purgedata (opentag nA [(aHref, c :: r)] false (writedata st))) ?_ (by simp) (by same_tac) (by bal_tac)
          simp only [runH, h, hb]
          split
          · rename_i heq; injection heq with h1 _; exact absurd h1 hc
          · rfl
    · intro st2 pe2 pc2 _ hd; exact closes_wcp st2 _ false pe2 pc2 hd
  | bmref _ v h =>
    refine ⟨nA, opens_pure (by simp [runH, h]; rfl) (by simp) (by same_tac) (by bal_tac), ?_⟩
    intro st2 pe2 pc2 _ hd; exact closes_wcp st2 _ false pe2 pc2 hd
  | heading _ lvl h =>
    refine ⟨nH ++ natToStr lvl, opens_pure (by simp [runH, h]; rfl) (by simp) (by same_tac) (by bal_tac), ?_⟩
    intro st2 pe2 pc2 _ hd
    let p := getAnchor (outlineStr (titleFromHeading (writedata st2)).hl lvl ++ [46] ++ (titleFromHeading (writedata st2)).data)
      (titleFromHeading (writedata st2))
    refine ⟨purgedata (closePure (nH ++ natToStr lvl) true (closePure nA false (opentag nA [(aId, p.1)] false p.2))), pe2, pc2, ?_, ?_, ?_, ?_⟩
    · simp [runH, h, closetag_ok, Except.map, hd, bind, Except.bind, pure, Except.pure, p]
    · simp [p]; omega
    · constructor <;> simp [p]
    · intro s S h; simp [bal_append, h, bal, br, p]

theorem leaf_spec {hs : HName} {a : Attrs} (hl : LeafH hs a) (cfg : Cfg) (ctx : Ctx) (hstack : ctx.stack ≠ []) (q : Str) (pe pc : Bool) (st : St) :
    Keeps (runH cfg ctx hs q a pe pc st) st pe pc := by
  cases hl with
  | s _ n h =>
    refine ⟨_, by simp [runH, h]; rfl, by simp, by same_tac, ?_⟩
    intro s S h; simp [bal_append, h, emitN_out]; exact bal_replicate_neutral rfl n S
  | tab => exact ⟨_, rfl, by simp, by same_tac, by bal_tac⟩
  | br => exact ⟨_, rfl, by simp, by same_tac, by bal_tac⟩
  | drawshape => exact ⟨_, rfl, by simp, by same_tac, by bal_tac⟩
  | bookmark _ v h =>
    refine ⟨purgedata (closePure nSpan false (opentag nSpan [(aId, (getAnchor v st).1)] false (writedata (getAnchor v st).2))), ?_, by simp, by same_tac, by bal_tac⟩
    simp [runH, h, closetag_ok, Except.map]
  | image _ v h =>
    cases hst : ctx.stack with
    | nil => exact absurd hst hstack
    | cons parent rest => exact ⟨_, by simp [runH, h, hst]; rfl, by simp, by same_tac, by bal_tac⟩
  | column _ n h =>
    refine ⟨_, by simp [runH, h]; rfl, by simp, by same_tac, ?_⟩
    intro s S h; simp [bal_append, h, emitN_out]; exact bal_replicate_neutral rfl n S

/-! ### supported running text ("flow") and the induction over it -/

mutual
/-- `Flow b n`: node `n` is running text of the supported vocabulary; `b` = inside a note body (no note allowed there) -/
inductive Flow : Bool → Node → Prop
  | text (b s) : Flow b (.text s)
  | transparent (b q a kids) : dispatch q = (none, none) → FlowL b kids → Flow b (.elem q a kids)
  | ignored (b q a kids he) : dispatch q = (some .s_ignorexml, he) → Flow b (.elem q a kids)
  | bracket (b q a kids hs he) : dispatch q = (some hs, some he) → BracketH hs he a → FlowL b kids → Flow b (.elem q a kids)
  | leaf (b q a kids hs) : dispatch q = (some hs, none) → LeafH hs a → FlowL b kids → Flow b (.elem q a kids)
  | note (q a qc ac) (cite : List Str) (qb ab kids) : dispatch q = (some .s_text_note, none) →
      dispatch qc = (none, some .e_text_note_citation) →
      dispatch qb = (some .s_text_note_body, some .e_text_note_body) → FlowL true kids →
      Flow false (.elem q a [.elem qc ac (cite.map Node.text), .elem qb ab kids])
inductive FlowL : Bool → List Node → Prop
  | nil (b) : FlowL b []
  | cons (b n ns) : Flow b n → FlowL b ns → FlowL b (n :: ns)
end

/-- what holds of the state wherever running text is processed -/
def Inv (b : Bool) (st : St) : Prop := st.saved.isSome = b ∧ st.nbOpen = b ∧ st.cur = st.notes.length

/-- every collected note has a body, and the body is balanced -/
def NotesOK (ns : List (Option (List Tok))) : Prop := ∀ x ∈ ns, ∃ body, x = some body ∧ Balanced body

/-- effect of a piece of running text on the state -/
structure Eff (b : Bool) (st st' : St) : Prop where
  depth : st'.depth = st.depth
  saved : st'.saved = st.saved
  nbOpen : st'.nbOpen = st.nbOpen
  listtypes : st'.listtypes = st.listtypes
  cur : st'.cur = st'.notes.length
  notes : ∃ N, st'.notes = st.notes ++ N ∧ NotesOK N ∧ (b = true → N = [])
  stack : ∀ s S, bal st.out s = some S → bal st'.out s = some S

theorem Eff.refl {b : Bool} {st : St} (h : Inv b st) : Eff b st st :=
  ⟨rfl, rfl, rfl, rfl, h.2.2, ⟨[], (List.append_nil _).symm, (fun x hx => nomatch hx), fun _ => rfl⟩, fun _ _ h => h⟩

theorem Eff.inv {b : Bool} {st st' : St} (h : Inv b st) (e : Eff b st st') : Inv b st' :=
  ⟨by rw [e.saved]; exact h.1, by rw [e.nbOpen]; exact h.2.1, e.cur⟩

theorem Eff.trans {b : Bool} {s1 s2 s3 : St} (e1 : Eff b s1 s2) (e2 : Eff b s2 s3) : Eff b s1 s3 := by
  obtain ⟨N1, h1, ok1, n1⟩ := e1.notes
  obtain ⟨N2, h2, ok2, n2⟩ := e2.notes
  refine ⟨e2.depth.trans e1.depth, e2.saved.trans e1.saved, e2.nbOpen.trans e1.nbOpen, e2.listtypes.trans e1.listtypes,
    e2.cur, ⟨N1 ++ N2, by rw [h2, h1, List.append_assoc], ?_, ?_⟩, fun s S h => e2.stack s S (e1.stack s S h)⟩
  · intro x hx
    rcases List.mem_append.mp hx with hx | hx
    · exact ok1 x hx
    · exact ok2 x hx
  · intro hb; rw [n1 hb, n2 hb]; rfl

/-- a handler that only keeps/writes a balanced segment, seen as an effect -/
theorem Eff.of_same {b : Bool} {st st1 : St} (hi : Inv b st) (hd : st1.depth = st.depth) (hs : Same st st1)
    (hb : ∀ s S, bal st.out s = some S → bal st1.out s = some S) : Eff b st st1 :=
  ⟨hd, hs.saved, hs.nbOpen, hs.listtypes, by rw [hs.cur, hs.notes]; exact hi.2.2,
   ⟨[], by simp [hs.notes], (fun x hx => nomatch hx), fun _ => rfl⟩, hb⟩

theorem walk_text (cfg : Cfg) (ctx : Ctx) (st : St) (s : Str) :
    walk cfg ctx st (.text s) = .ok (if ctx.pe && ctx.pc then { st with data := st.data ++ s } else st) := by
  simp [walk]

theorem walk_elem (cfg : Cfg) (ctx : Ctx) (st : St) (q : Str) (a : Attrs) (kids : List Node) (hpe : ctx.pe = true) :
    walk cfg ctx st (.elem q a kids) =
      match startEl cfg ctx q a st with
      | .error e => .error e
      | .ok (st1, pe1, pc1) =>
        match walkList cfg { stack := (q, a) :: ctx.stack, pe := pe1, pc := pc1 } st1 kids with
        | .error e => .error e
        | .ok st2 => if pe1 then endEl cfg ctx q a pe1 pc1 st2 else .ok st2 := by
  rw [walk]; simp only [hpe, if_true]; rfl

/-- text nodes only change the pending data -/
theorem walkList_texts (cfg : Cfg) (ctx : Ctx) (st : St) (ss : List Str) :
    ∃ d, walkList cfg ctx st (ss.map Node.text) = .ok { st with data := d } := by
  induction ss generalizing st with
  | nil => exact ⟨st.data, by simp [walkList]⟩
  | cons s ss ih =>
    simp only [List.map_cons, walkList, walk_text]
    by_cases hc : (ctx.pe && ctx.pc) = true
    · simp only [hc, if_true]
      obtain ⟨d, hd⟩ := ih { st with data := st.data ++ s }
      exact ⟨d, by rw [hd]⟩
    · simp only [hc]
      exact ih st

theorem Eff.of_data {b : Bool} {st : St} (hi : Inv b st) (d : Str) : Eff b st { st with data := d } :=
  Eff.of_same hi rfl ⟨rfl, rfl, rfl, rfl, rfl⟩ (fun _ _ h => h)

theorem set_last {α : Type} (l : List α) (x y : α) : (l ++ [x]).set l.length y = l ++ [y] := by
  induction l with
  | nil => rfl
  | cons a l ih => simp [List.set, ih]

theorem citation_spec (cfg : Cfg) (ctx : Ctx) (q : Str) (a : Attrs) (pe pc : Bool) (st : St) (h1 : st.cur ≠ 0)
    (h2 : st.cur ≤ st.notes.length) :
    runH cfg ctx .e_text_note_citation q a pe pc st =
      .ok (closePure nA true (closePure nSup true (emit (.raw (.num st.cur))
        (opentag nSup [] false (opentag nA [(aHref, sHashFootnote ++ natToStr st.cur)] false st)))), pe, pc) := by
  have hc : (st.cur = 0 || decide (st.cur > st.notes.length)) = false := by simp [h1]; omega
  simp only [runH, hc]
  rw [closetag_ok _ _ _ (by simp)]
  simp only [bind, Except.bind]
  rw [closetag_ok _ _ _ (by simp)]
  rfl

/-- below an ignored element nothing happens -/
theorem walkList_dead (cfg : Cfg) (ctx : Ctx) (st : St) (l : List Node) (hpe : ctx.pe = false) :
    walkList cfg ctx st l = .ok st := by
  induction l with
  | nil => simp [walkList]
  | cons n ns ih =>
    cases n with
    | text s => simp [walkList, walk, hpe, ih]
    | elem q a kids => simp [walkList, walk, hpe, ih]

mutual
/-- running text of the supported vocabulary is converted without error; it leaves the open tags, the tag depth and the
    buffer switch as it found them, and every note it collects has a balanced body -/
theorem walk_flow (cfg : Cfg) (n : Node) (b : Bool) (ctx : Ctx) (st : St) (hf : Flow b n) (hpe : ctx.pe = true)
    (hst : ctx.stack ≠ []) (hi : Inv b st) : ∃ st', walk cfg ctx st n = .ok st' ∧ Eff b st st' := by
  cases hf with
  | text _ s =>
    refine ⟨_, walk_text cfg ctx st s, ?_⟩
    split
    · exact Eff.of_data hi _
    · exact Eff.refl hi
  | transparent _ q a kids hd hk =>
    obtain ⟨st2, h2, e2⟩ := walkList_flow cfg kids b ⟨(q, a) :: ctx.stack, ctx.pe, ctx.pc⟩ st hk hpe (by simp) hi
    refine ⟨st2, ?_, e2⟩
    rw [walk_elem _ _ _ _ _ _ hpe]
    simp only [hpe] at h2
    simp [startEl, endEl, hd, h2, hpe]
  | ignored _ q a kids he hd =>
    refine ⟨st, ?_, Eff.refl hi⟩
    rw [walk_elem _ _ _ _ _ _ hpe]
    simp [startEl, hd, runH, walkList_dead]
  | bracket _ q a kids hs he hd hb hk =>
    obtain ⟨t, ho, hc⟩ := bracket_spec hb cfg ctx q ctx.pe ctx.pc st
    obtain ⟨st1, hr1, hd1, hs1, hb1⟩ := ho
    have hi1 : Inv b st1 := ⟨by rw [hs1.saved]; exact hi.1, by rw [hs1.nbOpen]; exact hi.2.1, by rw [hs1.cur, hs1.notes]; exact hi.2.2⟩
    obtain ⟨st2, h2, e2⟩ := walkList_flow cfg kids b ⟨(q, a) :: ctx.stack, ctx.pe, ctx.pc⟩ st1 hk hpe (by simp) hi1
    obtain ⟨st3, pe3, pc3, hr3, hd3, hs3, hb3⟩ := hc st2 ctx.pe ctx.pc (by rw [e2.listtypes, hs1.listtypes]) (by rw [e2.depth, hd1]; omega)
    refine ⟨st3, ?_, ?_⟩
    · rw [walk_elem _ _ _ _ _ _ hpe]
      simp only [hpe] at h2 hr1 hr3
      simp [startEl, endEl, hd, hr1, h2, hpe, hr3, Except.map]
    · obtain ⟨N, hN, okN, nN⟩ := e2.notes
      have hdd := e2.depth
      refine ⟨by omega, ?_, ?_, ?_, ?_, ⟨N, ?_, okN, nN⟩, ?_⟩
      · rw [hs3.saved, e2.saved, hs1.saved]
      · rw [hs3.nbOpen, e2.nbOpen, hs1.nbOpen]
      · rw [hs3.listtypes, e2.listtypes, hs1.listtypes]
      · rw [hs3.cur, hs3.notes]; exact e2.cur
      · rw [hs3.notes, hN, hs1.notes]
      · intro s S h; exact hb3 s S (e2.stack s _ (hb1 s S h))
  | leaf _ q a kids hs hd hl hk =>
    obtain ⟨st1, hr1, hd1, hs1, hb1⟩ := leaf_spec hl cfg ctx hst q ctx.pe ctx.pc st
    have e1 : Eff b st st1 := Eff.of_same hi hd1 hs1 hb1
    obtain ⟨st2, h2, e2⟩ := walkList_flow cfg kids b ⟨(q, a) :: ctx.stack, ctx.pe, ctx.pc⟩ st1 hk hpe (by simp) (e1.inv hi)
    refine ⟨st2, ?_, e1.trans e2⟩
    rw [walk_elem _ _ _ _ _ _ hpe]
    simp only [hpe] at h2 hr1
    simp [startEl, endEl, hd, hr1, h2, hpe]
  | note q a qc ac cite qb ab kids hd hdc hdb hk =>
    have hsv : st.saved = none := by
      have h1 := hi.1
      cases h : st.saved with
      | none => rfl
      | some x => rw [h] at h1; simp at h1
    have hnb : st.nbOpen = false := hi.2.1
    have hcur : st.cur = st.notes.length := hi.2.2
    -- s_text_note
    let st1 : St := { purgedata (writedata st) with cur := st.cur + 1, notes := st.notes ++ [none], nbOpen := true }
    have hr1 : runH cfg ctx .s_text_note q a true ctx.pc st = .ok (st1, true, ctx.pc) := by simp [runH, hsv, st1]
    -- the citation: its text only reaches self.data; e_text_note_citation writes <a><sup>n</sup></a>
    obtain ⟨d, hcit⟩ := walkList_texts cfg ⟨(qc, ac) :: (q, a) :: ctx.stack, true, ctx.pc⟩ st1 cite
    let st1d : St := { st1 with data := d }
    let st2 : St := closePure nA true (closePure nSup true (emit (.raw (.num st1d.cur))
      (opentag nSup [] false (opentag nA [(aHref, sHashFootnote ++ natToStr st1d.cur)] false st1d))))
    have hr2 : runH cfg ⟨(q, a) :: ctx.stack, true, ctx.pc⟩ .e_text_note_citation qc ac true ctx.pc st1d = .ok (st2, true, ctx.pc) := by
      rw [citation_spec _ _ _ _ _ _ _ (by simp [st1d, st1]) (by simp [st1d, st1, hcur])]
    -- the body: the buffer is swapped, the children are running text inside a note
    let st3 : St := { st2 with saved := some st2.out, out := [] }
    have hr3 : runH cfg ⟨(q, a) :: ctx.stack, true, ctx.pc⟩ .s_text_note_body qb ab true ctx.pc st2 = .ok (st3, true, ctx.pc) := by
      simp [runH, st3, st2, st1d, st1, hsv]
    have hi3 : Inv true st3 := ⟨rfl, rfl, by simp [st3, st2, st1d, st1, hcur]⟩
    obtain ⟨st4, h4, e4⟩ := walkList_flow cfg kids true ⟨(qb, ab) :: (q, a) :: ctx.stack, true, ctx.pc⟩ st3 hk rfl (by simp) hi3
    obtain ⟨N4, hN4, _, nN4⟩ := e4.notes
    have hN4' : st4.notes = st.notes ++ [none] := by rw [hN4, nN4 rfl]; simp [st3, st2, st1d, st1]
    have hcur4 : st4.cur = st.notes.length + 1 := by rw [e4.cur, hN4']; simp
    have hsv4 : st4.saved = some st2.out := by rw [e4.saved]
    let st5 : St := { st4 with out := st2.out, saved := none, notes := st.notes ++ [some st4.out], nbOpen := false }
    have hr5 : runH cfg ⟨(q, a) :: ctx.stack, true, ctx.pc⟩ .e_text_note_body qb ab true ctx.pc st4 = .ok (st5, true, ctx.pc) := by
      simp [runH, hsv4, hcur4, hN4', st5, set_last]
    have hbody : Balanced st4.out := fun s => e4.stack s s rfl
    refine ⟨st5, ?_, ?_⟩
    · rw [walk_elem _ _ _ _ _ _ hpe]
      simp only [startEl, hd, hpe, hr1]
      simp only [walkList]
      rw [walk_elem _ _ _ _ _ _ rfl]
      simp only [startEl, endEl, hdc, hcit]
      simp only [st1d] at hr2
      simp only [hr2, Except.map, if_true]
      rw [walk_elem _ _ _ _ _ _ rfl]
      simp only [startEl, endEl, hdb, hr3, h4, hr5, Except.map, if_true, hd]
    · refine ⟨?_, ?_, ?_, ?_, ?_, ⟨[some st4.out], rfl, ?_, fun h => nomatch h⟩, ?_⟩
      · have := e4.depth; simp [st5, this, st3, st2, st1d, st1]
      · simp [st5, hsv]
      · simp [st5, hnb]
      · have := e4.listtypes; simp [st5, this, st3, st2, st1d, st1]
      · simp [st5, hcur4]
      · intro x hx; simp at hx; exact ⟨st4.out, hx, hbody⟩
      · intro s S h
        simp [st5, st2, st1d, st1, bal_append, h, bal, br]
termination_by sizeOf n

theorem walkList_flow (cfg : Cfg) (l : List Node) (b : Bool) (ctx : Ctx) (st : St) (hf : FlowL b l) (hpe : ctx.pe = true)
    (hst : ctx.stack ≠ []) (hi : Inv b st) : ∃ st', walkList cfg ctx st l = .ok st' ∧ Eff b st st' := by
  cases hf with
  | nil _ => exact ⟨st, by simp [walkList], Eff.refl hi⟩
  | cons _ n ns hn hns =>
    obtain ⟨st1, h1, e1⟩ := walk_flow cfg n b ctx st hn hpe hst hi
    obtain ⟨st2, h2, e2⟩ := walkList_flow cfg ns b ctx st1 hns hpe hst (e1.inv hi)
    exact ⟨st2, by simp [walkList, h1, h2], e1.trans e2⟩
termination_by sizeOf l
end

/-! ### the part of the document before the body (meta data, styles) -/

/-- nothing is written and the note machinery is untouched (pending data, title, meta tags, list types may change) -/
structure QuietEff (st st' : St) : Prop where
  out : st'.out = st.out
  depth : st'.depth = st.depth
  saved : st'.saved = st.saved
  nbOpen : st'.nbOpen = st.nbOpen
  notes : st'.notes = st.notes
  cur : st'.cur = st.cur

theorem QuietEff.refl (st : St) : QuietEff st st := ⟨rfl, rfl, rfl, rfl, rfl, rfl⟩

theorem QuietEff.trans {a b c : St} (h1 : QuietEff a b) (h2 : QuietEff b c) : QuietEff a c :=
  ⟨h2.out.trans h1.out, h2.depth.trans h1.depth, h2.saved.trans h1.saved, h2.nbOpen.trans h1.nbOpen,
   h2.notes.trans h1.notes, h2.cur.trans h1.cur⟩

/-- handlers that write nothing, with what the two list-level handlers need from the attributes and the enclosing elements -/
def quietOK (h : HName) (a : Attrs) (stack : List (Str × Attrs)) : Prop :=
  match h with
  | .s_processcont | .s_ignorexml | .s_ignorecont | .e_dc_title | .e_dc_metatag | .e_dc_contentlanguage | .e_dc_creator
  | .s_office_automatic_styles | .s_office_master_styles | .s_office_styles
  | .s_style_default_style | .e_style_default_style | .s_style_font_face | .s_style_handle_properties
  | .s_style_page_layout | .e_style_page_layout | .s_style_style | .e_style_style
  | .e_text_list_level_style_bullet | .e_text_list_level_style_number | .s_style_master_page => True
  | .s_text_list_level_style_bullet =>
    ∃ lv name n, a.lookup kLevel = some lv ∧ rfindattr stack kStyleNameAttr = some name ∧ pyInt lv = some n
  | .s_text_list_level_style_number =>
    ∃ p rest name lv, stack = p :: rest ∧ p.2.lookup kStyleNameAttr = some name ∧ a.lookup kLevel = some lv
  | _ => False

theorem quiet_spec (cfg : Cfg) (ctx : Ctx) (h : HName) (q : Str) (a : Attrs) (pe pc : Bool) (st : St)
    (hq : quietOK h a ctx.stack) : ∃ st1 pe1 pc1, runH cfg ctx h q a pe pc st = .ok (st1, pe1, pc1) ∧ QuietEff st st1 := by
  cases h
  case s_text_list_level_style_bullet =>
    obtain ⟨lv, name, n, h1, h2, h3⟩ := hq
    exact ⟨{ st with listtypes := (name ++ [95] ++ lv, nUl) :: st.listtypes }, pe, pc, by simp [runH, h1, h2, h3],
      ⟨rfl, rfl, rfl, rfl, rfl, rfl⟩⟩
  case s_text_list_level_style_number =>
    obtain ⟨p, rest, name, lv, h1, h2, h3⟩ := hq
    exact ⟨{ st with listtypes := (name ++ [95] ++ lv, nOl) :: st.listtypes }, pe, pc, by simp [runH, h1, h2, h3],
      ⟨rfl, rfl, rfl, rfl, rfl, rfl⟩⟩
  all_goals first
    | exact ⟨_, _, _, rfl, ⟨rfl, rfl, rfl, rfl, rfl, rfl⟩⟩
    | exact absurd hq (by simp [quietOK])

mutual
/-- `Head stack n`: node `n`, met below the elements `stack`, only runs handlers that write nothing -/
inductive Head : List (Str × Attrs) → Node → Prop
  | text (stack s) : Head stack (.text s)
  | elem (stack q a kids) : (∀ h, (dispatch q).1 = some h → quietOK h a stack) →
      (∀ h, (dispatch q).2 = some h → quietOK h a stack) → HeadL ((q, a) :: stack) kids → Head stack (.elem q a kids)
inductive HeadL : List (Str × Attrs) → List Node → Prop
  | nil (stack) : HeadL stack []
  | cons (stack n ns) : Head stack n → HeadL stack ns → HeadL stack (n :: ns)
end

theorem QuietEff.of_data (st : St) (d : Str) : QuietEff st { st with data := d } := ⟨rfl, rfl, rfl, rfl, rfl, rfl⟩

mutual
theorem walk_head (cfg : Cfg) (n : Node) (ctx : Ctx) (st : St) (hh : Head ctx.stack n) :
    ∃ st', walk cfg ctx st n = .ok st' ∧ QuietEff st st' := by
  by_cases hpe : ctx.pe = true
  · cases n with
    | text s =>
      refine ⟨_, walk_text cfg ctx st s, ?_⟩
      split
      · exact QuietEff.of_data st _
      · exact QuietEff.refl st
    | elem q a kids =>
      cases hh with
      | elem _ _ _ _ hs he hk =>
        rw [walk_elem _ _ _ _ _ _ hpe]
        -- start handler
        have h1 : ∃ st1 pe1 pc1, startEl cfg ctx q a st = .ok (st1, pe1, pc1) ∧ QuietEff st st1 := by
          unfold startEl
          cases hd : (dispatch q).1 with
          | none => exact ⟨st, _, _, rfl, QuietEff.refl st⟩
          | some h => exact quiet_spec cfg ctx h q a ctx.pe ctx.pc st (hs h hd)
        obtain ⟨st1, pe1, pc1, hr1, q1⟩ := h1
        obtain ⟨st2, h2, q2⟩ := walkList_head cfg kids ⟨(q, a) :: ctx.stack, pe1, pc1⟩ st1 hk
        simp only [hr1, h2]
        by_cases hp1 : pe1 = true
        · simp only [hp1, if_true]
          unfold endEl
          cases hd : (dispatch q).2 with
          | none => exact ⟨st2, rfl, q1.trans q2⟩
          | some h =>
            obtain ⟨st3, pe3, pc3, hr3, q3⟩ := quiet_spec cfg ctx h q a true pc1 st2 (he h hd)
            exact ⟨st3, by simp [hr3, Except.map], (q1.trans q2).trans q3⟩
        · simp only [hp1]
          exact ⟨st2, rfl, q1.trans q2⟩
  · have hpe' : ctx.pe = false := by cases h : ctx.pe <;> simp_all
    cases n with
    | text s => exact ⟨st, by simp [walk, hpe'], QuietEff.refl st⟩
    | elem q a kids => exact ⟨st, by simp [walk, hpe'], QuietEff.refl st⟩
termination_by sizeOf n

theorem walkList_head (cfg : Cfg) (l : List Node) (ctx : Ctx) (st : St) (hh : HeadL ctx.stack l) :
    ∃ st', walkList cfg ctx st l = .ok st' ∧ QuietEff st st' := by
  cases l with
  | nil => exact ⟨st, by simp [walkList], QuietEff.refl st⟩
  | cons n ns =>
    cases hh with
    | cons _ _ _ hn hns =>
      obtain ⟨st1, h1, q1⟩ := walk_head cfg n ctx st hn
      obtain ⟨st2, h2, q2⟩ := walkList_head cfg ns ctx st1 hns
      exact ⟨st2, by simp [walkList, h1, h2], q1.trans q2⟩
termination_by sizeOf l
end

theorem walkList_append (cfg : Cfg) (ctx : Ctx) (st : St) (l1 l2 : List Node) :
    walkList cfg ctx st (l1 ++ l2) =
      match walkList cfg ctx st l1 with
      | .error e => .error e
      | .ok st1 => walkList cfg ctx st1 l2 := by
  induction l1 generalizing st with
  | nil => simp [walkList]
  | cons n ns ih =>
    simp only [List.cons_append, walkList]
    cases walk cfg ctx st n with
    | error e => rfl
    | ok st1 => exact ih st1

/-! ### the document skeleton: html_body, generate_footnotes -/

theorem htmlBody_spec (cfg : Cfg) (st : St) (hd : 0 < st.depth) :
    ∃ st', htmlBody cfg st = .ok st' ∧ st'.depth = st.depth ∧ Same st st' ∧
      ∀ s S, bal st.out s = some (nHead :: S) → bal st'.out s = some (nBody :: S) := by
  unfold htmlBody
  by_cases hc : cfg.css = true
  · simp only [hc, if_true, bind, Except.bind, pure, Except.pure]
    rw [closetag_ok _ _ _ (by simp)]
    simp only []
    rw [closetag_ok _ _ _ (by simp; omega)]
    refine ⟨_, rfl, by simp; omega, by same_tac, ?_⟩
    intro s S h
    simp [bal_append, h, bal, br]
  · have hc' : cfg.css = false := by cases h : cfg.css <;> simp_all
    simp only [hc', bind, Except.bind, pure, Except.pure]
    rw [if_neg (by simp)]
    simp only []
    rw [closetag_ok _ _ _ (by simpa using hd)]
    refine ⟨_, rfl, by simp; omega, by same_tac, ?_⟩
    intro s S h
    simp [bal_append, h, bal, br]

theorem footnoteItems_spec (ns : List (Option (List Tok))) (k : Nat) (st : St) (hn : NotesOK ns) :
    ∃ st', footnoteItems ns k st = .ok st' ∧ st'.depth = st.depth ∧ Same st st' ∧
      ∀ s S, bal st.out s = some S → bal st'.out s = some S := by
  induction ns generalizing k st with
  | nil => exact ⟨st, rfl, rfl, Same.refl st, fun _ _ h => h⟩
  | cons n ns ih =>
    obtain ⟨body, hb, hbal⟩ := hn n (by simp)
    subst hb
    simp only [footnoteItems]
    rw [closetag_ok _ _ _ (by simp)]
    obtain ⟨st', h', hd', hs', hb'⟩ := ih (k + 1) (closePure nLi true (emitAll body (opentag nLi [(aId, sFootnote ++ natToStr k)] false st)))
      (fun x hx => hn x (by simp [hx]))
    refine ⟨st', h', by rw [hd']; simp, ?_, ?_⟩
    · exact Same.trans (by same_tac) hs'
    · intro s S h
      apply hb'
      simp [bal_append, h, bal, br, hbal (nLi :: S)]

theorem generateFootnotes_spec (cfg : Cfg) (st : St) (hn : NotesOK st.notes) :
    ∃ st', generateFootnotes cfg st = .ok st' ∧ st'.depth = st.depth ∧ Same st st' ∧
      ∀ s S, bal st.out s = some S → bal st'.out s = some S := by
  unfold generateFootnotes
  by_cases hc : st.cur = 0
  · simp only [hc, if_true]
    exact ⟨st, rfl, rfl, Same.refl st, fun _ _ h => h⟩
  · simp only [hc, if_false, bind, Except.bind]
    by_cases hcss : cfg.css = true
    · simp only [hcss, if_true]
      obtain ⟨st1, h1, hd1, hs1, hb1⟩ := footnoteItems_spec st.notes 1 (opentag nOl [(aStyle, sOlStyle)] true st) hn
      simp only [opentag_notes] at h1 ⊢
      simp only [h1]
      rw [closetag_ok _ _ _ (by rw [hd1]; simp)]
      refine ⟨_, rfl, by simp [hd1], ?_, ?_⟩
      · have := Same.trans (a := st) (by same_tac) hs1
        exact Same.trans this (by same_tac)
      · intro s S h
        have := hb1 s (nOl :: S) (by simp [bal_append, h, bal, br])
        simp [bal_append, this, bal, br]
    · have hcss' : cfg.css = false := by cases h : cfg.css <;> simp_all
      simp only [hcss']
      rw [if_neg (by simp)]
      obtain ⟨st1, h1, hd1, hs1, hb1⟩ := footnoteItems_spec st.notes 1 (opentag nOl [] false st) hn
      simp only [opentag_notes] at h1 ⊢
      simp only [h1]
      rw [closetag_ok _ _ _ (by rw [hd1]; simp)]
      refine ⟨_, rfl, by simp [hd1], ?_, ?_⟩
      · have := Same.trans (a := st) (by same_tac) hs1
        exact Same.trans this (by same_tac)
      · intro s S h
        have := hb1 s (nOl :: S) (by simp [bal_append, h, bal, br])
        simp [bal_append, this, bal, br]

end OdfModel.Xhtml

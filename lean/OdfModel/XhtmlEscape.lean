/-
  OdfModel.XhtmlEscape — what xml.sax.saxutils.escape / quoteattr (as used by odf2xhtml.py) guarantee (property C18):
  per-character views, "no raw `<`", and the round trips through the reference decoders of `Spec.XmlParse`.
-/
import OdfModel.Xhtml
import OdfModel.Xml.AttrLemmas
import OdfModel.Xml.ContentLemmas
namespace OdfModel.Xhtml
open OdfModel OdfModel.Xml OdfModel.Spec

/-- what `escape` does to one character -/
def escC (c : Cp) : Str := if c = 38 then AMP else if c = 62 then GT else if c = 60 then LT else [c]

/-- what `quoteattr` does to one character before the quotes are chosen -/
def escAC (c : Cp) : Str :=
  if c = 38 then AMP else if c = 62 then GT else if c = 60 then LT
  else if c = 10 then R10 else if c = 13 then R13 else if c = 9 then R9 else [c]

theorem escC_eq (x : Cp) : replace1 60 LT (replace1 62 GT (replace1 38 AMP [x])) = escC x := by
  simp only [escC, replace1, AMP, Xml.LT, GT]
  by_cases h1 : x = 38 <;> by_cases h2 : x = 60 <;> by_cases h3 : x = 62 <;> simp_all

theorem sxEscape_eq (s : Str) : sxEscape s = s.flatMap escC := by
  have h : s = s.flatMap (fun x => [x]) := by simp
  unfold sxEscape
  conv => lhs; rw [h]
  simp only [replace1_flatMap]
  congr 1; funext x; exact escC_eq x

theorem escAC_eq (x : Cp) :
    replace1 9 R9 (replace1 13 R13 (replace1 10 R10 (replace1 60 LT (replace1 62 GT (replace1 38 AMP [x]))))) = escAC x := by
  simp only [escAC, replace1, AMP, Xml.LT, GT, R13, R10, R9]
  by_cases h1 : x = 38 <;> by_cases h2 : x = 60 <;> by_cases h3 : x = 62 <;> by_cases h4 : x = 13 <;>
    by_cases h5 : x = 10 <;> by_cases h6 : x = 9 <;> simp_all

theorem attrBody_eq (s : Str) : replace1 9 R9 (replace1 13 R13 (replace1 10 R10 (sxEscape s))) = s.flatMap escAC := by
  have h : s = s.flatMap (fun x => [x]) := by simp
  unfold sxEscape
  conv => lhs; rw [h]
  simp only [replace1_flatMap]
  congr 1; funext x; exact escAC_eq x

/-- an escaped text contains no `<` and no `>` -/
theorem sxEscape_no_markup (s : Str) : 60 ∉ sxEscape s ∧ 62 ∉ sxEscape s := by
  rw [sxEscape_eq]
  constructor <;>
  · intro h
    simp only [List.mem_flatMap] at h
    obtain ⟨c, _, hc⟩ := h
    unfold escC at hc
    simp only [AMP, Xml.LT, GT] at hc
    repeat' split at hc
    all_goals simp at hc
    all_goals simp_all

/-- reference decoder for character data without markup: the five predefined entities and the three numeric references
    of `Spec.parseRef`; a raw `<`, or a `&` that starts nothing known, is refused -/
def decText : Nat → Str → Option Str
  | 0, _ => none
  | _+1, [] => some []
  | fuel+1, c :: r =>
    if c = 38 then
      match parseRef r with
      | none => none
      | some (d, r1) => (decText fuel r1).map (d :: ·)
    else if c = 60 then none
    else (decText fuel r).map (c :: ·)

theorem decText_escC (fuel : Nat) (c : Cp) (Y : Str) :
    decText (fuel + 1) (escC c ++ Y) = (decText fuel Y).map (c :: ·) := by
  unfold escC
  split
  · rename_i h; subst h; simp [AMP, decText, parseRef_amp]
  split
  · rename_i h; subst h; simp [GT, decText, parseRef_gt]
  split
  · rename_i h; subst h; simp [Xml.LT, decText, parseRef_lt]
  · rename_i h1 h2 h3; simp [decText, h1, h3]

/-- **text round trip**: decoding the escaped text gives the text back (so every `&` in it starts one of `&amp;` `&lt;` `&gt;`) -/
theorem decText_sxEscape (s : Str) : decText (s.length + 1) (sxEscape s) = some s := by
  rw [sxEscape_eq]
  induction s with
  | nil => simp [decText]
  | cons c r ih =>
    simp only [List.flatMap_cons, List.length_cons]
    rw [decText_escC, ih]; rfl

theorem escAC_eq_escAttrC (c : Cp) (h : filtered c = false) : escAC c = escAttrC c := by
  unfold escAC escAttrC hu
  simp only [h]
  by_cases h1 : c = 38 <;> by_cases h2 : c = 60 <;> by_cases h3 : c = 62 <;> simp_all

/-- on strings without characters that odfpy would filter, saxutils' quoteattr and odfpy's `_quoteattr` coincide -/
theorem sxQuoteattr_eq_quoteattr (s : Str) (h : ∀ c ∈ s, filtered c = false) : sxQuoteattr s = quoteattr s := by
  have hb : s.flatMap escAC = s.flatMap escAttrC := by
    induction s with
    | nil => rfl
    | cons c r ih =>
      simp only [List.flatMap_cons]
      rw [ih (fun c' hc' => h c' (by simp [hc'])), escAC_eq_escAttrC c (h c (by simp))]
  unfold sxQuoteattr quoteattr
  simp only [attrBody_eq, sanitize_attr, hb]

theorem map_hu_id (s : Str) (h : ∀ c ∈ s, filtered c = false) : s.map hu = s := by
  induction s with
  | nil => rfl
  | cons c r ih =>
    simp only [List.map_cons]
    rw [ih (fun c' hc' => h c' (by simp [hc']))]
    simp [hu, h c (by simp)]

/-- **attribute round trip**: whichever quote `quoteattr` picks, the reference attribute-value parser reads the value back
    and stops exactly behind the closing quote — a quote, `<` or `&` in the value cannot end or break the attribute.
    (For strings of XML characters that odfpy's filter lets through; a loaded document has no others.) -/
theorem attr_roundtrip (v X : Str) (hv : StrOK v) (hf : ∀ c ∈ v, filtered c = false) :
    ∃ q r1, sxQuoteattr v ++ X = q :: r1 ∧ (q = 34 ∨ q = 39) ∧ parseAttVal (r1.length + 1) q r1 = some (v, X) := by
  rw [sxQuoteattr_eq_quoteattr v hf]
  obtain ⟨q, r1, h1, h2, h3⟩ := parseAttVal_quoteattr v X hv
  exact ⟨q, r1, h1, h2, by rw [h3, map_hu_id v hf]⟩

/-! ### no `<` can come out of a document string -/

theorem no_lt_flatMap_escAC (s : Str) : 60 ∉ s.flatMap escAC := by
  intro h
  simp only [List.mem_flatMap] at h
  obtain ⟨c, _, hc⟩ := h
  unfold escAC at hc
  simp only [AMP, Xml.LT, GT, R10, R13, R9] at hc
  repeat' split at hc
  all_goals simp at hc
  all_goals simp_all

theorem no_lt_replace1_quot (d : Str) (h : 60 ∉ d) : 60 ∉ replace1 34 QUOT d := by
  intro hm
  simp only [replace1, List.mem_flatMap] at hm
  obtain ⟨c, hc, hm⟩ := hm
  split at hm
  · simp [QUOT] at hm
  · simp at hm; subst hm; exact h hc

/-- a quoted attribute value contains no `<` -/
theorem sxQuoteattr_no_lt (v : Str) : 60 ∉ sxQuoteattr v := by
  unfold sxQuoteattr
  simp only [attrBody_eq]
  have h := no_lt_flatMap_escAC v
  split
  · split
    · simp [no_lt_replace1_quot _ h]
    · simp [h]
  · simp [h]

/-- the same token with every document-derived string (text, attribute values) emptied; tags, attribute names and the
    converter's own constants stay -/
def shape : Tok → Tok
  | .otag t a b => .otag t (a.map (fun kv => (kv.1, []))) b
  | .ctag t b => .ctag t b
  | .etag t a => .etag t (a.map (fun kv => (kv.1, [])))
  | .text _ => .text []
  | .raw r => .raw r

theorem count_lt_of_not_mem {s : Str} (h : 60 ∉ s) : s.count 60 = 0 := List.count_eq_zero.mpr h

theorem count_lt_renderAttrs (a : Attrs) : (renderAttrs a).count 60 = (renderAttrs (a.map (fun kv => (kv.1, [])))).count 60 := by
  unfold renderAttrs
  induction a with
  | nil => rfl
  | cons kv r ih =>
    cases r with
    | nil =>
      simp [List.intercalate, renderAttr, List.count_append, count_lt_of_not_mem (sxQuoteattr_no_lt kv.2),
        count_lt_of_not_mem (sxQuoteattr_no_lt [])]
    | cons kv2 r2 =>
      simp only [List.map_cons, List.intercalate_cons_cons, List.count_append] at ih ⊢
      rw [ih]
      simp [renderAttr, List.count_append, count_lt_of_not_mem (sxQuoteattr_no_lt kv.2),
        count_lt_of_not_mem (sxQuoteattr_no_lt [])]

theorem count_lt_renderTok (t : Tok) : (renderTok t).count 60 = (renderTok (shape t)).count 60 := by
  cases t with
  | otag t a b =>
    simp only [shape, renderTok, List.count_append, List.isEmpty_map]
    cases a with
    | nil => rfl
    | cons kv r => simp [List.count_append, count_lt_renderAttrs (kv :: r)]
  | ctag t b => rfl
  | etag t a => simp only [shape, renderTok, List.count_append, count_lt_renderAttrs a]
  | text s =>
    simp only [shape, renderTok]
    rw [count_lt_of_not_mem (sxEscape_no_markup s).1, count_lt_of_not_mem (sxEscape_no_markup []).1]
  | raw r => rfl

/-- **no document string can add a `<`**: the rendered output has exactly as many `<` as the same token sequence with all
    text and all attribute values emptied — every `<` comes from a tag or a constant of the converter (or from the opaque
    style sheet text) -/
theorem count_lt_render (ts : List Tok) : (render ts).count 60 = (render (ts.map shape)).count 60 := by
  unfold render
  induction ts with
  | nil => rfl
  | cons t r ih => simp only [List.flatMap_cons, List.map_cons, List.count_append, ih, count_lt_renderTok t]

/-! ### the style sheet writer (generate_stylesheet after 22e9516) -/

/-- `s.replace(']]>', ']]]]><![CDATA[>')`: what generate_stylesheet applies to every selector line and every property line
    before it writes it into the `/*<![CDATA[*/ … /*]]>*/` section -/
def cdataSafe (s : Str) : Str := replCdataEnd s

theorem replCdataEnd_append_lf (a b : Str) : replCdataEnd (a ++ 10 :: b) = replCdataEnd a ++ 10 :: replCdataEnd b := by
  induction a using replCdataEnd.induct with
  | case1 r ih =>
    show replCdataEnd (93 :: 93 :: 62 :: (r ++ 10 :: b)) = _
    rw [replCdataEnd, replCdataEnd, ih]; simp
  | case2 c r hnp ih =>
    have h1 : ∀ r', c :: r ≠ 93 :: 93 :: 62 :: r' := by intro r' h; cases h; exact hnp r' rfl rfl
    have h2 : ∀ r', c :: (r ++ 10 :: b) ≠ 93 :: 93 :: 62 :: r' := by
      intro r' h
      cases r with
      | nil => simp at h
      | cons x r1 =>
        cases r1 with
        | nil => simp at h
        | cons y r2 =>
          simp only [List.cons_append, List.cons.injEq] at h
          obtain ⟨rfl, rfl, rfl, _⟩ := h
          exact h1 r2 rfl
    rw [List.cons_append, replCdataEnd_cons c _ h2, replCdataEnd_cons c r h1, ih]; rfl
  | case3 => rfl

/-- writing the lines one by one is the same as making the whole text safe: a `]]>` cannot straddle a line end -/
theorem cdataSafe_lines (ls : List Str) (t : Str) :
    ls.flatMap (fun l => cdataSafe (l ++ [10])) ++ cdataSafe t = cdataSafe (ls.flatMap (· ++ [10]) ++ t) := by
  unfold cdataSafe
  induction ls with
  | nil => rfl
  | cons l r ih =>
    simp only [List.flatMap_cons, List.append_assoc]
    rw [ih]
    have := replCdataEnd_append_lf l ([] ++ (r.flatMap (· ++ [10]) ++ t))
    simp only [List.nil_append] at this
    rw [List.cons_append, List.nil_append, this]
    have h0 := replCdataEnd_append_lf l []
    simp only [replCdataEnd] at h0
    rw [h0]; simp

theorem not_mem_replCdataEnd_13 (t : Str) (h : 13 ∉ t) : 13 ∉ replCdataEnd t := by
  induction t using replCdataEnd.induct with
  | case1 r ih =>
    rw [replCdataEnd]
    have : 13 ∉ r := fun hm => h (by simp [hm])
    simp [CDC, CDO, ih this]
  | case2 c r hnp ih =>
    have h1 : ∀ r', c :: r ≠ 93 :: 93 :: 62 :: r' := by intro r' hh; cases hh; exact hnp r' rfl rfl
    rw [replCdataEnd_cons c r h1]
    intro hm
    rcases List.mem_cons.mp hm with hm | hm
    · exact h (by simp [← hm])
    · exact ih (fun hh => h (by simp [hh])) hm
  | case3 => simp [replCdataEnd]

theorem replace1_of_not_mem (c : Cp) (rep s : Str) (h : c ∉ s) : replace1 c rep s = s := by
  induction s with
  | nil => rfl
  | cons x r ih =>
    have hx : x ≠ c := fun e => h (by simp [e])
    simp only [replace1, List.flatMap_cons, hx, if_false]
    have := ih (fun hm => h (by simp [hm]))
    simp only [replace1] at this
    rw [this]; rfl

/-- **the style sheet section is read back as written** (the former obligation `cssOK`, now a theorem about the writer):
    if generate_stylesheet writes the lines `ls` (each through `cdataSafe`, each ending in LF) and then the converter's
    own `/*]]>`, the reference XML parser — started inside the CDATA section — reads exactly the text of the lines followed
    by `/*`, and leaves the section at the converter's `]]>`, whatever `]]>`, `]]]>`, `]]>]]>` … the style names and values
    contain.  (Lines of XML characters without CR — the reference parser's sub-language has no literal CR.) -/
theorem css_section_read_back (ls : List Str) (acc Y : Str) (fuel : Nat)
    (hx : ∀ l ∈ ls, ∀ c ∈ l, isXmlChar c = true ∧ c ≠ 13)
    (hf : (ls.flatMap (fun l => cdataSafe (l ++ [10])) ++ [47, 42] ++ CDC ++ Y).length + 1 ≤ fuel) :
    ∃ fuel', Y.length + 1 ≤ fuel' ∧
      parseForest fuel true acc (ls.flatMap (fun l => cdataSafe (l ++ [10])) ++ [47, 42] ++ CDC ++ Y) =
        parseForest fuel' false (acc ++ (ls.flatMap (· ++ [10]) ++ [47, 42])) Y := by
  have hsafe : cdataSafe [47, 42] = [47, 42] := by simp [cdataSafe, replCdataEnd]
  have hcat := cdataSafe_lines ls [47, 42]
  rw [hsafe] at hcat
  have hmem : ∀ c ∈ ls.flatMap (· ++ [10]) ++ [47, 42], isXmlChar c = true ∧ c ≠ 13 := by
    intro c hc
    rcases List.mem_append.mp hc with hc | hc
    · obtain ⟨l, hl, hcl⟩ := List.mem_flatMap.mp hc
      rcases List.mem_append.mp hcl with hcl | hcl
      · exact hx l hl c hcl
      · simp at hcl; subst hcl; decide
    · simp at hc; rcases hc with rfl | rfl <;> decide
  have h13 : 13 ∉ ls.flatMap (· ++ [10]) ++ [47, 42] := fun hm => (hmem 13 hm).2 rfl
  have hbody : bodyC (ls.flatMap (· ++ [10]) ++ [47, 42]) = ls.flatMap (fun l => cdataSafe (l ++ [10])) ++ [47, 42] := by
    unfold bodyC
    rw [replace1_of_not_mem _ _ _ (not_mem_replCdataEnd_13 _ h13)]
    exact hcat.symm
  have hfl : (bodyC (ls.flatMap (· ++ [10]) ++ [47, 42]) ++ 93 :: 93 :: 62 :: Y).length + 1 ≤ fuel := by
    rw [hbody]; simpa [CDC, List.append_assoc] using hf
  obtain ⟨f', hf', hp⟩ := pf_bodyC Y (ls.flatMap (· ++ [10]) ++ [47, 42]) acc fuel (fun c hc => (hmem c hc).1) hfl
  refine ⟨f', hf', ?_⟩
  rw [hbody] at hp
  simpa [CDC, List.append_assoc] using hp

end OdfModel.Xhtml

/-
  OdfModel.EntityDamage — DAMAGED PARTS as a dimension of the C13 model (extension of OdfModel.Entity; nothing there
  is changed): a package may hold, next to the member that declares entities, members that are not well-formed XML
  (empty, truncated, broken markup).

  Modelled Python:

  * `odf/opendocument.py: __loadxmlparts`
        for xmlfile in (objectpath+'settings.xml', objectpath+'meta.xml', objectpath+'content.xml', objectpath+'styles.xml'):
            if xmlfile not in manifest: continue
            try: … parser.parse(inpsrc) …
            except KeyError as v: pass                       -- `skipsMissing` (OdfModel.Entity)
            except SAXParseException: print(...)             -- `printsAndGoesOn`: ONE part is given up, the loop goes on
    the try block is INSIDE the loop: a damaged or missing part ends the reading of that part only.
  * `odf/odfmanifest.py: manifestlist`, `odf/odf2moinmoin.py: _parse`: nothing catches the parse error; it propagates.

  Hand-written from the source, tied to the code by the two-defect matrix of harness/c13.py (`readdmg` of drv_entity).
-/
import OdfModel.Entity
namespace OdfModel.Entity

inductive ErrD where
  /-- `SAXParseException` / `ExpatError` leaving the entry point -/
  | notWellFormed
  /-- a failure of `OdfModel.Entity.read` -/
  | refused (e : Err)
deriving DecidableEq, Repr

structure PkgD where
  pkg : Pkg
  /-- paths of the members whose text is not well-formed XML -/
  damaged : List Str

/-- the parse error of this member is caught, printed, and the walk goes on with the next member -/
def printsAndGoesOn (ep : EP) (m : Member) : Bool := ep.shape == .loadLike && m.part != .manifest

/-- `readList` with members that may be not well-formed -/
def readListD (B : ParserBehaviour) (P : Prep) (ep : EP) (p : PkgD) : List Member → Except ErrD (List Outcome)
  | [] => .ok []
  | m :: ms =>
    match p.pkg.lookup m.path with
    | none => if skipsMissing ep m then readListD B P ep p ms else .error (.refused .missing)
    | some x =>
      if p.damaged.contains m.path then
        (if printsAndGoesOn ep m then readListD B P ep p ms else .error .notWellFormed)
      else
        match readMember B P ep m x with
        | .error e => .error (.refused e)
        | .ok o => match readListD B P ep p ms with
          | .error e => .error e
          | .ok os => .ok (o :: os)

def readD (B : ParserBehaviour) (P : Prep) (ep : EP) (p : PkgD) : Except ErrD (List Outcome) :=
  readListD B P ep p (readOrder ep p.pkg)

end OdfModel.Entity

/-
  Invariant of the namespace table under every history of `get_nsprefix` calls.
-/
import OdfModel.Ns
import OdfModel.Xml.NsLemmas
namespace OdfModel.Ns
open OdfModel OdfModel.Xml OdfModel.Spec

/-! ### `str(int)` is injective -/

def undec (s : Str) : Nat := s.foldl (fun a c => a * 10 + (c - 48)) 0

theorem undec_append (a : Str) (c : Nat) : undec (a ++ [c]) = undec a * 10 + (c - 48) := by
  simp [undec, List.foldl_append]

theorem undec_digits (f n : Nat) (h : n < f) : undec (digits f n) = n := by
  induction f generalizing n with
  | zero => omega
  | succ f ih =>
    unfold digits
    by_cases h10 : n < 10
    · simp [h10, undec]
    · simp only [h10, if_false]
      have hlt : n / 10 < f := by omega
      rw [undec_append, ih (n / 10) hlt]
      omega

theorem dec_inj {a b : Nat} (h : dec a = dec b) : a = b := by
  have ha := undec_digits (a + 1) a (by omega)
  have hb := undec_digits (b + 1) b (by omega)
  unfold dec at h
  rw [h] at ha
  omega

theorem digits_all_digit (f n : Nat) : ∀ c : Nat, c ∈ digits f n → 48 ≤ c ∧ c ≤ 57 := by
  induction f generalizing n with
  | zero => intro c hc; cases hc
  | succ f ih =>
    unfold digits
    by_cases h10 : n < 10
    · simp only [h10, if_true]
      intro c hc; simp at hc; omega
    · simp only [h10, if_false]
      intro c hc
      rcases List.mem_append.mp hc with h | h
      · exact ih _ c h
      · simp at h; omega

theorem dec_ne_nil (n : Nat) : dec n ≠ [] := by
  unfold dec digits
  by_cases h10 : n < 10 <;> simp [h10]

/-- a generated prefix: `ns` followed by at least one digit, digits only -/
def isGen (p : Str) : Bool :=
  match p with
  | 110 :: 115 :: c :: r => (48 ≤ c && c ≤ 57) && r.all (fun x => 48 ≤ x && x ≤ 57)
  | _ => false

theorem isGen_gen (k : Nat) : isGen (NS_PFX ++ dec k) = true := by
  have hne := dec_ne_nil k
  have hall := digits_all_digit (k + 1) k
  unfold dec at hne
  simp only [NS_PFX, dec, List.cons_append, List.nil_append]
  cases hd : digits (k + 1) k with
  | nil => exact absurd hd hne
  | cons c r =>
    rw [hd] at hall
    simp only [isGen, Bool.and_eq_true, decide_eq_true_eq, List.all_eq_true]
    exact ⟨hall c (by simp), fun x hx => hall x (by simp [hx])⟩

theorem isNCName_gen (k : Nat) : isNCName (NS_PFX ++ dec k) = true := by
  have hall := digits_all_digit (k + 1) k
  have hchars : ∀ c : Nat, c ∈ digits (k + 1) k → isNameChar c = true ∧ c ≠ 58 := by
    intro c hc
    have := hall c hc
    constructor
    · simp [isNameChar, isNameStart]; grind
    · omega
  simp only [isNCName, NS_PFX, dec, List.cons_append, List.nil_append, NameOK, Bool.and_eq_true, List.all_eq_true,
    Bool.not_eq_true', List.contains_eq_mem, decide_eq_false_iff_not]
  refine ⟨⟨by decide, ?_⟩, ?_⟩
  · intro c hc
    simp only [List.mem_cons] at hc
    rcases hc with rfl | hc
    · decide
    · exact (hchars c hc).1
  · intro h
    simp only [List.mem_cons] at h
    rcases h with h | h | h
    · cases h
    · cases h
    · exact (hchars 58 h).2 rfl

theorem gen_ne_xmlns (k : Nat) : NS_PFX ++ dec k ≠ XMLNS_NAME := by
  intro h
  simp only [NS_PFX, dec, XMLNS_NAME, List.cons_append, List.nil_append, List.cons.injEq] at h
  exact absurd h.1 (by decide)

/-! ### the invariant -/

/-- the initial table is sound (re-checked against the regenerated `nsdict0` on every build) -/
def Init0OK : Prop :=
  (OdfModel.Generated.nsdict0.map (·.1)).Nodup ∧ (OdfModel.Generated.nsdict0.map (·.2)).Nodup ∧
  ∀ e ∈ OdfModel.Generated.nsdict0, isGen e.2 = false ∧ isNCName e.2 = true ∧ e.2 ≠ XMLNS_NAME ∧ e.1 ≠ []

structure Inv (st : NsState) : Prop where
  keys : (st.nsdict.map (·.1)).Nodup
  prefs : (st.nsdict.map (·.2)).Nodup
  shape : ∀ e ∈ st.nsdict, (isGen e.2 = false ∨ ∃ k, k < st.nsdict.length ∧ e.2 = NS_PFX ++ dec k) ∧
            isNCName e.2 = true ∧ e.2 ≠ XMLNS_NAME ∧ e.1 ≠ []
  sub : ∀ e ∈ st.seen, e ∈ st.nsdict
  seenKeys : (st.seen.map (·.1)).Nodup

theorem lookupNs_none {tbl : NsTable} {ns : Str} (h : lookupNs tbl ns = none) : ns ∉ tbl.map (·.1) := by
  induction tbl with
  | nil => simp
  | cons e r ih =>
    obtain ⟨n, p⟩ := e
    simp only [lookupNs] at h
    split at h
    · cases h
    · rename_i hne
      simp only [List.map_cons, List.mem_cons, not_or]
      exact ⟨fun h' => hne h'.symm, ih h⟩

theorem lookupNs_isSome_of_mem {tbl : NsTable} {ns : Str} (h : ns ∈ tbl.map (·.1)) : (lookupNs tbl ns).isSome = true := by
  cases hl : lookupNs tbl ns with
  | some p => rfl
  | none => exact absurd h (lookupNs_none hl)

theorem nodup_append_singleton {α} {l : List α} {a : α} (hl : l.Nodup) (ha : a ∉ l) : (l ++ [a]).Nodup := by
  rw [List.nodup_append]
  exact ⟨hl, by simp, by intro x hx y hy; simp at hy; subst hy; intro h; subst h; exact ha hx⟩

theorem inv_initial (h0 : Init0OK) : Inv initial := by
  refine ⟨h0.1, h0.2.1, ?_, by intro e he; simp [initial] at he, by simp [initial]⟩
  intro e he
  have := h0.2.2 e he
  exact ⟨Or.inl this.1, this.2.1, this.2.2.1, this.2.2.2⟩

/-- one `get_nsprefix` call preserves the invariant -/
theorem inv_step (st : NsState) (ns : Str) (h : Inv st) : Inv (getNsPrefix st ns).1 := by
  unfold getNsPrefix
  by_cases hns : ns.isEmpty = true
  · simp [hns]; exact h
  · simp only [hns, Bool.false_eq_true, if_false]
    have hne : ns ≠ [] := by intro h'; subst h'; simp at hns
    unfold nsAssign
    cases hl : lookupNs st.nsdict ns with
    | some p =>
      -- already known: the dictionary is unchanged
      have hmem := lookupNs_mem hl
      refine ⟨h.keys, h.prefs, h.shape, ?_, ?_⟩
      · intro e he
        simp only at he
        split at he
        · exact h.sub e he
        · rcases List.mem_append.mp he with h1 | h1
          · exact h.sub e h1
          · simp at h1; subst h1; exact hmem
      · simp only
        split
        · exact h.seenKeys
        · rename_i hs
          rw [List.map_append]
          apply nodup_append_singleton h.seenKeys
          intro hm
          exact hs (lookupNs_isSome_of_mem hm)
    | none =>
      have hfresh := lookupNs_none hl
      have hgenfresh : NS_PFX ++ dec st.nsdict.length ∉ st.nsdict.map (·.2) := by
        intro hm
        obtain ⟨e, he, hep⟩ := List.mem_map.mp hm
        rcases (h.shape e he).1 with hg | ⟨k, hk, hek⟩
        · rw [hep, isGen_gen] at hg; cases hg
        · rw [hek] at hep
          have := dec_inj (List.append_cancel_left hep)
          omega
      refine ⟨?_, ?_, ?_, ?_, ?_⟩
      · simp only [List.map_append]; exact nodup_append_singleton h.keys hfresh
      · simp only [List.map_append]; exact nodup_append_singleton h.prefs hgenfresh
      · intro e he
        simp only at he
        rcases List.mem_append.mp he with h1 | h1
        · have := h.shape e h1
          refine ⟨?_, this.2⟩
          rcases this.1 with hg | ⟨k, hk, hek⟩
          · exact Or.inl hg
          · exact Or.inr ⟨k, by simp; omega, hek⟩
        · simp at h1; subst h1
          exact ⟨Or.inr ⟨st.nsdict.length, by simp, rfl⟩, isNCName_gen _, gen_ne_xmlns _, hne⟩
      · intro e he
        simp only at he ⊢
        split at he
        · exact List.mem_append_left _ (h.sub e he)
        · rcases List.mem_append.mp he with h1 | h1
          · exact List.mem_append_left _ (h.sub e h1)
          · simp at h1; subst h1; simp
      · simp only
        split
        · exact h.seenKeys
        · rename_i hs
          rw [List.map_append]
          apply nodup_append_singleton h.seenKeys
          intro hm
          exact hs (lookupNs_isSome_of_mem hm)

theorem inv_run (st : NsState) (nss : List Str) (h : Inv st) : Inv (run st nss) := by
  induction nss generalizing st with
  | nil => exact h
  | cons ns r ih => exact ih _ (inv_step st ns h)

/-- prefixes of `seen` are pairwise distinct (sub-list of a table with distinct prefixes and distinct keys) -/
theorem seen_prefs_nodup (st : NsState) (h : Inv st) : (st.seen.map (·.2)).Nodup := by
  have hsub := h.sub
  have hk := h.seenKeys
  generalize st.seen = s at hsub hk
  induction s with
  | nil => simp
  | cons e r ih =>
    simp only [List.map_cons, List.nodup_cons] at hk ⊢
    refine ⟨?_, ih (fun e' he' => hsub e' (by simp [he'])) hk.2⟩
    intro hm
    obtain ⟨e2, he2, hp⟩ := List.mem_map.mp hm
    -- e and e2 are entries of nsdict with the same prefix, hence the same entry, contradicting distinct keys
    have h1 := hsub e (by simp)
    have h2 := hsub e2 (by simp [he2])
    have : e2 = e := by
      have hp' := h.prefs
      generalize st.nsdict = d at h1 h2 hp'
      induction d with
      | nil => cases h1
      | cons x d' ihd =>
        simp only [List.map_cons, List.nodup_cons] at hp'
        rcases List.mem_cons.mp h1 with rfl | h1'
        · rcases List.mem_cons.mp h2 with rfl | h2'
          · rfl
          · exact absurd (List.mem_map.mpr ⟨e2, h2', hp⟩) hp'.1
        · rcases List.mem_cons.mp h2 with rfl | h2'
          · exact absurd (List.mem_map.mpr ⟨e, h1', hp.symm⟩) hp'.1
          · exact ihd h1' h2' hp'.2
    subst this
    exact hk.1 (List.mem_map.mpr ⟨e2, he2, rfl⟩)

end OdfModel.Ns

/-
  OdfModel.Grammar — RELAX-NG patterns and what they permit (layer L9, specification side of C06).

  The two schema files shipped in /repo/grammar are translated *syntactically* into terms of the
  type `P` below (lean/OdfModel/Generated/GrammarSchema.lean, one `def` per `<define>` and one per
  `<element>`; element and attribute names are interned as `Nat` ids).  As in the simplified form of
  RELAX-NG (section 4.19 of the specification) every `<element>` is lifted out of the pattern it
  occurs in: the occurrence becomes `.element i` and the declaration — name class and content — is
  row `i` of the declaration table.  This file is the *meaning*: for the content pattern of an
  element,

    mayElems   which child elements can occur        (∪ everywhere; stops at `element`)
    mayText    whether character data can occur      (text, mixed, data, value, list)
    mayAttrs   which attributes can occur            (∪ everywhere; stops at `element`)
    mustAttrs  which attributes occur in *every* valid instance
               (group / interleave: ∪;  choice: ∩;  optional / zeroOrMore: ∅;  oneOrMore p: p)

  References are followed through the define table with fuel; `fuelOk` is the companion check that
  the fuel never runs out (theorem `fuel_sufficient` in Props/C06/Schema.lean), and where `fuelOk`
  holds the answers are the same at every larger fuel (Props/C06/Fuel.lean,
  `schema_semantics_fuel_independent`), so the functions compute the denotation and not an
  approximation of it.  RELAX-NG forbids recursion that does not pass through
  an `element`, and all four functions stop at `element`, so a finite fuel always exists.

  Nothing here knows about odfpy.
-/
namespace OdfModel.Grammar

/-- the id standing for "any name" (`<anyName/>`); every interned id is smaller (theorem `ids_below_any`) -/
def ANY : Nat := 1000000000

/-- name classes -/
inductive NC where
  | name (q : Nat)
  | any
  | choice (l : List NC)

/-- RELAX-NG patterns (full syntax of the two ODF schemas; `value`/`data` carry string-table ids) -/
inductive P where
  | ref (n : Nat)
  | element (i : Nat)
  | attribute (nc : NC) (p : P)
  | group (l : List P)
  | interleave (l : List P)
  | choice (l : List P)
  | optional (p : P)
  | zeroOrMore (p : P)
  | oneOrMore (p : P)
  | mixed (p : P)
  | list (p : P)
  | empty
  | text
  | notAllowed
  | value (s : Nat)
  | data (t : Nat) (pat : Option Nat)

/-- an element declaration: `<element>` with its name class and its content -/
structure Decl where
  nc : NC
  content : P

/-- a table stored in chunks of `chunk` entries (two-level lookup keeps kernel evaluation cheap) -/
structure Table (α : Type) where
  chunk : Nat
  chunks : List (List α)

def Table.get? {α : Type} (D : Table α) (n : Nat) : Option α :=
  match D.chunks[n / D.chunk]? with
  | some c => c[n % D.chunk]?
  | none => none

def Table.all {α : Type} (D : Table α) : List α := D.chunks.flatMap id

/-- a schema: the `<define>`s (several `<define>`s of one name already combined) and the element
    declarations, both addressed by position -/
structure Schema where
  defs : Table P
  elems : Table Decl

def Schema.getDef (S : Schema) (n : Nat) : P := (S.defs.get? n).getD .notAllowed
def Schema.getDecl (S : Schema) (i : Nat) : Decl := (S.elems.get? i).getD ⟨.choice [], .notAllowed⟩

/-- names of a name class -/
def ncNames : Nat → NC → List Nat
  | 0, _ => []
  | _+1, .name q => [q]
  | _+1, .any => [ANY]
  | f+1, .choice l => l.flatMap (ncNames f)

def ncOk : Nat → NC → Bool
  | 0, _ => false
  | _+1, .name _ => true
  | _+1, .any => true
  | f+1, .choice l => l.all (ncOk f)

/-- does the name class list this very name?  (`<anyName/>` does not *list* any name) -/
def ncHas : Nat → NC → Nat → Bool
  | 0, _, _ => false
  | _+1, .name q, e => Nat.beq q e
  | _+1, .any, _ => false
  | f+1, .choice l, e => l.any fun n => ncHas f n e

/-- fuel for name classes (nesting depth of `<choice>` inside a name class) -/
def NCFUEL : Nat := 8

def names (nc : NC) : List Nat := ncNames NCFUEL nc

/-- fuel for the four semantic functions: length of the longest chain of nested patterns and
    references between an element and the elements / attributes / text directly inside it -/
def FUEL : Nat := 40

section
variable (D : Schema)

def mayElems : Nat → P → List Nat
  | 0, _ => []
  | f+1, .ref n => mayElems f (D.getDef n)
  | _+1, .element i => names (D.getDecl i).nc
  | f+1, .group l | f+1, .interleave l | f+1, .choice l => l.flatMap (mayElems f)
  | f+1, .optional p | f+1, .zeroOrMore p | f+1, .oneOrMore p | f+1, .mixed p => mayElems f p
  | _, _ => []

def mayText : Nat → P → Bool
  | 0, _ => false
  | f+1, .ref n => mayText f (D.getDef n)
  | f+1, .group l | f+1, .interleave l | f+1, .choice l => l.any (mayText f)
  | f+1, .optional p | f+1, .zeroOrMore p | f+1, .oneOrMore p => mayText f p
  | _+1, .mixed _ => true
  | _+1, .text => true
  | _+1, .data _ _ => true
  | _+1, .value _ => true
  | _+1, .list _ => true
  | _, _ => false

def mayAttrs : Nat → P → List Nat
  | 0, _ => []
  | f+1, .ref n => mayAttrs f (D.getDef n)
  | _+1, .attribute nc _ => names nc
  | f+1, .group l | f+1, .interleave l | f+1, .choice l => l.flatMap (mayAttrs f)
  | f+1, .optional p | f+1, .zeroOrMore p | f+1, .oneOrMore p | f+1, .mixed p => mayAttrs f p
  | _, _ => []

/-- intersection of a list of lists (`[]` for no alternatives) -/
def interAll : List (List Nat) → List Nat
  | [] => []
  | a :: rest => rest.foldl (fun acc b => acc.filter b.contains) a

/-- attributes present in every instance.  An attribute whose name class is not a single name is
    never *required by name*.  `notAllowed` does not occur in the schemas (theorem `no_notAllowed`),
    so it needs no special treatment as the unit of `choice`. -/
def mustAttrs : Nat → P → List Nat
  | 0, _ => []
  | f+1, .ref n => mustAttrs f (D.getDef n)
  | _+1, .attribute (.name q) _ => [q]
  | f+1, .group l | f+1, .interleave l => l.flatMap (mustAttrs f)
  | f+1, .choice l => interAll (l.map (mustAttrs f))
  | f+1, .oneOrMore p | f+1, .mixed p => mustAttrs f p
  | _, _ => []

/-- `true` iff a traversal with this fuel, following references and stopping at `element` and
    `attribute`, never reaches fuel 0.  All four functions above recurse along a subset of the
    paths of this traversal. -/
def fuelOk : Nat → P → Bool
  | 0, _ => false
  | f+1, .ref n => fuelOk f (D.getDef n)
  | _+1, .element i => ncOk NCFUEL (D.getDecl i).nc
  | _+1, .attribute nc _ => ncOk NCFUEL nc
  | f+1, .group l | f+1, .interleave l | f+1, .choice l => l.all (fuelOk f)
  | f+1, .optional p | f+1, .zeroOrMore p | f+1, .oneOrMore p | f+1, .mixed p | f+1, .list p => fuelOk f p
  | _+1, _ => true

end

/-! ### Purely syntactic traversals (structural recursion, no fuel) -/

mutual
/-- largest reference id + 1 -/
def refBound : P → Nat
  | .ref n => n + 1
  | .attribute _ p => refBound p
  | .group l | .interleave l | .choice l => refBoundL l
  | .optional p | .zeroOrMore p | .oneOrMore p | .mixed p | .list p => refBound p
  | _ => 0
def refBoundL : List P → Nat
  | [] => 0
  | p :: ps => max (refBound p) (refBoundL ps)
end

mutual
/-- largest element-declaration index + 1 -/
def declBound : P → Nat
  | .element i => i + 1
  | .attribute _ p => declBound p
  | .group l | .interleave l | .choice l => declBoundL l
  | .optional p | .zeroOrMore p | .oneOrMore p | .mixed p | .list p => declBound p
  | _ => 0
def declBoundL : List P → Nat
  | [] => 0
  | p :: ps => max (declBound p) (declBoundL ps)
end

mutual
def hasNotAllowed : P → Bool
  | .notAllowed => true
  | .attribute _ p => hasNotAllowed p
  | .group l | .interleave l | .choice l => hasNotAllowedL l
  | .optional p | .zeroOrMore p | .oneOrMore p | .mixed p | .list p => hasNotAllowed p
  | _ => false
def hasNotAllowedL : List P → Bool
  | [] => false
  | p :: ps => hasNotAllowed p || hasNotAllowedL ps
end

/-! ### The schema's answer for an element *name*

An element name can be declared by several element patterns (`text:p` inside and outside of
tracked changes, `style:style` …).  The API knows only the name, so: an item is *permitted* when
some declaration permits it, and an attribute is *required* when every declaration requires it. -/

/-- content patterns of the declarations of element `e` (declarations with `<anyName/>` excluded) -/
def patternsIn : List Decl → Nat → List P
  | [], _ => []
  | d :: ds, e => if ncHas NCFUEL d.nc e then d.content :: patternsIn ds e else patternsIn ds e

def patternsInChunks : List (List Decl) → Nat → List P
  | [], _ => []
  | c :: cs, e => patternsIn c e ++ patternsInChunks cs e

/-- does the name class contain `<anyName/>`? -/
def ncAny : Nat → NC → Bool
  | 0, _ => false
  | _+1, .name _ => false
  | _+1, .any => true
  | f+1, .choice l => l.any fun n => ncAny f n

def anyPatternsIn : List Decl → List P
  | [] => []
  | d :: ds => if ncAny NCFUEL d.nc then d.content :: anyPatternsIn ds else anyPatternsIn ds

def anyPatternsInChunks : List (List Decl) → List P
  | [] => []
  | c :: cs => anyPatternsIn c ++ anyPatternsInChunks cs

/-- content patterns of the declarations that *name* element `e` -/
def Schema.namedPatterns (S : Schema) (e : Nat) : List P := patternsInChunks S.elems.chunks e

/-- content patterns of the `<anyName/>` declarations: the "islands" of the schema (the content of
    math:math, of xforms:model, of office:meta's foreign metadata …), where any element may occur -/
def Schema.anyPatterns (S : Schema) : List P := anyPatternsInChunks S.elems.chunks

/-- the declarations an element named `e` is judged by: the ones that name it; an element that no
    declaration names can only occur where an `<anyName/>` declaration matches it, and is judged
    by those.  (A named ODF element could also sit inside an island; the API cannot know the
    context, and C06 takes the ODF declarations for it.) -/
def Schema.patterns (S : Schema) (e : Nat) : List P :=
  let n := S.namedPatterns e
  if n.isEmpty then S.anyPatterns else n

/-- is `e` declared by name? -/
def Schema.isElem (S : Schema) (e : Nat) : Bool := !(S.namedPatterns e).isEmpty
def Schema.mayElems (S : Schema) (e : Nat) : List Nat := (S.patterns e).flatMap (Grammar.mayElems S FUEL)
def Schema.mayText (S : Schema) (e : Nat) : Bool := (S.patterns e).any (Grammar.mayText S FUEL)
def Schema.mayAttrs (S : Schema) (e : Nat) : List Nat := (S.patterns e).flatMap (Grammar.mayAttrs S FUEL)
def Schema.mustAttrs (S : Schema) (e : Nat) : List Nat := interAll ((S.patterns e).map (Grammar.mustAttrs S FUEL))

/-- does the schema permit child `c` / attribute `a` / text in element `e`? -/
def Schema.permitsChild (S : Schema) (e c : Nat) : Bool :=
  let m := S.mayElems e; m.contains ANY || m.contains c
def Schema.permitsAttr (S : Schema) (e a : Nat) : Bool :=
  let m := S.mayAttrs e; m.contains ANY || m.contains a
def Schema.requires (S : Schema) (e a : Nat) : Bool := (S.mustAttrs e).contains a

def dedup (l : List Nat) : List Nat :=
  l.foldl (fun acc x => if acc.contains x then acc else acc ++ [x]) []

end OdfModel.Grammar

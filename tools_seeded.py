#!/usr/bin/env python3
"""Confirms a seeded change (patch.diff + demo.py + meta.json) in a scratch worktree, then runs the named checks of /verif
against it applied to /repo (undone straight afterwards), and files it under /verif/seeded/<id>/.

usage: tools_seeded.py [--harmless] <src-dir> <seed-id> <check> [<check> ...]

--harmless: the change is meant to leave the property true (a refactoring, or a change of behaviour the property does not speak
about).  Confirmed when the suite passes and its demonstration exits 0 with and without it.  The outcome per check is recorded
as `quiet` (exit 0), `no-failing-input` (exit 1, every VIOLATION line ends in no-failing-input-found: proof or correspondence no
longer checks and the search found nothing - what the brief prescribes for a rewrite the model does not follow) or `concrete`
(exit 1 with a replayable input: either the change is not harmless after all, or the check is wrong - to be settled by hand).
"""
import sys, os, subprocess, json, shutil, tempfile
VERIF = os.path.dirname(os.path.abspath(__file__))
PY = '/venv/bin/python'

def sh(cmd, cwd=None, timeout=1800):
    r = subprocess.run(cmd, shell=True, cwd=cwd, stdout=subprocess.PIPE, stderr=subprocess.STDOUT, universal_newlines=True, timeout=timeout)
    return r.returncode, r.stdout

def main():
    harmless = '--harmless' in sys.argv
    args = [a for a in sys.argv[1:] if a != '--harmless']
    src, sid, checks = args[0], args[1], args[2:]
    meta = json.load(open(os.path.join(src, 'meta.json')))
    patch = os.path.abspath(os.path.join(src, 'patch.diff')); demo = os.path.abspath(os.path.join(src, 'demo.py'))
    wt = tempfile.mkdtemp(prefix='seedwt-', dir='/tmp')
    os.rmdir(wt)
    ran = []
    try:
        rc, out = sh('git -C /repo worktree add -q --detach %s HEAD' % wt); assert rc == 0, out
        rc0, o0 = sh('%s %s' % (PY, demo), cwd=wt); ran.append('demo without change: exit %d' % rc0)
        rc, out = sh('git apply %s' % patch, cwd=wt); assert rc == 0, 'patch does not apply: ' + out
        rct, ot = sh('%s -m pytest -q -p no:cacheprovider --timeout=900 --continue-on-collection-errors' % PY, cwd=wt)
        tail = [l for l in ot.strip().splitlines() if l.strip()][-1] if ot.strip() else ''
        ran.append('suite with change: exit %d (%s)' % (rct, tail))
        rc1, o1 = sh('%s %s' % (PY, demo), cwd=wt); ran.append('demo with change: exit %d' % rc1)
        confirmed = (rc0 == 0 and rct == 0 and ((rc1 == 0) if harmless else (rc1 != 0)))
        # the checks run against the scratch worktree with the change applied ($ODFPY_REPO): /repo itself stays untouched, so other
        # work going on against /repo is not disturbed (equivalent to `git -C /repo apply` + checks + `git -C /repo checkout -- .`)
        results = {}
        if confirmed:
            try:
                for c in checks:
                    rcc, oc = sh('ODFPY_REPO=%s ./check %s' % (wt, c), cwd=VERIF)
                    lines = [l for l in oc.splitlines() if l.startswith('VIOLATION') or l.startswith(c)]
                    viol = [l for l in lines if l.startswith('VIOLATION')]
                    outcome = 'quiet' if rcc == 0 else ('infra' if rcc != 1 else ('no-failing-input' if viol and all(l.rstrip().endswith('no-failing-input-found') for l in viol) else 'concrete'))
                    results[c] = {'exit': rcc, 'outcome': outcome, 'lines': [l[:300] for l in lines][:6]}
                    if rcc not in (0, 1):
                        results[c]['tail'] = oc[-1500:]
                    for l in lines:
                        if l.startswith('VIOLATION') and 'replay=' in l:
                            rp = l.split('replay=')[1].split()[0]
                            try:
                                results[c]['replay'] = json.load(open(os.path.join(VERIF, rp)))
                            except Exception:
                                pass
            finally:
                shutil.rmtree(os.path.join(VERIF, 'replays'), ignore_errors=True)
                sh('git -C %s checkout -- evidence' % VERIF)
    finally:
        sh('git -C /repo worktree remove --force %s' % wt); shutil.rmtree(wt, ignore_errors=True)
    dst = os.path.join(VERIF, 'seeded', sid)
    os.makedirs(dst, exist_ok=True)
    shutil.copy(patch, os.path.join(dst, 'patch.diff')); shutil.copy(demo, os.path.join(dst, 'demo.py'))
    meta.update({'seed_id': sid, 'confirmed': confirmed, 'what_was_run': ran,
                 'checks_run_against_it': results,
                 'detected_by': sorted(c for c, r in results.items() if r['exit'] == 1)})
    json.dump(meta, open(os.path.join(dst, 'meta.json'), 'w'), indent=1, default=repr)
    print(sid, 'confirmed' if confirmed else 'NOT CONFIRMED', ran, {c: (r['exit'], r['outcome'], r['lines'][:1]) for c, r in results.items()})

main()

#!/usr/bin/env python3
"""validate MANIFEST.json and evidence/*.json against the schemas in /root/.vp (run with python3-vt)"""
import json, sys, glob, jsonschema
ok = True
def v(path, schema):
    global ok
    try:
        jsonschema.validate(json.load(open(path)), json.load(open(schema)))
        print('valid  ', path)
    except Exception as e:
        ok = False; print('INVALID', path, str(e)[:300])
v('/verif/MANIFEST.json', '/root/.vp/MANIFEST.schema.json')
for p in sorted(glob.glob('/verif/evidence/*.json')):
    v(p, '/root/.vp/EVIDENCE.schema.json')
ids = [json.loads(l)['id'] for l in open('/verif/properties.jsonl')]
m = json.load(open('/verif/MANIFEST.json'))
claimed = [c['property_id'] for c in m['checks']]; na = [c['property_id'] for c in m.get('not_applicable', [])]
for i in ids:
    if (i in claimed) == (i in na):
        ok = False; print('property', i, 'must be exactly one of claimed / not_applicable')
sys.exit(0 if ok else 1)

import sys, re
sys.path.insert(0,'/repo')
import odf.grammar as g
# reuse the string table from Schema.lean
src = open('Schema.lean').read()
m = re.search(r'def strs : Array String := #\[(.*)\]\n', src)
import ast
strs = ast.literal_eval('['+m.group(1)+']')
idx = {s:i for i,s in enumerate(strs)}
extra = []
def sid(s):
    if s not in idx: idx[s]=len(strs)+len(extra); extra.append(s)
    return idx[s]
def q(t): return "(%d, %d)" % (sid(t[0]), sid(t[1]))
out = ["import Sem"]
out.append("def gAllowsText : List QN := [%s]" % ", ".join(q(t) for t in g.allows_text))
rows=[]
for k,v in g.allowed_children.items():
    rows.append("(%s, %s)" % (q(k), "none" if v is None else "some [%s]" % ", ".join(q(c) for c in v)))
out.append("def gChildren : List (QN × Option (List QN)) := [\n  %s]" % ",\n  ".join(rows))
open('Grammar.lean','w').write("\n".join(out)+"\n")
print(len(extra),'extra strings')

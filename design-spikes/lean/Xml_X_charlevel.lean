namespace X
abbrev Cp := Nat

def isNameChar (c : Cp) : Bool :=
  (97 ≤ c && c ≤ 122) || (65 ≤ c && c ≤ 90) || (48 ≤ c && c ≤ 57) || c == 58 || c == 45 || c == 95 || c == 46
def isXmlChar (c : Cp) : Bool :=
  c == 9 || c == 10 || c == 13 || (32 ≤ c && c ≤ 0xD7FF) || (0xE000 ≤ c && c ≤ 0xFFFD) || (0x10000 ≤ c && c ≤ 0x10FFFF)
def repl (c : Cp) : Cp := if isXmlChar c then c else 0xFFFD

/-- model of `_sanitize` for text (after the planned CR fix) -/
def escC (c : Cp) : List Cp :=
  if c = 38 then [38,97,109,112,59]
  else if c = 60 then [38,108,116,59]
  else if c = 62 then [38,103,116,59]
  else if c = 13 then [38,35,49,51,59]
  else [repl c]
def escText (s : List Cp) : List Cp := s.flatMap escC

/-- spec: reference decoding (subset used in the spike) -/
def parseRef : List Cp → Option (Cp × List Cp)
  | 97::109::112::59::r => some (38, r)
  | 108::116::59::r => some (60, r)
  | 103::116::59::r => some (62, r)
  | 113::117::111::116::59::r => some (34, r)
  | 35::49::51::59::r => some (13, r)
  | 35::49::48::59::r => some (10, r)
  | 35::57::59::r => some (9, r)
  | _ => none

theorem parseRef_len {r d r'} (h : parseRef r = some (d, r')) : r'.length < r.length := by
  unfold parseRef at h
  split at h <;> simp at h <;> (obtain ⟨_, rfl⟩ := h; simp <;> omega)

/-- spec: character data up to the next `<`; CR is normalised to LF; `>` is allowed literally -/
def parseText : List Cp → Option (List Cp × List Cp)
  | [] => some ([], [])
  | c :: r =>
    if c = 60 then some ([], c :: r)
    else if c = 38 then
      match h : parseRef r with
      | none => none
      | some (d, r') =>
        have := parseRef_len h
        match parseText r' with
        | none => none
        | some (t, r'') => some (d :: t, r'')
    else if isXmlChar c then
      match parseText r with
      | none => none
      | some (t, r'') => some ((if c = 13 then 10 else c) :: t, r'')
    else none
termination_by l => l.length

theorem repl_xml (c : Cp) : isXmlChar (repl c) = true := by
  unfold repl; split
  · assumption
  · decide

theorem parseText_amp {r d r'} (h : parseRef r = some (d, r')) :
    parseText (38 :: r) = match parseText r' with
      | none => none
      | some (t, r'') => some (d :: t, r'') := by
  rw [parseText]
  simp only [show (38:Nat) ≠ 60 by decide, if_false, if_true]
  split
  · simp_all
  · rename_i d2 r2 h2
    rw [h] at h2
    cases h2
    rfl

theorem parseText_lit {c : Cp} (r : List Cp) (h1 : c ≠ 60) (h2 : c ≠ 38) (h3 : c ≠ 13) (hx : isXmlChar c = true) :
    parseText (c :: r) = match parseText r with
      | none => none
      | some (t, r'') => some (c :: t, r'') := by
  rw [parseText]; simp [h1, h2, h3, hx]

/-- per-character round trip -/
theorem parseText_escC (c : Cp) (rest : List Cp) :
    parseText (escC c ++ rest) =
      match parseText rest with
      | none => none
      | some (t, r) => some (repl c :: t, r) := by
  unfold escC
  split
  · subst_vars; rw [List.cons_append, parseText_amp (r' := rest) (d := 38) (by simp [parseRef])]; simp [repl, isXmlChar]
  split
  · subst_vars; rw [List.cons_append, parseText_amp (r' := rest) (d := 60) (by simp [parseRef])]; simp [repl, isXmlChar]
  split
  · subst_vars; rw [List.cons_append, parseText_amp (r' := rest) (d := 62) (by simp [parseRef])]; simp [repl, isXmlChar]
  split
  · subst_vars; rw [List.cons_append, parseText_amp (r' := rest) (d := 13) (by simp [parseRef])]; simp [repl, isXmlChar]
  · rename_i h1 h2 h3 h4
    have hx := repl_xml c
    have h60 : repl c ≠ 60 := by unfold repl; split <;> simp_all
    have h38 : repl c ≠ 38 := by unfold repl; split <;> simp_all
    have h13 : repl c ≠ 13 := by unfold repl; split <;> simp_all
    rw [List.cons_append, List.nil_append, parseText_lit rest h60 h38 h13 hx]

theorem parseText_escText (s rest : List Cp) :
    parseText (escText s ++ rest) =
      match parseText rest with
      | none => none
      | some (t, r) => some (s.map repl ++ t, r) := by
  induction s with
  | nil =>
    simp only [escText, List.flatMap_nil, List.nil_append, List.map_nil]
    cases parseText rest with
    | none => rfl
    | some v => cases v; rfl
  | cons c s ih =>
    simp only [escText, List.flatMap_cons, List.append_assoc] at *
    rw [parseText_escC, ih]
    cases parseText rest with
    | none => rfl
    | some v => cases v; simp

end X

namespace WS

inductive Node where
  | text (s : List Char)
  | sp (n : Nat)
  | tab
  | lb
deriving Repr, DecidableEq

def flush (buf : List Char) : List Node :=
  if buf.isEmpty then [] else [Node.text buf]

def enc (buf : List Char) (s : List Char) : List Node :=
  match s with
  | [] => flush buf
  | c :: r =>
    if c = '\t' then flush buf ++ [Node.tab] ++ enc [] r
    else if c = '\n' then flush buf ++ [Node.lb] ++ enc [] r
    else if c = ' ' then
      let n := (r.takeWhile (· = ' ')).length
      if n > 0 then flush (buf ++ [' ']) ++ [Node.sp n] ++ enc [] (r.dropWhile (· = ' '))
      else enc (buf ++ [' ']) r
    else enc (buf ++ [c]) r
termination_by s.length
decreasing_by
  all_goals simp_wf
  all_goals try omega
  have := (List.dropWhile_suffix (fun x => decide (x = ' ')) (l := r)).length_le
  omega

def decNode : Node → List Char
  | .text s => s
  | .sp n => List.replicate n ' '
  | .tab => ['\t']
  | .lb => ['\n']

def dec (ns : List Node) : List Char := ns.flatMap decNode

theorem dec_flush (buf : List Char) : dec (flush buf) = buf := by
  unfold flush dec
  cases buf <;> simp [decNode]

@[simp] theorem dec_cons (a : Node) (b : List Node) : dec (a :: b) = decNode a ++ dec b := by
  simp [dec]

theorem dec_append (a b : List Node) : dec (a ++ b) = dec a ++ dec b := by
  simp [dec]

theorem takeWhile_spaces (r : List Char) :
    r.takeWhile (· = ' ') = List.replicate (r.takeWhile (· = ' ')).length ' ' := by
  induction r with
  | nil => simp
  | cons c r ih =>
    by_cases h : c = ' '
    · subst h; simp [List.takeWhile_cons, List.replicate_succ]; exact ih
    · simp [List.takeWhile_cons, h]

theorem dec_enc (buf s : List Char) : dec (enc buf s) = buf ++ s := by
  fun_induction enc buf s with
  | case1 buf => simp [dec_flush]
  | case2 buf r ih => simp [dec_append, dec_flush, ih, decNode]
  | case3 buf r _ ih => simp [dec_append, dec_flush, ih, decNode]
  | case4 buf r _ _ n hn ih =>
    simp only [dec_append, dec_flush, ih, dec_cons, decNode]
    simp
    have h1 := takeWhile_spaces r
    have h2 := List.takeWhile_append_dropWhile (p := fun x => decide (x = ' ')) (l := r)
    rw [← h1]; exact h2
  | case5 buf r _ _ n hn ih => simp [ih]
  | case6 buf c r _ _ _ ih => simp [ih]

end WS
#print axioms WS.dec_enc

namespace Dom

structure NodeRec where
  parent : Option Nat := none
  prev : Option Nat := none
  next : Option Nat := none
  kids : List Nat := []

abbrev Heap := Nat → NodeRec

def Heap.set (h : Heap) (i : Nat) (r : NodeRec) : Heap := fun j => if j = i then r else h j

@[simp] theorem Heap.set_same (h : Heap) (i r) : (h.set i r) i = r := by simp [Heap.set]
theorem Heap.set_other (h : Heap) (i j r) (hne : j ≠ i) : (h.set i r) j = h j := by simp [Heap.set, hne]

/-- sibling links of the nodes of `l` agree with the order of `l`;
    `pr` is the node before `l`, `nx` the node after it -/
def Linked (h : Heap) : Option Nat → List Nat → Option Nat → Prop
  | _, [], _ => True
  | pr, x :: r, nx => (h x).prev = pr ∧ (h x).next = (r.head?.or nx) ∧ Linked h (some x) r nx

theorem Linked.congr {h h' : Heap} {pr l nx} (hl : Linked h pr l nx)
    (heq : ∀ x ∈ l, (h' x).prev = (h x).prev ∧ (h' x).next = (h x).next) : Linked h' pr l nx := by
  induction l generalizing pr with
  | nil => trivial
  | cons x r ih =>
    obtain ⟨h1, h2, h3⟩ := hl
    have hx := heq x (by simp)
    refine ⟨by rw [hx.1, h1], by rw [hx.2, h2], ih h3 ?_⟩
    intro y hy; exact heq y (by simp [hy])

theorem getLast?_cons_some (y : Nat) (r : List Nat) : ∃ z, (y :: r).getLast? = some z := by
  induction r generalizing y with
  | nil => exact ⟨y, rfl⟩
  | cons a r ih => obtain ⟨z, hz⟩ := ih a; exact ⟨z, by simpa [List.getLast?_cons_cons] using hz⟩

theorem Linked.append {h : Heap} {pr l1 l2 nx} :
    Linked h pr (l1 ++ l2) nx ↔ Linked h pr l1 (l2.head?.or nx) ∧ Linked h (l1.getLast?.or pr) l2 nx := by
  induction l1 generalizing pr with
  | nil => simp [Linked]
  | cons x r ih =>
    simp only [List.cons_append, Linked]
    rw [ih]
    cases r with
    | nil => simp [Linked, and_assoc]
    | cons y r' =>
      obtain ⟨z, hz⟩ := getLast?_cons_some y r'
      simp [Linked, and_assoc, hz]



def setKids (h : Heap) (i : Nat) (v : List Nat) : Heap := h.set i { h i with kids := v }
def setPrev (h : Heap) (i : Nat) (v : Option Nat) : Heap := h.set i { h i with prev := v }
def setNext (h : Heap) (i : Nat) (v : Option Nat) : Heap := h.set i { h i with next := v }
def setParent (h : Heap) (i : Nat) (v : Option Nat) : Heap := h.set i { h i with parent := v }
def setPrevOpt (h : Heap) (o : Option Nat) (v : Option Nat) : Heap :=
  match o with | some n => setPrev h n v | none => h
def setNextOpt (h : Heap) (o : Option Nat) (v : Option Nat) : Heap :=
  match o with | some n => setNext h n v | none => h

section fields
variable (h : Heap) (i q : Nat)
@[simp] theorem setKids_kids (v) : (setKids h i v q).kids = if q = i then v else (h q).kids := by
  unfold setKids Heap.set; split <;> simp_all
@[simp] theorem setKids_prev (v) : (setKids h i v q).prev = (h q).prev := by
  unfold setKids Heap.set; split <;> simp_all
@[simp] theorem setKids_next (v) : (setKids h i v q).next = (h q).next := by
  unfold setKids Heap.set; split <;> simp_all
@[simp] theorem setKids_parent (v) : (setKids h i v q).parent = (h q).parent := by
  unfold setKids Heap.set; split <;> simp_all
@[simp] theorem setPrev_kids (v) : (setPrev h i v q).kids = (h q).kids := by
  unfold setPrev Heap.set; split <;> simp_all
@[simp] theorem setPrev_prev (v) : (setPrev h i v q).prev = if q = i then v else (h q).prev := by
  unfold setPrev Heap.set; split <;> simp_all
@[simp] theorem setPrev_next (v) : (setPrev h i v q).next = (h q).next := by
  unfold setPrev Heap.set; split <;> simp_all
@[simp] theorem setPrev_parent (v) : (setPrev h i v q).parent = (h q).parent := by
  unfold setPrev Heap.set; split <;> simp_all
@[simp] theorem setNext_kids (v) : (setNext h i v q).kids = (h q).kids := by
  unfold setNext Heap.set; split <;> simp_all
@[simp] theorem setNext_prev (v) : (setNext h i v q).prev = (h q).prev := by
  unfold setNext Heap.set; split <;> simp_all
@[simp] theorem setNext_next (v) : (setNext h i v q).next = if q = i then v else (h q).next := by
  unfold setNext Heap.set; split <;> simp_all
@[simp] theorem setNext_parent (v) : (setNext h i v q).parent = (h q).parent := by
  unfold setNext Heap.set; split <;> simp_all
@[simp] theorem setParent_kids (v) : (setParent h i v q).kids = (h q).kids := by
  unfold setParent Heap.set; split <;> simp_all
@[simp] theorem setParent_prev (v) : (setParent h i v q).prev = (h q).prev := by
  unfold setParent Heap.set; split <;> simp_all
@[simp] theorem setParent_next (v) : (setParent h i v q).next = (h q).next := by
  unfold setParent Heap.set; split <;> simp_all
@[simp] theorem setParent_parent (v) : (setParent h i v q).parent = if q = i then v else (h q).parent := by
  unfold setParent Heap.set; split <;> simp_all
variable (o : Option Nat)
@[simp] theorem setPrevOpt_kids (v) : (setPrevOpt h o v q).kids = (h q).kids := by
  unfold setPrevOpt; split <;> simp
@[simp] theorem setPrevOpt_prev (v) : (setPrevOpt h o v q).prev = if some q = o then v else (h q).prev := by
  unfold setPrevOpt; split <;> simp
@[simp] theorem setPrevOpt_next (v) : (setPrevOpt h o v q).next = (h q).next := by
  unfold setPrevOpt; split <;> simp
@[simp] theorem setPrevOpt_parent (v) : (setPrevOpt h o v q).parent = (h q).parent := by
  unfold setPrevOpt; split <;> simp
@[simp] theorem setNextOpt_kids (v) : (setNextOpt h o v q).kids = (h q).kids := by
  unfold setNextOpt; split <;> simp
@[simp] theorem setNextOpt_prev (v) : (setNextOpt h o v q).prev = (h q).prev := by
  unfold setNextOpt; split <;> simp
@[simp] theorem setNextOpt_next (v) : (setNextOpt h o v q).next = if some q = o then v else (h q).next := by
  unfold setNextOpt; split <;> simp
@[simp] theorem setNextOpt_parent (v) : (setNextOpt h o v q).parent = (h q).parent := by
  unfold setNextOpt; split <;> simp
end fields

structure Inv (h : Heap) : Prop where
  nodup : ∀ p, (h p).kids.Nodup
  parent_iff : ∀ p c, c ∈ (h p).kids ↔ (h c).parent = some p
  linked : ∀ p, Linked h none (h p).kids none
  detached : ∀ c, (h c).parent = none → (h c).prev = none ∧ (h c).next = none
  irrefl : ∀ p, p ∉ (h p).kids

/-- model of `Node.removeChild` (pointer part), statements in source order -/
def removeChild (h : Heap) (p c : Nat) : Option Heap :=
  if c ∈ (h p).kids then
    let h1 := setKids h p ((h p).kids.erase c)
    let h2 := setPrevOpt h1 (h1 c).next (h1 c).prev
    let h3 := setNextOpt h2 (h2 c).prev (h2 c).next
    let h4 := setPrev (setNext h3 c none) c none
    some (setParent h4 c none)
  else none

/-- pointwise functional characterisation of `removeChild` -/
theorem removeChild_spec (h : Heap) (p c : Nat) (hc : c ∈ (h p).kids) :
    ∃ h', removeChild h p c = some h' ∧
      (∀ q, (h' q).kids = if q = p then (h p).kids.erase c else (h q).kids) ∧
      (∀ q, (h' q).parent = if q = c then none else (h q).parent) ∧
      (∀ q, (h' q).prev = if q = c then none else if some q = (h c).next then (h c).prev else (h q).prev) ∧
      (∀ q, (h' q).next = if q = c then none else if some q = (h c).prev then (h c).next else (h q).next) := by
  unfold removeChild
  simp only [hc, if_true]
  refine ⟨_, rfl, ?_, ?_, ?_, ?_⟩ <;> intro q <;> simp


end Dom

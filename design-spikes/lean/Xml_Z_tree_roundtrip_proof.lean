import Y
namespace X

theorem takeName_append (n : List Cp) (c : Cp) (r : List Cp)
    (hn : n.all isNameChar = true) (hc : isNameChar c = false) :
    takeName (n ++ c :: r) = (n, c :: r) := by
  unfold takeName
  induction n with
  | nil => simp [List.takeWhile_cons, List.dropWhile_cons, hc]
  | cons a n ih =>
    simp only [List.all_cons, Bool.and_eq_true] at hn
    have := ih hn.2
    simp only [Prod.mk.injEq] at this
    simp [List.takeWhile_cons, List.dropWhile_cons, hn.1, this.1, this.2]

theorem escC_head (c : Cp) : ∃ a l, escC c = a :: l ∧ a ≠ 60 := by
  unfold escC
  split; · exact ⟨_, _, rfl, by decide⟩
  split; · exact ⟨_, _, rfl, by decide⟩
  split; · exact ⟨_, _, rfl, by decide⟩
  split; · exact ⟨_, _, rfl, by decide⟩
  refine ⟨_, _, rfl, ?_⟩
  unfold repl; split <;> simp_all

theorem escText_head (s : List Cp) (hs : s ≠ []) : ∃ a l, escText s = a :: l ∧ a ≠ 60 := by
  cases s with
  | nil => exact absurd rfl hs
  | cons c s =>
    obtain ⟨a, l, h, ha⟩ := escC_head c
    exact ⟨a, l ++ escText s, by simp [escText, h], ha⟩

/-- a string is a legal continuation after character data: empty or starting with `<` -/
def StartsLT (l : List Cp) : Prop := l = [] ∨ ∃ r, l = 60 :: r

theorem parseText_startsLT (l : List Cp) (h : StartsLT l) : parseText l = some ([], l) := by
  rcases h with rfl | ⟨r, rfl⟩
  · rw [parseText]
  · rw [parseText]; simp

theorem parseText_esc_lt (s rest : List Cp) (h : StartsLT rest) :
    parseText (escText s ++ rest) = some (s.map repl, rest) := by
  rw [parseText_escText, parseText_startsLT rest h]; simp

def notTextHead : Forest → Bool
  | .cons (.text _) _ => false
  | _ => true

theorem printForest_startsLT (f : Forest) (rest : List Cp) (hc : canonForest f = true)
    (hh : notTextHead f = true) (hr : StartsLT rest) : StartsLT (printForest f ++ rest) := by
  cases f with
  | nil => simpa [printForest] using hr
  | cons h t =>
    cases h with
    | text s => simp [notTextHead] at hh
    | elem n ks =>
      right
      cases ks <;> simp [printForest, printNode]

theorem nameOK_slash : isNameChar 47 = false := by decide
theorem nameOK_gt : isNameChar 62 = false := by decide

theorem parseForest_text (fuel : Nat) (a : Cp) (r : List Cp) (ha : a ≠ 60) :
    parseForest (fuel+1) (a :: r) =
      (match parseText (a :: r) with
       | none => none
       | some (t, r1) =>
         match parseForest fuel r1 with
         | none => none
         | some (f, r2) => some (.cons (.text t) f, r2)) := by
  rw [parseForest.eq_def]
  split <;> (try simp_all) <;> (try rfl)

theorem parseForest_elem (fuel : Nat) (c : Cp) (r : List Cp) (hc : c ≠ 47) :
    parseForest (fuel+1) (60 :: c :: r) =
      (match parseElem fuel (60 :: c :: r) with
       | none => none
       | some (e, r1) =>
         match parseForest fuel r1 with
         | none => none
         | some (f, r2) => some (.cons e f, r2)) := by
  rw [parseForest.eq_def]
  split <;> (try simp_all) <;> (try rfl)

mutual
theorem parseElem_print (n : List Cp) (ks : Forest) (rest : List Cp) (fuel : Nat)
    (hc : canonNode (.elem n ks) = true) (hf : sizeNode (.elem n ks) ≤ fuel) :
    parseElem fuel (printNode (.elem n ks) ++ rest) = some (replNode (.elem n ks), rest) := by
  simp only [canonNode, Bool.and_eq_true, nameOK, bne_iff_ne, ne_eq] at hc
  obtain ⟨⟨hne, hall⟩, hks⟩ := hc
  cases fuel with
  | zero => simp [sizeNode] at hf
  | succ fuel =>
    cases ks with
    | nil =>
      simp only [printNode, List.cons_append, List.nil_append, List.append_assoc, parseElem]
      rw [takeName_append n 47 _ hall nameOK_slash]
      simp [hne, replNode, replForest]
    | cons h t =>
      simp only [printNode, List.cons_append, List.nil_append, List.append_assoc, parseElem]
      rw [takeName_append n 62 _ hall nameOK_gt]
      dsimp only
      rw [if_neg hne]
      have hsz : sizeForest (.cons h t) ≤ fuel := by simp [sizeNode] at hf; omega
      have ih := parseForest_print (.cons h t) (60 :: 47 :: (n ++ 62 :: rest)) fuel hks hsz (Or.inr ⟨_, rfl⟩)
      simp only [ih, parseClose]
      rw [takeName_append n 62 _ hall nameOK_gt]
      simp [replNode]
termination_by fuel

theorem parseForest_print (f : Forest) (rest : List Cp) (fuel : Nat)
    (hc : canonForest f = true) (hf : sizeForest f ≤ fuel)
    (hr : rest = [] ∨ ∃ r, rest = 60 :: 47 :: r) :
    parseForest fuel (printForest f ++ rest) = some (replForest f, rest) := by
  have hr' : StartsLT rest := by
    rcases hr with h | ⟨r, h⟩
    · exact Or.inl h
    · exact Or.inr ⟨_, h⟩
  cases fuel with
  | zero => cases f <;> simp [sizeForest] at hf
  | succ fuel =>
    cases f with
    | nil =>
      rcases hr with rfl | ⟨r, rfl⟩
      · simp [printForest, parseForest, replForest]
      · simp [printForest, parseForest, replForest]
    | cons h t =>
      cases h with
      | text s =>
        -- canonical: s ≠ [] and t does not start with a text node
        have hs : s ≠ [] := by
          cases t with
          | nil => simpa [canonForest, canonNode] using hc
          | cons h2 t2 => cases h2 <;> simp_all [canonForest, canonNode]
        have ht : canonForest t = true ∧ notTextHead t = true := by
          cases t with
          | nil => simp [canonForest, notTextHead]
          | cons h2 t2 => cases h2 <;> simp_all [canonForest, canonNode, notTextHead]
        obtain ⟨a, l, hal, ha⟩ := escText_head s hs
        have hst := printForest_startsLT t rest ht.1 ht.2 hr'
        have hpt := parseText_esc_lt s (printForest t ++ rest) hst
        have hsz : sizeForest t ≤ fuel := by simp [sizeForest, sizeNode] at hf; omega
        have ih := parseForest_print t rest fuel ht.1 hsz hr
        simp only [printForest, printNode, List.append_assoc]
        rw [hal] at hpt ⊢
        simp only [List.cons_append] at hpt ⊢
        rw [parseForest_text fuel a _ ha, hpt]
        simp only [ih, replForest, replNode]
      | elem n ks =>
        have hcn : canonNode (.elem n ks) = true ∧ canonForest t = true := by
          cases t with
          | nil => simp_all [canonForest]
          | cons h2 t2 => cases h2 <;> simp_all [canonForest]
        have hsz1 : sizeNode (.elem n ks) ≤ fuel := by simp [sizeForest] at hf; omega
        have hsz2 : sizeForest t ≤ fuel := by simp [sizeForest] at hf; omega
        have ih1 := parseElem_print n ks (printForest t ++ rest) fuel hcn.1 hsz1
        have ih2 := parseForest_print t rest fuel hcn.2 hsz2 hr
        simp only [printForest, List.append_assoc]
        -- the printed element starts with `<` followed by a name character
        have hnm : ∃ c r, n = c :: r ∧ isNameChar c = true := by
          simp only [canonNode, nameOK, Bool.and_eq_true, bne_iff_ne, ne_eq] at hcn
          cases n with
          | nil => simp at hcn
          | cons c r =>
            have h2 := hcn.1.1.2
            simp only [List.all_cons, Bool.and_eq_true] at h2
            exact ⟨c, r, rfl, h2.1⟩
        obtain ⟨c, r, rfl, hcname⟩ := hnm
        have hc47 : c ≠ 47 := by intro h; subst h; simp [isNameChar] at hcname
        have hshape : ∃ r', printNode (.elem (c :: r) ks) ++ (printForest t ++ rest) = 60 :: c :: r' := by
          cases ks <;> simp [printNode]
        obtain ⟨r', hr'2⟩ := hshape
        rw [hr'2] at ih1 ⊢
        rw [parseForest_elem fuel c r' hc47, ih1]
        simp only [ih2, replForest]
termination_by fuel
end

end X

#print axioms X.parseElem_print

import E
namespace Dom

theorem erase_mid (l1 l2 : List Nat) (c : Nat) (h : c ∉ l1) : (l1 ++ c :: l2).erase c = l1 ++ l2 := by
  induction l1 with
  | nil => simp
  | cons a r ih =>
    have hne : a ≠ c := fun e => h (by simp [e])
    have hr : c ∉ r := fun e => h (by simp [e])
    simp [List.erase_cons, hne, ih hr]

theorem removeChild_inv {h h' : Heap} {p c : Nat} (hI : Inv h) (hr : removeChild h p c = some h') :
    Inv h' := by
  have hc : c ∈ (h p).kids := by
    unfold removeChild at hr; split at hr
    · assumption
    · cases hr
  obtain ⟨h'', hr', hk, hpar, hprev, hnext⟩ := removeChild_spec h p c hc
  rw [hr] at hr'; cases hr'
  obtain ⟨l1, l2, hsplit⟩ := List.append_of_mem hc
  have hnd := hI.nodup p
  rw [hsplit] at hnd
  have hnd1 : l1.Nodup := (List.nodup_append.mp hnd).1
  have hnd2' : (c :: l2).Nodup := (List.nodup_append.mp hnd).2.1
  have hnd2 : l2.Nodup := (List.nodup_cons.mp hnd2').2
  have hc2 : c ∉ l2 := (List.nodup_cons.mp hnd2').1
  have hdisj : ∀ a ∈ l1, ∀ b ∈ (c :: l2), a ≠ b := (List.nodup_append.mp hnd).2.2
  have hc1 : c ∉ l1 := fun hm => hdisj c hm c (by simp) rfl
  have hd12 : ∀ a ∈ l1, a ∉ l2 := fun a ha hb => hdisj a ha a (by simp [hb]) rfl
  have herase : (h p).kids.erase c = l1 ++ l2 := by rw [hsplit]; exact erase_mid l1 l2 c hc1
  have hlk := hI.linked p
  rw [hsplit] at hlk
  obtain ⟨hA, hB⟩ := Linked.append.mp hlk
  simp only [List.head?_cons, Option.or_some] at hA
  obtain ⟨hpc, hnc, hC⟩ := hB
  simp only [Option.or_none] at hpc hnc
  -- membership facts
  have hparent_c : (h c).parent = some p := (hI.parent_iff p c).mp hc
  have hmem_p : ∀ x, x ∈ l1 ∨ x ∈ l2 → (h x).parent = some p := by
    intro x hx
    apply (hI.parent_iff p x).mp
    rw [hsplit]; rcases hx with hx | hx <;> simp [hx]
  have hne_c : ∀ x, x ∈ l1 ∨ x ∈ l2 → x ≠ c := by
    intro x hx e; subst e; rcases hx with hx | hx
    · exact hc1 hx
    · exact hc2 hx
  -- siblings named by c's links are children of p
  have hnext_mem : ∀ n, (h c).next = some n → n ∈ l2 := by
    intro n hn; rw [hnc] at hn; exact List.mem_of_mem_head? hn
  have hprev_mem : ∀ z, (h c).prev = some z → z ∈ l1 := by
    intro z hz; rw [hpc] at hz; exact List.mem_of_getLast? hz
  refine ⟨?_, ?_, ?_, ?_, ?_⟩
  · -- nodup
    intro q; rw [hk]; split
    · exact (hI.nodup p).erase c
    · exact hI.nodup q
  · -- parent_iff
    intro q x
    rw [hk, hpar]
    by_cases hq : q = p
    · subst hq
      simp only [if_true]
      rw [(hI.nodup q).mem_erase_iff, hI.parent_iff q x]
      by_cases hx : x = c
      · subst hx; simp
      · simp [hx]
    · simp only [hq, if_false]
      rw [hI.parent_iff q x]
      by_cases hx : x = c
      · subst hx; simp [hparent_c]; exact fun e => hq e.symm
      · simp [hx]
  · -- linked
    intro q
    rw [hk]
    by_cases hq : q = p
    · subst hq
      simp only [if_true, herase]
      apply Linked.append.mpr
      constructor
      · -- l1 segment: last gets next := l2.head?
        simp only [Option.or_none]
        apply Linked.replace_last hA hnd1
        · intro x hx
          have hxl1 : x ∈ l1 := List.mem_of_getLast? hx
          have hxc := hne_c x (Or.inl hxl1)
          rw [hnext, hprev]
          have h1 : (some x = (h c).prev) := by rw [hpc, hx]
          have h2 : ¬ (some x = (h c).next) := by
            intro e; exact hd12 x hxl1 (hnext_mem x e.symm)
          rw [if_neg hxc, if_neg hxc, if_pos h1, if_neg h2]
          exact ⟨hnc, rfl⟩
        · intro x hx hne
          have hxc := hne_c x (Or.inl hx)
          rw [hnext, hprev]
          have h1 : ¬ (some x = (h c).prev) := by rw [hpc]; exact fun e => hne e.symm
          have h2 : ¬ (some x = (h c).next) := by
            intro e; exact hd12 x hx (hnext_mem x e.symm)
          simp [hxc, h1, h2]
      · -- l2 segment: head gets prev := l1.getLast?
        simp only [Option.or_none]
        apply Linked.replace_head hC hnd2
        · intro x hx
          have hxl2 : x ∈ l2 := List.mem_of_mem_head? hx
          have hxc := hne_c x (Or.inr hxl2)
          rw [hnext, hprev]
          have h1 : (some x = (h c).next) := by rw [hnc, hx]
          have h2 : ¬ (some x = (h c).prev) := by
            intro e; exact hd12 x (hprev_mem x e.symm) hxl2
          rw [if_neg hxc, if_neg hxc, if_pos h1, if_neg h2]
          exact ⟨hpc, rfl⟩
        · intro x hx hne
          have hxc := hne_c x (Or.inr hx)
          rw [hnext, hprev]
          have h1 : ¬ (some x = (h c).next) := by rw [hnc]; exact fun e => hne e.symm
          have h2 : ¬ (some x = (h c).prev) := by
            intro e; exact hd12 x (hprev_mem x e.symm) hx
          simp [hxc, h1, h2]
    · simp only [hq, if_false]
      apply Linked.congr (hI.linked q)
      intro x hx
      have hxq : (h x).parent = some q := (hI.parent_iff q x).mp hx
      have hxc : x ≠ c := by intro e; subst e; rw [hparent_c] at hxq; exact hq (Option.some.inj hxq).symm
      have h1 : ¬ (some x = (h c).next) := by
        intro e
        have := hmem_p x (Or.inr (hnext_mem x e.symm))
        rw [this] at hxq; exact hq (Option.some.inj hxq).symm
      have h2 : ¬ (some x = (h c).prev) := by
        intro e
        have := hmem_p x (Or.inl (hprev_mem x e.symm))
        rw [this] at hxq; exact hq (Option.some.inj hxq).symm
      rw [hnext, hprev]; simp [hxc, h1, h2]
  · -- detached
    intro x hx
    rw [hpar] at hx
    rw [hprev, hnext]
    by_cases hxc : x = c
    · simp [hxc]
    · simp only [hxc, if_false] at hx ⊢
      have h1 : ¬ (some x = (h c).next) := by
        intro e
        have := hmem_p x (Or.inr (hnext_mem x e.symm))
        rw [this] at hx; cases hx
      have h2 : ¬ (some x = (h c).prev) := by
        intro e
        have := hmem_p x (Or.inl (hprev_mem x e.symm))
        rw [this] at hx; cases hx
      simp [h1, h2, hI.detached x hx]
  · -- irrefl
    intro q hq
    rw [hk] at hq
    split at hq
    · subst_vars; exact hI.irrefl _ (List.mem_of_mem_erase hq)
    · exact hI.irrefl q hq

#print axioms removeChild_inv
end Dom

import sys
sys.path.insert(0,'/repo')
import odf.grammar as g
DB='urn:oasis:names:tc:opendocument:xmlns:database:1.0'
rows = {}
def ql(s): return set(tuple(x.split('|')) for x in s.split(',') if x)
for line in open('table2.txt'):
    parts = line.rstrip('\n').split('\t')
    if len(parts)!=5 or '|' not in parts[0]: continue
    k = tuple(parts[0].split('|'))
    if k[0]==DB or k[0]=='?': continue
    rows.setdefault(k, []).append((parts[1]=='true', ql(parts[2]), ql(parts[3]), ql(parts[4])))
nd=0
for k,v in sorted(rows.items()):
    ch=set().union(*[p[1] for p in v]); ch={c for c in ch if c[0]!=DB}
    tch=g.allowed_children.get(k)
    anyc = ('?','*') in ch
    if tch is None:
        if not anyc: print('CH', k[1], 'table None but schema specific'); nd+=1
        continue
    tch=set(tch)
    if anyc: print('CH', k[1], 'schema any, table specific', len(tch)); nd+=1; continue
    if ch!=tch:
        nd+=1; print('CH', k[0].split(':')[-2], k[1], 'schema-only', sorted(a[1] for a in ch-tch)[:8], 'table-only', sorted(a[1] for a in tch-ch)[:8])
print('children diffs', nd)
nd=0
for k,v in sorted(rows.items()):
    req=set.intersection(*[p[2] for p in v]); treq=set(g.required_attributes.get(k,()))
    if req!=treq:
        nd+=1; print('REQ', k[1], 'schema-only', sorted(a[1] for a in req-treq), 'table-only', sorted(a[1] for a in treq-req), len(v))
print('required diffs', nd)
nd=0
for k,v in sorted(rows.items()):
    al=set().union(*[p[3] for p in v]); tal=g.allowed_attributes.get(k)
    anya=('?','*') in al
    if tal is None:
        if not anya: nd+=1; print('ATT',k[1],'table None schema specific')
        continue
    tal=set(tal)
    if anya: nd+=1; print('ATT', k[1], 'schema any; table specific'); continue
    if al!=tal:
        nd+=1; print('ATT', k[1], 'schema-only', sorted(a[1] for a in al-tal)[:8], 'table-only', sorted(a[1] for a in tal-al)[:8])
print('allowed attr diffs', nd)

import X
namespace X

mutual
inductive Node where
  | text (s : List Cp)
  | elem (name : List Cp) (kids : Forest)
inductive Forest where
  | nil
  | cons (h : Node) (t : Forest)
end

mutual
def printNode : Node → List Cp
  | .text s => escText s
  | .elem n .nil => [60] ++ n ++ [47, 62]
  | .elem n (.cons h t) => [60] ++ n ++ [62] ++ printForest (.cons h t) ++ [60, 47] ++ n ++ [62]
def printForest : Forest → List Cp
  | .nil => []
  | .cons h t => printNode h ++ printForest t
end

mutual
def replNode : Node → Node
  | .text s => .text (s.map repl)
  | .elem n ks => .elem n (replForest ks)
def replForest : Forest → Forest
  | .nil => .nil
  | .cons h t => .cons (replNode h) (replForest t)
end

def nameOK (n : List Cp) : Bool := n != [] && n.all isNameChar

mutual
def canonNode : Node → Bool
  | .text s => s != []
  | .elem n ks => nameOK n && canonForest ks
def canonForest : Forest → Bool
  | .nil => true
  | .cons (.text s) (.cons (.text s2) t) => false
  | .cons h t => canonNode h && canonForest t
end

mutual
def sizeNode : Node → Nat
  | .text _ => 1
  | .elem _ ks => 1 + sizeForest ks
def sizeForest : Forest → Nat
  | .nil => 1
  | .cons h t => 1 + sizeNode h + sizeForest t
end

def takeName (l : List Cp) : List Cp × List Cp := (l.takeWhile isNameChar, l.dropWhile isNameChar)

/-- expects `</name>` -/
def parseClose (n : List Cp) (l : List Cp) : Option (List Cp) :=
  match l with
  | 60 :: 47 :: r =>
    let (m, r') := takeName r
    if m = n then match r' with
      | 62 :: r'' => some r''
      | _ => none
    else none
  | _ => none

mutual
/-- spec parser: element -/
def parseElem : Nat → List Cp → Option (Node × List Cp)
  | 0, _ => none
  | fuel+1, 60 :: r =>
    let (n, r1) := takeName r
    if n = [] then none else
    match r1 with
    | 47 :: 62 :: r2 => some (.elem n .nil, r2)
    | 62 :: r2 =>
      match parseForest fuel r2 with
      | none => none
      | some (ks, r3) =>
        match parseClose n r3 with
        | none => none
        | some r4 => some (.elem n ks, r4)
    | _ => none
  | _, _ => none
/-- spec parser: content up to (not including) a close tag or end of input -/
def parseForest : Nat → List Cp → Option (Forest × List Cp)
  | 0, _ => none
  | _, [] => some (.nil, [])
  | fuel+1, 60 :: 47 :: r => some (.nil, 60 :: 47 :: r)
  | fuel+1, 60 :: r =>
    match parseElem fuel (60 :: r) with
    | none => none
    | some (e, r1) =>
      match parseForest fuel r1 with
      | none => none
      | some (f, r2) => some (.cons e f, r2)
  | fuel+1, c :: r =>
    match parseText (c :: r) with
    | none => none
    | some (t, r1) =>
      match parseForest fuel r1 with
      | none => none
      | some (f, r2) => some (.cons (.text t) f, r2)
end

end X

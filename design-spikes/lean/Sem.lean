import Schema
abbrev QN := Nat × Nat

def ncNames : NC → Nat → List QN
  | _, 0 => []
  | .name q, _ => [q]
  | .any, _ => [(999999, 999999)]
  | .choice l, f+1 => l.flatMap (fun n => ncNames n f)

def dedup (l : List QN) : List QN := l.foldl (fun acc x => if acc.contains x then acc else acc ++ [x]) []

/-- all element patterns occurring anywhere: (nameclass, content) -/
def elemsIn : Nat → P → List (NC × P)
  | 0, _ => []
  | f+1, .element nc p => (nc, p) :: elemsIn f p
  | f+1, .attribute _ _ => []
  | f+1, .group l | f+1, .interleave l | f+1, .choice l => l.flatMap (elemsIn f)
  | f+1, .optional p | f+1, .zeroOrMore p | f+1, .oneOrMore p | f+1, .mixed p | f+1, .list p => elemsIn f p
  | _, _ => []

def allElems : List (NC × P) := defs.toList.flatMap (elemsIn 50)

def mayElems : Nat → P → List QN
  | 0, _ => []
  | f+1, .ref n => mayElems f (defs[n]?.getD .empty)
  | f+1, .element nc _ => ncNames nc 10
  | f+1, .group l | f+1, .interleave l | f+1, .choice l => l.flatMap (mayElems f)
  | f+1, .optional p | f+1, .zeroOrMore p | f+1, .oneOrMore p | f+1, .mixed p => mayElems f p
  | _, _ => []

def mayText : Nat → P → Bool
  | 0, _ => false
  | f+1, .ref n => mayText f (defs[n]?.getD .empty)
  | f+1, .group l | f+1, .interleave l | f+1, .choice l => l.any (mayText f)
  | f+1, .optional p | f+1, .zeroOrMore p | f+1, .oneOrMore p => mayText f p
  | _, .mixed _ => true
  | _, .text => true
  | _, .data _ _ => true
  | _, .value _ => true
  | _, .list _ => true
  | _, _ => false

def mustAttrs : Nat → P → List QN
  | 0, _ => []
  | f+1, .ref n => mustAttrs f (defs[n]?.getD .empty)
  | f+1, .attribute (.name q) _ => [q]
  | f+1, .group l | f+1, .interleave l => l.flatMap (mustAttrs f)
  | f+1, .choice l => match l.map (mustAttrs f) with
      | [] => []
      | a :: rest => rest.foldl (fun acc b => acc.filter b.contains) a
  | f+1, .oneOrMore p | f+1, .mixed p => mustAttrs f p
  | _, _ => []

def mayAttrs : Nat → P → List QN
  | 0, _ => []
  | f+1, .ref n => mayAttrs f (defs[n]?.getD .empty)
  | f+1, .attribute nc _ => ncNames nc 10
  | f+1, .group l | f+1, .interleave l | f+1, .choice l => l.flatMap (mayAttrs f)
  | f+1, .optional p | f+1, .zeroOrMore p | f+1, .oneOrMore p | f+1, .mixed p => mayAttrs f p
  | _, _ => []

def showQ (q : QN) : String := s!"{strs[q.1]?.getD "?"}|{strs[q.2]?.getD "*"}"

def table : List (QN × List QN × Bool × List QN × List QN) :=
  allElems.flatMap fun (nc, p) => (ncNames nc 10).map fun q =>
    (q, dedup (mayElems 60 p), mayText 60 p, dedup (mustAttrs 60 p), dedup (mayAttrs 60 p))

def mainOld : IO Unit := do
  IO.println s!"{allElems.length} element patterns"
  for (q, ch, t, req, al) in table do
    IO.println s!"{showQ q}\t{t}\t{ch.length}\t{req.map showQ}\t{al.length}"

import Grammar
def DBNS : Nat := (strs.toList.idxOf "urn:oasis:names:tc:opendocument:xmlns:database:1.0")
def schemaElems : List QN := (table.map (·.1)).filter (fun q => q.1 != DBNS && q.1 != 999999)
def schemaText (q : QN) : Bool := table.any (fun r => r.1 == q && r.2.2.1)
/-- every schema element (outside db:) allows text iff the library table says so -/
def textCheck : Bool := schemaElems.all (fun q => schemaText q == gAllowsText.contains q)
set_option maxRecDepth 100000 in
theorem allows_text_matches : textCheck = true := by decide +kernel
#print axioms allows_text_matches

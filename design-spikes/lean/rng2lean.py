import sys, xml.dom.minidom as md
RNG="http://relaxng.org/ns/structure/1.0"
doc = md.parse('/repo/grammar/OpenDocument-schema-v1.2-cd04.rng')
root = doc.documentElement
nsmap = {'xml':'http://www.w3.org/XML/1998/namespace'}
for k,v in root.attributes.items():
    if k.startswith('xmlns:'): nsmap[k[6:]] = v
names = {}   # define name -> id
def did(n):
    if n not in names: names[n] = len(names)
    return names[n]
strs = {}
def sid(s):
    if s not in strs: strs[s] = len(strs)
    return strs[s]
def kids(e): return [c for c in e.childNodes if c.nodeType==1]
def seq(tag, es):
    es=[conv(x) for x in es]
    if len(es)==1: return es[0]
    return "(.%s [%s])" % (tag, ", ".join(es))
def qn(s):
    if ':' in s:
        p,l = s.split(':',1); return "(%d, %d)" % (sid(nsmap[p]), sid(l))
    return "(%d, %d)" % (sid(''), sid(s))
def nameclass(e):
    # returns Lean NameClass
    if e.hasAttribute('name'): return ".name %s" % qn(e.getAttribute('name')), kids(e)
    ks = kids(e); nc = ks[0]; rest = ks[1:]
    return "(%s)" % nc_conv(nc), rest
def nc_conv(nc):
    t = nc.localName
    if t=='name': return ".name %s" % qn(nc.firstChild.data.strip())
    if t=='anyName': return ".any"
    if t=='choice': return ".choice [%s]" % ", ".join("(%s)"%nc_conv(k) for k in kids(nc))
    if t=='nsName': return ".any"
    raise Exception(t)
def conv(e):
    t = e.localName
    if t=='ref': return "(.ref %d)" % did(e.getAttribute('name'))
    if t=='element':
        nc, rest = nameclass(e); return "(.element (%s) %s)" % (nc, seq('group', rest))
    if t=='attribute':
        nc, rest = nameclass(e); return "(.attribute (%s) %s)" % (nc, seq('group', rest) if rest else '.text')
    if t in ('group','interleave','choice'): return seq(t, kids(e))
    if t=='optional': return "(.optional %s)" % seq('group', kids(e))
    if t=='zeroOrMore': return "(.zeroOrMore %s)" % seq('group', kids(e))
    if t=='oneOrMore': return "(.oneOrMore %s)" % seq('group', kids(e))
    if t=='mixed': return "(.mixed %s)" % seq('group', kids(e))
    if t=='list': return "(.list %s)" % seq('group', kids(e))
    if t=='empty': return ".empty"
    if t=='text': return ".text"
    if t=='notAllowed': return ".notAllowed"
    if t=='value': return "(.value %d)" % sid(e.firstChild.data if e.firstChild else '')
    if t=='data':
        pat = [p.firstChild.data for p in kids(e) if p.localName=='param' and p.getAttribute('name')=='pattern']
        return "(.data %d %s)" % (sid(e.getAttribute('type')), "(some %d)"%sid(pat[0]) if pat else "none")
    raise Exception(t)
defs = {}
for d in kids(root):
    if d.localName=='define':
        i = did(d.getAttribute('name')); body = seq('group', kids(d)); comb = d.getAttribute('combine') or 'none'
        defs.setdefault(i, []).append((comb, body))
    elif d.localName=='start': startbody = seq('group', kids(d))
out = ["""inductive NC where | name (q : Nat × Nat) | any | choice (l : List NC)
inductive P where
  | ref (n : Nat) | element (nc : NC) (p : P) | attribute (nc : NC) (p : P)
  | group (l : List P) | interleave (l : List P) | choice (l : List P)
  | optional (p : P) | zeroOrMore (p : P) | oneOrMore (p : P) | mixed (p : P) | list (p : P)
  | empty | text | notAllowed | value (s : Nat) | data (t : Nat) (pat : Option Nat)
"""]
for i in sorted(defs):
    parts = defs[i]
    combs = {c for c,_ in parts if c!='none'}
    if len(parts)==1: body = parts[0][1]
    else:
        tag = 'choice' if 'choice' in combs else 'interleave'
        body = "(.%s [%s])" % (tag, ", ".join(b for _,b in parts))
    out.append("def d%d : P := %s" % (i, body))
out.append("def defs : Array P := #[%s]" % ", ".join("d%d"%i for i in range(len(names))))
out.append("def strs : Array String := #[%s]" % ", ".join('"%s"' % s.replace('\\','\\\\').replace('"','\\"') for s in strs))
open('Schema.lean','w').write("\n".join(out)+"\n")
print(len(names), 'defines', len(strs), 'strings', sum(len(x) for x in out), 'bytes')
missing = [n for n in names if names[n] not in defs]; print('undefined refs', missing[:5])

import D
namespace Dom

/-- nodes of `l` keep prev/next except that the head's prev becomes `pr'` -/
theorem Linked.replace_head {h h' : Heap} {pr pr' l nx} (hl : Linked h pr l nx) (hnd : l.Nodup)
    (hhead : ∀ x, l.head? = some x → (h' x).prev = pr' ∧ (h' x).next = (h x).next)
    (hrest : ∀ x ∈ l, l.head? ≠ some x → (h' x).prev = (h x).prev ∧ (h' x).next = (h x).next) :
    Linked h' pr' l nx := by
  cases l with
  | nil => trivial
  | cons a r =>
    obtain ⟨h1, h2, h3⟩ := hl
    have ha := hhead a rfl
    refine ⟨ha.1, by rw [ha.2, h2], Linked.congr h3 ?_⟩
    intro x hx
    have hxa : x ≠ a := by
      intro e; subst e
      exact (List.nodup_cons.mp hnd).1 hx
    exact hrest x (by simp [hx]) (by simp [hxa.symm])

/-- nodes of `l` keep prev/next except that the last one's next becomes `nx'` -/
theorem Linked.replace_last {h h' : Heap} {pr l nx nx'} (hl : Linked h pr l nx) (hnd : l.Nodup)
    (hlast : ∀ x, l.getLast? = some x → (h' x).next = nx' ∧ (h' x).prev = (h x).prev)
    (hrest : ∀ x ∈ l, l.getLast? ≠ some x → (h' x).prev = (h x).prev ∧ (h' x).next = (h x).next) :
    Linked h' pr l nx' := by
  induction l generalizing pr with
  | nil => trivial
  | cons a r ih =>
    obtain ⟨h1, h2, h3⟩ := hl
    cases r with
    | nil =>
      have ha := hlast a rfl
      exact ⟨by rw [ha.2, h1], by simpa using ha.1, trivial⟩
    | cons b r' =>
      have hnd' := (List.nodup_cons.mp hnd)
      have hane : (a :: b :: r').getLast? ≠ some a := by
        intro e
        have : a ∈ (b :: r') := by
          have := List.mem_of_getLast? (l := b :: r') (a := a) (by simpa [List.getLast?_cons_cons] using e)
          exact this
        exact hnd'.1 this
      have ha := hrest a (by simp) hane
      refine ⟨by rw [ha.1, h1], by rw [ha.2, h2]; simp, ih h3 hnd'.2 ?_ ?_⟩
      · intro x hx; exact hlast x (by simpa [List.getLast?_cons_cons] using hx)
      · intro x hx hne
        exact hrest x (List.mem_cons_of_mem _ hx) (by simpa [List.getLast?_cons_cons] using hne)

end Dom

import Sp
open WS
def showNode : Node → String
  | .text s => "T" ++ toString (s.map Char.toNat)
  | .sp n => "S" ++ toString n
  | .tab => "TAB"
  | .lb => "LB"
partial def loop (h : IO.FS.Stream) : IO Unit := do
  let line ← h.getLine
  if line.isEmpty then return ()
  let cps := (line.trimAscii.toString.splitOn " ").filterMap String.toNat?
  let s := cps.map Char.ofNat
  IO.println (String.intercalate " " ((enc [] s).map showNode))
  loop h
def main : IO Unit := do loop (← IO.getStdin)

import io, zipfile
from odf import text, element, style, draw, number, table
from odf.opendocument import OpenDocumentText, OpenDocumentSpreadsheet, load
d = OpenDocumentSpreadsheet()
ns = number.NumberStyle(name='N1'); ns.addElement(number.Number(decimalplaces=2, minintegerdigits=1)); d.automaticstyles.addElement(ns)
cs = style.Style(name='ce1', family='table-cell', datastylename='N1'); d.automaticstyles.addElement(cs)
t = table.Table(name='T'); t.addElement(table.TableColumn()); r = table.TableRow(); t.addElement(r); r.addElement(table.TableCell(stylename='ce1')); d.spreadsheet.addElement(t)
c = d.contentxml().decode()
print('ce1 in content', 'style:name="ce1"' in c, 'N1 in content', 'style:name="N1"' in c)
# transitive: ce1 -> N1 : _parseoneelement scans self.styles, self.automaticstyles, self.body -> automaticstyles scanned, so data-style-name found (1 level "transitively" since all auto styles are scanned, even unreferenced ones' refs)
# reference attr not in list: text:list with text:style-name OK. draw:master-page-name? table:cell default?  text:citation-style-name
d = OpenDocumentText()
st = style.Style(name='T9', family='text'); d.automaticstyles.addElement(st)
# text:note-class config citation-style-name; simpler: text:a visited-style-name
a = text.A(href='http://x', visitedstylename='T9', text='l'); p = text.P(); p.addElement(a); d.text.addElement(p)
c = d.contentxml().decode(); print('visited-style-name ref kept?', 'style:name="T9"' in c)
# master page referencing auto style -> styles.xml
d = OpenDocumentText()
pl = style.PageLayout(name='pm1'); d.automaticstyles.addElement(pl)
ps = style.Style(name='MP1', family='paragraph'); d.automaticstyles.addElement(ps)
mp = style.MasterPage(name='Standard', pagelayoutname='pm1'); d.masterstyles.addElement(mp)
h = style.Header(); mp.addElement(h); h.addElement(text.P(stylename='MP1', text='hdr'))
s = d.stylesxml(); c = d.contentxml().decode()
print('styles has pm1', 'style:name="pm1"' in s, 'MP1', 'style:name="MP1"' in s, '| content has MP1 (unneeded)', 'style:name="MP1"' in c)
# style used in both

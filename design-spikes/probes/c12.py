import io, zipfile
from odf import text, element, style, draw, number, table, dc, meta, config
from odf.opendocument import OpenDocumentText, OpenDocumentSpreadsheet, load
d = OpenDocumentText()
d.meta.addElement(dc.Title(text='T'))
ci = config.ConfigItemSet(name='ooo:view-settings'); d.settings.addElement(ci)
d.text.addElement(text.P(text='hi'))
x1 = d.xml()
m1 = d.metaxml()
x2 = d.xml()
print('xml same after metaxml?', x1==x2, len(x1), len(x2), b'dc:title' in x2)
s1 = d.settingsxml(); x3 = d.xml(); print('settings in xml after settingsxml', b'config-item-set' in x3)
m2 = d.metaxml(); print('metaxml repeat same', m1==m2)
print(d.meta.parentNode.qname[1], d.settings.parentNode.qname[1], [c.qname[1] for c in d.topnode.childNodes])
print('gens', len(d.getElementsByType(meta.Generator)), m2.count('<meta:generator'))

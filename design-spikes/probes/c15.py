from odf import draw, text, style, table, number
from odf.element import Element
from odf.namespaces import *
def tryset(ns, name, val, q=(TEXTNS,'p')):
    e = Element(qname=q, check_grammar=False)
    try:
        e.setAttrNS(ns,name,val); return e.getAttrNS(ns,name)
    except Exception as ex: return 'EXC %s %s'%(type(ex).__name__, ex)
print(tryset(DRAWNS,'name','My Shape 1', (DRAWNS,'rect')))        # NCName mangled? draw:name is string in schema
print(tryset(SVGNS,'width','12cmXYZ'))   # prefix-only match
print(tryset(SVGNS,'width','1e3cm'))
print(tryset(SVGNS,'width','12.5em'))
print(tryset(FONS,'margin-left','5%junk'))
print(tryset(DRAWNS,'points','1,2 3,4junk'))
print(tryset(DRAWNS,'points','1.5,2.5 3,4'))
print(tryset(SVGNS,'viewBox','0 0 10 10junk'))
print(tryset(SVGNS,'viewBox','0 0 10.5 10'))
print(tryset(FONS,'language','en-US!!'))
print(tryset(TEXTNS,'display','TRUE'))
print(tryset(TABLENS,'protected','yes'))
print(tryset(STYLENS,'family','font'))  # hmm? schema families
print(tryset(STYLENS,'name','a b:c'))
print(tryset(FONS,'font-size','12pt'), tryset(FONS,'font-size','120%'))
print(tryset(FONS,'line-height','normal'))
print(tryset(FONS,'text-indent','-0.5in'))
print(tryset(SVGNS,'x','+5cm'))
print(tryset(TEXTNS,'c',5), tryset(TEXTNS,'c','5'))
print(tryset(XLINKNS,'type','locator'))
print(tryset(CHARTNS,'class','chart:bar junk'))

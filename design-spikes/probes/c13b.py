import io, zipfile, sys, os
from odf.opendocument import OpenDocumentText, OpenDocumentSpreadsheet, load
from odf import text
from odf.odfmanifest import manifestlist
open('/tmp/exp/canary.txt','w').write('CANARY_TOKEN_1234')
d = OpenDocumentText(); d.text.addElement(text.P(text='hello'))
from odf import config
d.settings.addElement(config.ConfigItemSet(name='x'))
sub = OpenDocumentSpreadsheet(); sub.settings.addElement(config.ConfigItemSet(name='y')); d.addObject(sub)
b = io.BytesIO(); d.save(b)
def mutate(raw, member, fn):
    zin = zipfile.ZipFile(io.BytesIO(raw)); out = io.BytesIO(); zout = zipfile.ZipFile(out,'w')
    for zi in zin.infolist():
        data = zin.read(zi.filename)
        if zi.filename == member: data = fn(data)
        zout.writestr(zi, data)
    zout.close(); return out.getvalue()
kinds = {
 'internal-unused': '<!DOCTYPE x [<!ENTITY e "EXPANDED">]>',
 'external-general': '<!DOCTYPE x [<!ENTITY e SYSTEM "file:///tmp/exp/canary.txt">]>',
 'external-param': '<!DOCTYPE x [<!ENTITY % p SYSTEM "file:///tmp/exp/canary.txt"> %p;]>',
 'external-dtd': '<!DOCTYPE x SYSTEM "file:///tmp/exp/canary.txt">',
 'doctype-only': '<!DOCTYPE x>',
}
def inj(k):
    def f(data):
        s = data.decode(); i = s.index('?>')+2
        return (s[:i] + kinds[k] + s[i:]).encode()
    return f
from odf.odf2moinmoin import ODF2MoinMoin
from odf.odf2xhtml import ODF2XHTML
from odf.userfield import UserFields
members = [n for n in zipfile.ZipFile(io.BytesIO(b.getvalue())).namelist() if n.endswith('.xml')]
print(members)
for k in kinds:
    for m in members:
        raw = mutate(b.getvalue(), m, inj(k))
        res=[]
        for name, fn in (('load', lambda r: load(io.BytesIO(r))), ('xhtml', lambda r: ODF2XHTML().odf2xhtml(io.BytesIO(r))), ('uf', lambda r: UserFields(io.BytesIO(r)).list_fields()), ('manifest', lambda r: manifestlist(zipfile.ZipFile(io.BytesIO(r)).read('META-INF/manifest.xml')))):
            try:
                sys.stdout = io.StringIO()
                try: out = fn(raw)
                finally: sys.stdout = sys.__stdout__
                res.append(name+':noexc')
            except Exception as e: res.append(name+':'+type(e).__name__)
        print('%-18s %-28s %s' % (k, m, ' '.join(res)))

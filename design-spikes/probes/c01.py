import io, sys
from xml.parsers import expat
from odf import text, element
from odf.opendocument import OpenDocumentText
def parse_ok(s):
    p = expat.ParserCreate(namespace_separator=' ')
    try:
        p.Parse(s.encode('utf-8') if isinstance(s,str) else s, True); return True
    except Exception as e:
        return repr(e)
def ser(e):
    f = io.StringIO(); e.toXml(0,f); return f.getvalue()
for label, s in [('cr','a\rb'),('tab','a\tb'),('nl','a\nb'),('ctl','a\x01b'),('quote','a"b\'c'),('fffe','a￾b'),('sur','a\ud800b'),(']]>','a]]>b'), ('astral','a\U0001F600b'), ('7f', 'a\x7fb'), ('85','a\x85b')]:
    p = text.P(text=s)
    out = ser(p)
    print(label,'text', parse_ok(out), repr(out[-40:]))
    p = text.P(); p.addCDATA(s)
    try:
        out = ser(p); print(label,'cdata', parse_ok(out), repr(out[-40:]))
    except Exception as e: print(label,'cdata EXC',e)
    p = text.P(stylename=s) if False else text.P()
    p.setAttrNS('urn:foo','bar',s)
    out = ser(p)
    print(label,'attr', parse_ok(out), repr(out[-60:]))

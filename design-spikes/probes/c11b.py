import io, zipfile, re
from odf.opendocument import OpenDocumentPresentation, OpenDocumentText, load
from odf import text, style, draw, presentation
# Build a package by hand-editing: content.xml has gr1 (marker A), styles.xml has gr1 (marker B) referenced by a master-page shape via draw:style-name
d = OpenDocumentText()
s_body = style.Style(name='gr1', family='graphic'); s_body.addElement(style.GraphicProperties(fillcolor='#aaaaaa')); d.automaticstyles.addElement(s_body)
p = text.P(); fr = draw.Frame(stylename=s_body, width='1cm', height='1cm', anchortype='paragraph'); fr.addElement(draw.TextBox()); p.addElement(fr); d.text.addElement(p)
pl = style.PageLayout(name='pm1'); d.automaticstyles.addElement(pl)
mp = style.MasterPage(name='Standard', pagelayoutname='pm1'); d.masterstyles.addElement(mp)
b = io.BytesIO(); d.save(b)
z = zipfile.ZipFile(io.BytesIO(b.getvalue()))
styles = z.read('styles.xml').decode()
# inject into styles.xml automatic-styles a second gr1 (marker B) and a header frame referencing it
styles = styles.replace('<office:automatic-styles>', '<office:automatic-styles><style:style style:name="gr1" style:family="graphic"><style:graphic-properties draw:fill-color="#bbbbbb"/></style:style>')
styles = styles.replace('<style:master-page style:name="Standard" style:page-layout-name="pm1" style:display-name="Standard"/>', '<style:master-page style:name="Standard" style:page-layout-name="pm1"><style:header><text:p><draw:frame draw:style-name="gr1" svg:width="1cm" svg:height="1cm"><draw:text-box/></draw:frame></text:p></style:header></style:master-page>')
out = io.BytesIO(); zo = zipfile.ZipFile(out,'w')
for zi in z.infolist():
    data = z.read(zi.filename)
    if zi.filename=='styles.xml': data = styles.encode()
    zo.writestr(zi, data)
zo.close()
d2 = load(io.BytesIO(out.getvalue()))
print('fix map', d2._styles_ooo_fix)
b2 = io.BytesIO(); d2.save(b2); z2 = zipfile.ZipFile(io.BytesIO(b2.getvalue()))
s2 = z2.read('styles.xml').decode(); c2 = z2.read('content.xml').decode()
print('styles.xml auto styles:', re.findall(r'<style:style [^>]*>', s2[s2.index('<office:automatic-styles'):s2.index('</office:automatic-styles>')]))
print('header frame ref:', re.findall(r'<draw:frame [^>]*>', s2))
print('content auto styles:', re.findall(r'<style:style [^>]*>', c2))
print('colors in styles.xml autos', re.findall(r'fill-color="([^"]*)"', s2))

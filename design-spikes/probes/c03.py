import io, zipfile
from odf import text, element, style, draw
from odf.opendocument import OpenDocumentText, OpenDocumentSpreadsheet, load
from odf.odfmanifest import manifestlist
def dump(d):
    b = io.BytesIO(); d.save(b); z = zipfile.ZipFile(io.BytesIO(b.getvalue()))
    names = z.namelist()
    m = manifestlist(z.read('META-INF/manifest.xml'))
    print('zip:', names); print('manifest:', {k:v['media-type'] for k,v in m.items()})
    zi = z.infolist()[0]; print('first', zi.filename, zi.compress_type, zi.extra, z.read('mimetype'))
    return b.getvalue()
d = OpenDocumentText()
sub = OpenDocumentSpreadsheet()
ref = d.addObject(sub); print('ref', ref)
h1 = d.addPictureFromString(b'PNGDATA', 'image/png')
h2 = sub.addPictureFromString(b'SUBPNG', 'image/png')
sub2 = OpenDocumentText(); ref2 = sub.addObject(sub2); print('ref2', ref2)
ref3 = d.addObject(OpenDocumentText(), 'MyObj'); print('ref3', ref3)
d.addThumbnail(b'thumb')
raw = dump(d)
d2 = load(io.BytesIO(raw))
print([c.folder for c in d2.childobjects], d2.Pictures.keys(), [e.filename for e in d2._extra])
raw2 = dump(d2)

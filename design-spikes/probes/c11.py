import io, zipfile
from odf.opendocument import load
from odf import text, style
d = load('/repo/tests/examples/headerfooter.odt')
print(d._styles_ooo_fix)

from odf import text, element, style
from odf.opendocument import OpenDocumentText
def walk(n, q, acc):
    if n.nodeType==1:
        if n.qname==q: acc.append(n)
        for c in n.childNodes: walk(c,q,acc)
    return acc
def check(d, label):
    for fac in (text.P, text.Span, style.Style, text.H):
        q = fac(check_grammar=False).qname
        got = d.getElementsByType(fac); exp = walk(d.topnode,q,[])
        if sorted(map(id,got))!=sorted(map(id,exp)) :
            print(label, 'MISMATCH', q[1], len(got), len(exp))
d = OpenDocumentText()
p = text.P(text='x'); d.text.addElement(p); check(d,'add')
s = text.Span(text='y'); p.addElement(s); check(d,'add nested')
# appendChild on attached parent: no cache update
s2 = text.Span(); p.appendChild(s2); check(d,'appendChild attached')
# insertBefore
s3 = text.Span(); p.insertBefore(s3, s); check(d,'insertBefore attached')
d = OpenDocumentText()
p = text.P(); d.text.addElement(p); s=text.Span(); p.addElement(s)
d.text.removeChild(p); check(d,'removed subtree')
# add to removed subtree
s4=text.Span(); p.addElement(s4); check(d,'add to removed subtree')
print('p.ownerDocument after removal', p.ownerDocument is d)
d.text.addElement(p); check(d,'re-add')
# move with addElement between attached parents
q = text.P(); d.text.addElement(q); q.addElement(s); check(d,'move via addElement')
# save then query
import io
d.save(io.BytesIO()); check(d,'after save')
print('meta owner', d.meta.ownerDocument, d.meta.parentNode.qname if d.meta.parentNode else None)
x = d.xml(); print(b'office:meta' in x, b'office:settings' in x)
# style lookups
d = OpenDocumentText()
st = style.Style(name='S1', family='paragraph'); d.styles.addElement(st)
print('byname', d.getStyleByName('S1') is st)
d.styles.removeChild(st)
try: print('after removal', d.getStyleByName('S1'))
except AssertionError: print('getStyleByName asserts on missing')
st2 = style.Style(name='S1', family='paragraph'); d.automaticstyles.addElement(st2)
try: print('auto', d.getStyleByName('S1') is st2, st2.getAttribute('name'))
except AssertionError: print('assert')
# rename after add
st2.setAttribute('name','S9')
try: print('renamed lookup', d.getStyleByName('S9'))
except AssertionError: print('assert: renamed style not found')

import io, zipfile, sys
from odf.opendocument import OpenDocumentText, OpenDocumentSpreadsheet, load
from odf import text
d = OpenDocumentText(); d.text.addElement(text.P(text='hello'))
sub = OpenDocumentSpreadsheet(); d.addObject(sub)
b = io.BytesIO(); d.save(b)
def mutate(raw, member, fn):
    zin = zipfile.ZipFile(io.BytesIO(raw)); out = io.BytesIO(); zout = zipfile.ZipFile(out,'w')
    for zi in zin.infolist():
        data = zin.read(zi.filename)
        if zi.filename == member: data = fn(data)
        zout.writestr(zi, data)
    zout.close(); return out.getvalue()
def inject(data):
    s = data.decode()
    i = s.index('?>')+2
    return (s[:i] + '<!DOCTYPE x [<!ENTITY e "EXPANDED">]>' + s[i:]).encode()
for member in ['content.xml','Object 1/content.xml','Object 1/styles.xml','META-INF/manifest.xml']:
    raw = mutate(b.getvalue(), member, inject)
    try:
        load(io.BytesIO(raw)); print(member, 'load: NO EXCEPTION')
    except Exception as e: print(member, 'load:', type(e).__name__)
raw = mutate(b.getvalue(), 'content.xml', inject)
open('/tmp/exp/ent.odt','wb').write(raw)
from odf.odf2moinmoin import ODF2MoinMoin
try:
    print(ODF2MoinMoin('/tmp/exp/ent.odt').toString()[:50]); print('moinmoin: NO EXCEPTION')
except Exception as e: print('moinmoin', type(e).__name__, e)
from odf.odf2xhtml import ODF2XHTML
try: ODF2XHTML().odf2xhtml('/tmp/exp/ent.odt'); print('xhtml NO EXC')
except Exception as e: print('xhtml', type(e).__name__)
from odf.userfield import UserFields
try: UserFields('/tmp/exp/ent.odt').list_fields(); print('uf NO EXC')
except Exception as e: print('uf', type(e).__name__)

from odf import text, element, style
from odf.opendocument import OpenDocumentText
def links_ok(n):
    cs = n.childNodes
    for i,c in enumerate(cs):
        assert c.parentNode is n, ('parent', i)
        assert c.previousSibling is (cs[i-1] if i else None), ('prev', i)
        assert c.nextSibling is (cs[i+1] if i+1<len(cs) else None), ('next', i)
# C08
a=text.P(); x=text.Span(); y=text.Span(); z=text.Span()
a.appendChild(x); a.appendChild(y); a.appendChild(z)
links_ok(a)
a.removeChild(y); links_ok(a); print('y detached', y.parentNode, y.nextSibling, y.previousSibling)
a.insertBefore(y, x); links_ok(a)
a.insertBefore(z, y); links_ok(a); print([id(c)==id(z) for c in a.childNodes])
# move via appendChild within same parent
a.appendChild(z); 
try: links_ok(a); print('ok after appendChild move')
except AssertionError as e: print('FAIL', e)
# first child moved: previousSibling of x stale?
b=text.P(); b.appendChild(x)
try: links_ok(a); links_ok(b); print('ok after cross-parent move')
except AssertionError as e: print('FAIL', e)
print('x.prev', x.previousSibling)
# text nodes
t = a.addText('hello'); 
tn = a.childNodes[-1]
try: a.removeChild(tn); print('removed text ok (free-standing)')
except Exception as e: print('remove text EXC', type(e).__name__, e)
# attached to doc
d = OpenDocumentText()
p = text.P(text='hi'); d.text.addElement(p)
try: p.removeChild(p.childNodes[0]); print('removed text ok (attached)')
except Exception as e: print('remove text attached EXC', type(e).__name__, e)
# insertBefore refChild None on empty
q=text.P(); q.insertBefore(x, None); links_ok(q)
# insertBefore at index 0 when newChild had prev sibling
r=text.P(); m=text.Span(); n=text.Span(); r.appendChild(m); r.appendChild(n)
s=text.P(); k=text.Span(); s.appendChild(k)
s.insertBefore(n,k); links_ok(s); links_ok(r)
# appendChild of node whose nextSibling set
print('done')

import io
from odf import text, element, style, draw
from odf.opendocument import OpenDocumentText
from odf.element import IllegalChild, IllegalText
d = OpenDocumentText()
# C07: parent= with missing required attribute
n0 = len(d.text.childNodes)
try:
    text.H(parent=d.text)   # outline-level required
except Exception as e: print('H exc', type(e).__name__, e)
print('children after refused H:', len(d.text.childNodes)-n0, len(d.getElementsByType(text.H)))
# parent= with invalid attribute value later
try:
    style.Style(parent=d.styles, name='x', family='bogus')
except Exception as e: print('Style exc', type(e).__name__, e)
print('styles children', len(d.styles.childNodes))
# unknown attribute
try:
    text.P(parent=d.text, bogus='1')
except Exception as e: print('P exc', type(e).__name__, e)
print('text children', len(d.text.childNodes))
# text= on element not allowing text with later failure
try:
    text.List(text='abc')
except Exception as e: print('List exc', type(e).__name__, e)
# setAttribute with invalid value: old value preserved?
p = text.P(); 
s = style.Style(name='a', family='paragraph')
try: s.setAttribute('family','bogus')
except Exception as e: print('exc', e)
print(s.getAttribute('family'))
# insertBefore with non-child ref: newChild removed from old parent first!
a=text.P(); b=text.Span(); c=text.Span(); a.addElement(b)
q=text.P()
try: q.insertBefore(b, c)
except Exception as e: print('insertBefore exc', type(e).__name__)
print('b still child of a?', b in a.childNodes, b.parentNode is a)
# illegal child type via insertBefore/appendChild - no grammar check
# addElement twice same element
a.addElement(c); a.addElement(c); print(len(a.childNodes))

import io, zipfile, sys, glob
from xml.parsers import expat
from odf.opendocument import load
from odf.odfmanifest import manifestlist
def parse(b):
    root=[None]; stack=[]
    p = expat.ParserCreate(namespace_separator=' ')
    def start(n,a):
        e=[n,dict(a),[]]; 
        if stack: stack[-1][2].append(e)
        else: root[0]=e
        stack.append(e)
    def end(n): stack.pop()
    def ch(d):
        c=stack[-1][2]
        if c and isinstance(c[-1],str): c[-1]+=d
        else: c.append(d)
    p.StartElementHandler=start; p.EndElementHandler=end; p.CharacterDataHandler=ch
    p.Parse(b,True); return root[0]
def find(e,name):
    for c in e[2]:
        if not isinstance(c,str) and c[0].endswith(' '+name): return c
def diff(a,b,path,out):
    if isinstance(a,str) or isinstance(b,str):
        if a!=b: out.append((path,'text',repr(a)[:60],repr(b)[:60]))
        return
    if a[0]!=b[0]: out.append((path,'name',a[0],b[0])); return
    if a[1]!=b[1]:
        ks=set(a[1])|set(b[1])
        for k in ks:
            if a[1].get(k)!=b[1].get(k): out.append((path+'/@'+k.split(' ')[-1],'attr',a[1].get(k),b[1].get(k)))
    ca=[c for c in a[2]]; cb=[c for c in b[2]]
    if len(ca)!=len(cb): out.append((path+'/'+a[0].split(' ')[-1],'nchildren',len(ca),len(cb))); return
    for i,(x,y) in enumerate(zip(ca,cb)): diff(x,y,path+'/'+a[0].split(' ')[-1]+'[%d]'%i,out)
for fn in sorted(glob.glob('/repo/tests/examples/*.od?')):
    try:
        d = load(fn)
    except Exception as e:
        print(fn.split('/')[-1], 'LOAD EXC', type(e).__name__, e); continue
    b=io.BytesIO(); d.save(b)
    z1=zipfile.ZipFile(fn); z2=zipfile.ZipFile(io.BytesIO(b.getvalue()))
    out=[]
    for part,secs in (('content.xml',['body']),('styles.xml',['styles','master-styles','font-face-decls']),('meta.xml',['meta']),('settings.xml',['settings'])):
        if part not in z1.namelist(): continue
        if part not in z2.namelist(): out.append((part,'MISSING PART')); continue
        t1=parse(z1.read(part)); t2=parse(z2.read(part))
        for s in secs:
            a=find(t1,s); b2=find(t2,s)
            if a is None and b2 is None: continue
            if a is None or b2 is None: out.append((part,s,'missing section', a is None, b2 is None)); continue
            diff(a,b2,part,out)
    m1=manifestlist(z1.read('META-INF/manifest.xml')); m2=manifestlist(z2.read('META-INF/manifest.xml'))
    n1=set(z1.namelist()); n2=set(z2.namelist())
    print(fn.split('/')[-1], len(out), 'diffs; members lost', sorted(n1-n2)[:6], 'gained', sorted(n2-n1)[:6])
    for o in out[:6]: print('    ',o)

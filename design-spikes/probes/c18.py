import io
from xml.parsers import expat
from odf.opendocument import OpenDocumentText, OpenDocumentSpreadsheet
from odf import text, table, draw, dc, meta, style
from odf.odf2xhtml import ODF2XHTML
from odf.odf2moinmoin import ODF2MoinMoin
def conv(d, css=True):
    b=io.BytesIO(); d.save(b); b.seek(0)
    try:
        x = ODF2XHTML(generate_css=css).odf2xhtml(b)
    except Exception as e: return 'EXC %s %s'%(type(e).__name__, e)
    p=expat.ParserCreate()
    try: p.Parse(x.encode(),True); return 'ok'
    except Exception as e: return 'ILLFORMED %s'%e
def moin(d):
    d.save('/tmp/exp/m.odt')
    try: return repr(ODF2MoinMoin('/tmp/exp/m.odt').toString())[:100]
    except Exception as e: return 'EXC %s %s'%(type(e).__name__, e)
def mk(): return OpenDocumentText()
d=mk(); d.text.addElement(text.P(text='a<b>&"c')); print('markup text', conv(d), moin(d))
d=mk(); p=text.P(text='see'); n=text.Note(noteclass='footnote'); n.addElement(text.NoteCitation(text='1')); nb=text.NoteBody(); nb.addElement(text.P(text='foot')); n.addElement(nb); p.addElement(n); d.text.addElement(p); print('footnote', conv(d), moin(d))
d=mk(); p=text.P(); p.addElement(text.A(href='', text='lnk')); d.text.addElement(p); print('empty href', conv(d), moin(d))
d=mk(); d.text.addElement(text.H(outlinelevel=1, text='H')); print('h', conv(d), moin(d))
d=mk(); h=text.H(outlinelevel=1, text='H'); del h.attributes[(text.TEXTNS,'outline-level')]; d.text.addElement(h); print('h nolevel', conv(d), moin(d))
d=mk(); d.meta.addElement(dc.Creator(text='A "quoted" <b>')); d.meta.addElement(dc.Title(text='T<&>')); d.meta.addElement(dc.Language(text='e"n')); d.text.addElement(text.P(text='x')); print('meta markup', conv(d))
d=mk(); d.text.addElement(text.P(stylename=style.Style(name='a"b<c', family='paragraph'), text='x')); print('stylename markup', conv(d), conv(d,False))
d=mk(); l=text.List(); li=text.ListItem(); li.addElement(text.P(text='i1')); l2=text.List(); li2=text.ListItem(); li2.addElement(text.P(text='i2')); l2.addElement(li2); li.addElement(l2); l.addElement(li); d.text.addElement(l); print('nested list', conv(d), moin(d))
d=mk(); t=table.Table(name='t'); t.addElement(table.TableColumn()); r=table.TableRow(); c=table.TableCell(); c.addElement(text.P(text='cell')); r.addElement(c); t.addElement(r); d.text.addElement(t); print('table', conv(d), moin(d))
d=mk(); p=text.P(); f=draw.Frame(width='1cm',height='1cm'); tb=draw.TextBox(); tb.addElement(text.P(text='boxed')); f.addElement(tb); p.addElement(f); d.text.addElement(p); print('textbox', conv(d), moin(d))
d=mk(); p=text.P(text='a'); p.addElement(text.S(c=3)); p.addElement(text.Tab()); p.addElement(text.LineBreak()); p.addText('b'); d.text.addElement(p); print('ws', conv(d), moin(d))
d=mk(); p=text.P(); p.addElement(text.A(href='http://x/?a=1&b="2"', text='lnk')); d.text.addElement(p); print('href markup', conv(d), moin(d))
s=OpenDocumentSpreadsheet(); t=table.Table(name='t'); t.addElement(table.TableColumn(numbercolumnsrepeated=2)); r=table.TableRow(); c=table.TableCell(); c.addElement(text.P(text='cell')); r.addElement(c); t.addElement(r); s.spreadsheet.addElement(t); print('ods', conv(s))

import io, zipfile, sys
from xml.parsers import expat
from odf.opendocument import OpenDocumentText, load
from odf import text, element
from odf.element import Element
def ok(b):
    p = expat.ParserCreate(namespace_separator=' ')
    try: p.Parse(b, True); return True
    except Exception as e: return repr(e)
d = OpenDocumentText(); d.text.addElement(text.P(text='x'))
print(ok(d.xml()))
# element with unqualified attribute via qattributes (None ns) like load does
e = Element(qname=('urn:foo','bar'), qattributes={(None,'plain'):'v'}, check_grammar=False)
f = io.StringIO(); e.toXml(0,f); print(f.getvalue())
print(ok(f.getvalue().encode()))
print('after: doc xml ok?', ok(d.xml()))
print({k:v for k,v in Element.namespaces.items() if v.startswith('ns')})
# prefix collision: a foreign namespace loaded with prefix assignments "ns42" vs a document using literal prefix? 
# formula prefix
from odf import table
c = table.TableCell(formula='of:=SUM(A1)')
f = io.StringIO(); c.toXml(0,f); print('of declared:', 'xmlns:of=' in f.getvalue())
c = table.TableCell(formula='msoxl:=SUM(A1)')
f = io.StringIO(); c.toXml(0,f); print(f.getvalue()[-80:])

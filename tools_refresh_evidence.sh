#!/bin/sh
# Re-runs the quick command of every claimed check (seed 0) so that the committed evidence files come from clean runs.
cd "$(dirname "$0")"
for p in $(python3 -c "import json; print(' '.join(c['property_id'] for c in json.load(open('MANIFEST.json'))['checks']))"); do
  VERIF_SEED=0 ./check $p --tier quick 2>&1 | grep -v KNOWN-FINDING | tail -1
done
python3-vt tools_validate.py | grep -v "^valid" || echo "all evidence valid"

#!/usr/bin/env python3
"""Re-evaluates seeded changes (seeded/<id>/patch.diff) against the checks AS THEY ARE NOW and /repo AS IT IS NOW.

usage: tools_reeval.py <out.json> <seed-id> [<seed-id> ...]        (ids may be shell-style patterns: 'C04-*')

For every id: a scratch worktree of /repo HEAD, `git apply` (a patch that no longer applies because a later repair touched
the same lines is recorded as `stale`), the demonstration without/with the change, then every check the change was
evaluated with originally (`checks_run_against_it`, at least the property's own) with ODFPY_REPO=<worktree>.  Results go
to <out.json> (merged into what is there): {id: {repo, checks: {Cxx: outcome}, demo: [rc0, rc1]}} with outcome in
quiet / no-failing-input / concrete / infra.  The original meta.json is left alone; tools_design_tables.py reads
seeded/REEVAL.json for the "now" column.  Runs the checks of THIS directory (so a copy of /verif can be used to run several
sweeps side by side: the checks rewrite lean/OdfModel/Generated and must not share a directory)."""
import sys, os, subprocess, json, shutil, tempfile, glob, fnmatch
VERIF = os.path.dirname(os.path.abspath(__file__))
PY = '/venv/bin/python'

def sh(cmd, cwd=None, timeout=3000):
    try:
        r = subprocess.run(cmd, shell=True, cwd=cwd, stdout=subprocess.PIPE, stderr=subprocess.STDOUT, universal_newlines=True, timeout=timeout)
        return r.returncode, r.stdout
    except subprocess.TimeoutExpired:
        return 124, 'timeout'

def one(sid, tier):
    src = os.path.join(VERIF, 'seeded', sid)
    meta = json.load(open(os.path.join(src, 'meta.json')))
    checks = sorted(set(list(meta.get('checks_run_against_it', {}).keys()) + [meta['property']]))
    head = sh('git -C /repo rev-parse --short HEAD')[1].strip()
    res = {'repo': head, 'harmless': meta.get('kind') == 'harmless', 'checks': {}, 'tier': tier}
    wt = tempfile.mkdtemp(prefix='reeval-', dir='/tmp'); os.rmdir(wt)
    try:
        rc, out = sh('git -C /repo worktree add -q --detach %s HEAD' % wt); assert rc == 0, out
        rc0, _ = sh('%s %s' % (PY, os.path.join(src, 'demo.py')), cwd=wt)
        rc, out = sh('git apply %s' % os.path.join(src, 'patch.diff'), cwd=wt)
        if rc != 0:
            res['stale'] = out.strip()[:200]
            return res
        rc1, _ = sh('%s %s' % (PY, os.path.join(src, 'demo.py')), cwd=wt)
        res['demo'] = [rc0, rc1]
        for c in checks:
            rcc, oc = sh('ODFPY_REPO=%s ./check %s --tier %s' % (wt, c, tier), cwd=VERIF)
            viol = [l for l in oc.splitlines() if l.startswith('VIOLATION')]
            outcome = 'quiet' if rcc == 0 else ('infra' if rcc != 1 else ('no-failing-input' if viol and all(l.rstrip().endswith('no-failing-input-found') for l in viol) else 'concrete'))
            res['checks'][c] = outcome
            if outcome == 'infra':
                res.setdefault('tails', {})[c] = oc[-800:]
    finally:
        sh('git -C /repo worktree remove --force %s' % wt); shutil.rmtree(wt, ignore_errors=True)
        shutil.rmtree(os.path.join(VERIF, 'replays'), ignore_errors=True)
    return res

def main():
    tier = 'quick'
    args = sys.argv[1:]
    if args and args[0] == '--thorough':
        tier = 'thorough'; args = args[1:]
    outp, pats = args[0], args[1:]
    allids = sorted(os.path.basename(os.path.dirname(f)) for f in glob.glob(os.path.join(VERIF, 'seeded', '*', 'meta.json')))
    ids = [i for i in allids if any(fnmatch.fnmatch(i, p) for p in pats)]
    for sid in ids:
        r = one(sid, tier)
        cur = json.load(open(outp)) if os.path.exists(outp) else {}
        cur[sid] = r
        json.dump(cur, open(outp, 'w'), indent=1, sort_keys=True)
        print(sid, r.get('stale') and 'STALE' or r['checks'], flush=True)
    sh('git -C %s checkout -- evidence lean/OdfModel/Generated' % VERIF)

main()

#!/bin/sh
# Builds the Lean library (models, theorems) and every line-protocol driver, offline.
cd "$(dirname "$0")/lean" || exit 2
if [ -f ../harness/translate_all.py ]; then /venv/bin/python ../harness/translate_all.py || echo "setup: translate_all failed (checks re-translate themselves)"; fi
lake build OdfModel || exit 1
for exe in $(sed -n 's/^name = "\(drv_[a-z0-9_]*\)"/\1/p' lakefile.toml); do
  lake build "$exe" || echo "setup: driver $exe did not build (its check will report it)"
done
exit 0

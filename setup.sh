#!/bin/sh
# Builds the whole Lean library (models, theorems) and every line-protocol driver, offline.
set -e
cd "$(dirname "$0")/lean"
EXES=$(sed -n 's/^name = "\(drv_[a-z0-9_]*\)"/\1/p' lakefile.toml)
# regenerate the translator outputs first so the library builds against the current /repo
if [ -x ../harness/translate_all.py ]; then /venv/bin/python ../harness/translate_all.py; fi
lake build OdfModel $EXES

#!/bin/sh
# Builds the Lean library (models, lemma files, property theorems) and every line-protocol driver, offline.
# Every check rebuilds what it needs itself (after re-running its translators against /repo); this only warms the build.
cd "$(dirname "$0")/lean" || exit 2
MODS=$(ls OdfModel/Props/*.lean 2>/dev/null | sed 's#/#.#g; s#\.lean$##')
EXES=$(sed -n 's/^name = "\(drv_[a-z0-9_]*\)"/\1/p' lakefile.toml)
lake build OdfModel $MODS $EXES && exit 0
echo "setup: combined build failed, building targets one by one"
for t in OdfModel $MODS $EXES; do
  lake build "$t" >/dev/null 2>&1 || echo "setup: target $t did not build (its check will report it)"
done
exit 0

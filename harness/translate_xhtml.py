# -*- coding: utf-8 -*-
"""
Translator for C18: what the Lean model of the converters takes from the source AS IT IS on every run.
Output: lean/OdfModel/Generated/XhtmlDispatch.lean

  HName, elements      the `elements` dispatch dict of a LIVE `ODF2XHTML()`:  prefixed tag name -> (start handler, end handler)
                       (handler = name of the bound method; the namespace URI is replaced by odfpy's own prefix, nsdict)
  handlerWrites        for every handler method (and the helpers html_body / generate_footnotes / s_office_document_content):
                       how each string it hands to `self.writeout` / `self.metatags.append` is built (AST):
                         0 const     a string literal
                         1 escaped   escape(...) or a literal template % escape(...)
                         2 number    str(self.currentnote)
                         3 tag       self.opentag / closetag / emptytag (attribute values go through quoteattr there)
                         4 quoted    a literal template % (literal | tag[1] | quoteattr(...))   (metatags)
                         5 collected output that was collected earlier (note['body'], a line of self.metatags)
                         6 css       generate_stylesheet (opaque in the model)
                         9 rawDoc    anything else: a document-derived string that reaches the output unescaped
  coreEscapes          writedata writes escape(d); opentag and emptytag build every attribute with quoteattr(val)
  cssWritesSafe        generate_stylesheet writes only literals, default_styles and <expr>.replace(']]>', ']]]]><![CDATA[>')
  specialStyles        the module's `special_styles`
  moinElements         the `elements` dict of a live ODF2MoinMoin (tag -> method name), built without loading a file
  moinIgnored / moinInline   IGNORED_TAGS / INLINE_TAGS of odf2moinmoin (from odf/elementtypes.py)
  moinContainer        CONTAINER_TAGS of odf2moinmoin: the elements that toString and textToString walk like a section
                       (frames, text boxes, drawing shapes, sections, numbered paragraphs, indexes); the TEMPLATE_TAGS are
                       entries of moinElements (do_nothing)
"""
import ast, inspect, os, sys, textwrap

W_CONST, W_ESC, W_NUM, W_TAG, W_QUOTED, W_COLLECTED, W_CSS, W_RAW = 0, 1, 2, 3, 4, 5, 6, 9


def cps(s):
    return '[' + ', '.join(str(ord(c)) for c in s) + ']'


def _is_self_attr(n, name=None):
    return isinstance(n, ast.Attribute) and isinstance(n.value, ast.Name) and n.value.id == 'self' and (name is None or n.attr == name)


def _classify_arg(a):
    if isinstance(a, ast.Constant) and isinstance(a.value, str):
        return W_CONST
    if isinstance(a, ast.Call) and isinstance(a.func, ast.Name) and a.func.id == 'escape':
        return W_ESC
    if isinstance(a, ast.Call) and isinstance(a.func, ast.Name) and a.func.id in ('str', 'unicode') and len(a.args) == 1 \
            and _is_self_attr(a.args[0], 'currentnote'):
        return W_NUM
    if isinstance(a, ast.BinOp) and isinstance(a.op, ast.Mod) and isinstance(a.left, ast.Constant) and isinstance(a.left.value, str):
        args = a.right.elts if isinstance(a.right, ast.Tuple) else [a.right]
        kinds = []
        for x in args:
            if isinstance(x, ast.Constant):
                kinds.append('c')
            elif isinstance(x, ast.Call) and isinstance(x.func, ast.Name) and x.func.id == 'escape':
                kinds.append('e')
            elif isinstance(x, ast.Call) and isinstance(x.func, ast.Name) and x.func.id == 'quoteattr':
                kinds.append('q')
            elif isinstance(x, ast.Subscript) and isinstance(x.value, ast.Name) and x.value.id == 'tag':
                kinds.append('t')
            else:
                kinds.append('?')
        if '?' in kinds:
            return W_RAW
        if 'q' in kinds or 't' in kinds:
            # a quoteattr'ed value must not sit inside literal quotes of the template
            tmpl = a.left.value
            if 'q' in kinds and ('content="%s"' in tmpl or "content='%s'" in tmpl):
                return W_RAW
            return W_QUOTED
        return W_ESC if 'e' in kinds else W_CONST
    if isinstance(a, ast.Subscript) and isinstance(a.value, ast.Name) and a.value.id == 'note':
        return W_COLLECTED
    if isinstance(a, ast.Name) and a.id == 'metaline':
        return W_COLLECTED
    return W_RAW


_CLASS_AST = {}


def method_ast(cls, name):
    """the FunctionDef of method `name` of `cls` (first definition in the class body), from the module's source file"""
    key = cls.__module__ + '.' + cls.__name__
    if key not in _CLASS_AST:
        with open(inspect.getsourcefile(cls), encoding='utf-8') as f:
            mod = ast.parse(f.read())
        c = [n for n in mod.body if isinstance(n, ast.ClassDef) and n.name == cls.__name__][0]
        d = {}
        for n in c.body:
            if isinstance(n, ast.FunctionDef):
                d[n.name] = n          # a later definition overrides an earlier one, like in Python
        _CLASS_AST[key] = d
    return _CLASS_AST[key].get(name)


def handler_writes(cls, name):
    """kinds of the strings a method sends to the output (writeout / metatags.append / tag helpers)"""
    tree = method_ast(cls, name)
    if tree is None:
        return None
    kinds = []
    for n in ast.walk(tree):
        if not isinstance(n, ast.Call):
            continue
        f = n.func
        if _is_self_attr(f, 'writeout') and n.args:
            kinds.append(_classify_arg(n.args[0]))
        elif _is_self_attr(f) and f.attr in ('opentag', 'closetag', 'emptytag'):
            kinds.append(W_TAG)
        elif _is_self_attr(f, 'generate_stylesheet'):
            kinds.append(W_CSS)
        elif isinstance(f, ast.Attribute) and f.attr == 'append' and _is_self_attr(f.value, 'metatags') and n.args:
            kinds.append(_classify_arg(n.args[0]))
        elif isinstance(f, ast.Attribute) and f.attr in ('write',) :
            kinds.append(W_RAW)
        elif _is_self_attr(f, '_wfunc') or _is_self_attr(f, '_wlines') or _is_self_attr(f, 'collectnote'):
            kinds.append(W_RAW)
    return sorted(set(kinds))


def core_escapes(cls):
    def has(fnname, pred):
        tree = method_ast(cls, fnname)
        return any(pred(n) for n in ast.walk(tree))
    wd = has('writedata', lambda n: isinstance(n, ast.Call) and _is_self_attr(n.func, 'writeout') and n.args and _classify_arg(n.args[0]) == W_ESC)

    def attr_quoted(fnname):
        tree = method_ast(cls, fnname)
        appends = [n for n in ast.walk(tree) if isinstance(n, ast.Call) and isinstance(n.func, ast.Attribute) and n.func.attr == 'append'
                   and isinstance(n.func.value, ast.Name) and n.func.value.id == 'a']
        if len(appends) != 1:
            return False
        x = appends[0].args[0]
        if not (isinstance(x, ast.BinOp) and isinstance(x.op, ast.Mod) and isinstance(x.left, ast.Constant) and x.left.value == '%s=%s'
                and isinstance(x.right, ast.Tuple) and len(x.right.elts) == 2):
            return False
        v = x.right.elts[1]
        ok = isinstance(v, ast.Call) and isinstance(v.func, ast.Name) and v.func.id == 'quoteattr' and len(v.args) == 1 \
            and isinstance(v.args[0], ast.Name) and v.args[0].id == 'val'
        # the only writeouts of the helper are the two tag templates
        wr = [n for n in ast.walk(tree) if isinstance(n, ast.Call) and _is_self_attr(n.func, 'writeout')]
        return ok and all(_classify_arg(n.args[0]) in (W_CONST, W_RAW) for n in wr)
    return wd, attr_quoted('opentag'), attr_quoted('emptytag')


def css_writes_safe(cls):
    """generate_stylesheet: every writeout is a literal, self.default_styles, or <expr>.replace(']]>', ']]]]><![CDATA[>')"""
    tree = method_ast(cls, 'generate_stylesheet')
    if tree is None:
        return False
    ok, seen = True, 0
    for n in ast.walk(tree):
        if isinstance(n, ast.Call) and _is_self_attr(n.func, 'writeout') and n.args:
            a = n.args[0]
            if isinstance(a, ast.Constant) and isinstance(a.value, str):
                continue
            if _is_self_attr(a, 'default_styles'):
                continue
            if isinstance(a, ast.Call) and isinstance(a.func, ast.Attribute) and a.func.attr == 'replace' and len(a.args) == 2 \
                    and all(isinstance(x, ast.Constant) for x in a.args) and a.args[0].value == ']]>' \
                    and a.args[1].value == ']]]]><![CDATA[>':
                seen += 1
                continue
            ok = False
    return ok and seen >= 1


def measure(repo):
    import odf.odf2xhtml as X
    import odf.odf2moinmoin as M
    from odf.namespaces import nsdict
    for mod in (X, M, sys.modules.get('opendocument')):
        f = os.path.realpath(getattr(mod, '__file__', '') or '')
        if not f.startswith(os.path.realpath(repo) + os.sep):
            raise RuntimeError('%s is imported from %s, not from %s' % (getattr(mod, '__name__', mod), f, repo))
    conv = X.ODF2XHTML()
    elements = []
    hnames = set()
    for (ns, local), (s, e) in conv.elements.items():
        sn = s.__name__ if s is not None else None
        en = e.__name__ if e is not None else None
        for h in (sn, en):
            if h:
                hnames.add(h)
        elements.append((nsdict.get(ns, '?' + ns) + ':' + local, sn, en))
    elements.sort()
    helpers = ['html_body', 'generate_footnotes', 'writedata']
    writes = {}
    for h in sorted(hnames) + helpers:
        writes[h] = handler_writes(X.ODF2XHTML, h)
    moin = M.ODF2MoinMoin.__new__(M.ODF2MoinMoin)
    moin.load = lambda path: None
    M.ODF2MoinMoin.__init__(moin, None)
    melements = sorted((k, v.__name__) for k, v in moin.elements.items())
    prefixes = sorted(set(nsdict.values()))
    return {
        'elements': elements, 'hnames': sorted(hnames), 'helpers': helpers, 'writes': writes,
        'core': core_escapes(X.ODF2XHTML),
        'css_safe': css_writes_safe(X.ODF2XHTML),
        'special': sorted(X.special_styles.items()),
        'moin_elements': melements, 'moin_ignored': list(M.IGNORED_TAGS), 'moin_inline': list(M.INLINE_TAGS),
        'moin_container': list(getattr(M, 'CONTAINER_TAGS', ())),
        'nsdict_injective': len(set(nsdict.values())) == len(nsdict),
        'default_styles': X.ODF2XHTML.default_styles,
    }


def to_lean(m):
    L = []
    L.append('/-\n  GENERATED by harness/translate_xhtml.py from a live ODF2XHTML() / ODF2MoinMoin and the AST of odf/odf2xhtml.py - do not edit.\n'
             '  %d dispatch entries, %d handlers, %d MoinMoin entries.\n-/' % (len(m['elements']), len(m['hnames']), len(m['moin_elements'])))
    L.append('namespace OdfModel.Generated.Xhtml\n')
    L.append('/-- names of the handler methods found in `ODF2XHTML().elements` (and three helpers) -/')
    L.append('inductive HName where')
    for h in m['hnames'] + m['helpers']:
        L.append('  | %s' % h)
    L.append('  deriving DecidableEq, Repr\n')
    L.append('/-- `ODF2XHTML().elements`: prefixed tag name ↦ (start handler, end handler) -/')
    L.append('def elements : List (List Nat × Option HName × Option HName) := [')
    rows = []
    for q, s, e in m['elements']:
        rows.append('  (%s, %s, %s)  /- %s -/' % (cps(q), ('some .%s' % s) if s else 'none', ('some .%s' % e) if e else 'none', q))
    L.append(',\n'.join(rows))
    L.append(']\n')
    L.append('/-- how the strings a method writes are built: 0 const, 1 escaped, 2 number, 3 tag helper, 4 quoted template, 5 collected, 6 css, 9 raw document string -/')
    L.append('def handlerWrites : List (HName × List Nat) := [')
    L.append(',\n'.join('  (.%s, %s)' % (h, m['writes'][h]) for h in m['hnames'] + m['helpers']))
    L.append(']\n')
    L.append('/-- writedata writes escape(d); opentag / emptytag quote every attribute value with quoteattr -/')
    L.append('def coreEscapes : Bool × Bool × Bool := (%s, %s, %s)\n' % tuple('true' if x else 'false' for x in m['core']))
    L.append("/-- generate_stylesheet writes every non-literal string through .replace(']]>', ']]]]><![CDATA[>') (`Xhtml.cdataSafe`) -/")
    L.append('def cssWritesSafe : Bool := %s\n' % ('true' if m['css_safe'] else 'false'))
    L.append('/-- `special_styles` -/')
    L.append('def specialStyles : List (List Nat × List Nat) := [')
    L.append(',\n'.join('  (%s, %s)  /- %s -> %s -/' % (cps(k), cps(v), k, v) for k, v in m['special']))
    L.append(']\n')
    L.append('/-- odfpy\'s prefix table is injective on namespace names (so "prefix:local" identifies the qname) -/')
    L.append('def nsdictInjective : Bool := %s\n' % ('true' if m['nsdict_injective'] else 'false'))
    L.append('/-- `ODF2XHTML.default_styles` (first part of the style sheet; constant) -/')
    L.append('def defaultStyles : List Nat := %s\n' % cps(m['default_styles']))
    mn = sorted(set(v for _, v in m['moin_elements']))
    L.append('/-- methods in the `elements` dict of a live ODF2MoinMoin -/')
    L.append('inductive MName where')
    for h in mn:
        L.append('  | %s' % h)
    L.append('  deriving DecidableEq, Repr\n')
    L.append('def moinElements : List (List Nat × MName) := [')
    L.append(',\n'.join('  (%s, .%s)  /- %s -/' % (cps(k), v, k) for k, v in m['moin_elements']))
    L.append(']\n')
    L.append('def moinIgnored : List (List Nat) := [')
    L.append(',\n'.join('  %s  /- %s -/' % (cps(k), k) for k in m['moin_ignored']))
    L.append(']\n')
    L.append('def moinInline : List (List Nat) := [')
    L.append(',\n'.join('  %s  /- %s -/' % (cps(k), k) for k in m['moin_inline']))
    L.append(']\n')
    L.append('/-- `CONTAINER_TAGS`: walked by toString and textToString like a section -/')
    L.append('def moinContainer : List (List Nat) := [')
    L.append(',\n'.join('  %s  /- %s -/' % (cps(k), k) for k in m['moin_container']))
    L.append(']\n')
    L.append('end OdfModel.Generated.Xhtml')
    return '\n'.join(L) + '\n'

# -*- coding: utf-8 -*-
"""C15 - schema-valid attribute values are accepted and kept unchanged.

translate:      harness/translate_attr.py -> Generated/AttrConv.lean (regexes, converter shapes, tuples),
                Generated/AttrSchema.lean (schema pattern facets, datatypes), Generated/AttrTable.lean (dict + occurrences)
proof:          lean/OdfModel/Props/C15.lean (validated_full, idempotent, pattern_same_*, pattern_incl_*,
                binding_compatible over every attribute occurrence of the schema, finding_* counter-examples)
correspondence: every cnv_* function, every pattern_*.match, every schema pattern facet, the lookup order of
                AttrConverters.convert and Element.setAttrNS/getAttrNS  vs  drv_attr
history:        every near-miss is asked in the fresh process, then again after all schema-valid values (incl. values of the
                other validated types), a serialisation and a load(): the verdict must be the same (replay = call history)
oracle:         for every (element, attribute) pair of the schema, values drawn from the attribute's schema datatype
                must be accepted by setAttrNS, read back unchanged, serialise unchanged (expat), survive a second
                conversion and a load(); near-misses of the validated types must raise ValueError
"""
import io, os, re, zipfile, xml.parsers.expat
from common import enc_str, dec_str
import common
import translate_attr as T

# ---- the validated types of the property (lengths, percentages, point lists, view boxes, enumerations) and the
# ---- converters that implement them today (fixed list: a converter that stops validating must not drop out)
PATTERN_TYPES = {
    'cnv_length': ['length'],
    'cnv_percent': ['percent'],
    'cnv_lengthorpercent': ['length', 'percent'],
    'cnv_points': ['points'],
    'cnv_viewbox': ['viewbox'],
}
ENUM_CONVERTERS = ['cnv_configtype', 'cnv_data_source_has_labels', 'cnv_draw_aspect', 'cnv_family', 'cnv_legend_position',
                   'cnv_list_linkage_type', 'cnv_major_minor', 'cnv_metavaluetype', 'cnv_rowOrCol', 'cnv_stroke_linecap',
                   'cnv_textnoteclass', 'cnv_xlinkshow', 'cnv_xlinktype']
XMLNS_URI = u'http://www.w3.org/XML/1998/namespace'
VIEWBOX_TYPE = re.compile(r'[ \t\n\r]*[+-]?[0-9]+([ \t\n\r]+[+-]?[0-9]+){3}[ \t\n\r]*')   # list of four xsd:integer

# NCNames using the NameChar classes of XML 1.0 (5th edition) beyond letters and digits: U+00B7 MIDDLE DOT, combining
# marks U+0300-U+036F, U+203F/U+2040, scripts whose vowel signs are combining characters (Devanagari, Thai, Tamil),
# letters outside the BMP.  Python's \w does not match most of these although they are legal in a name.
NAME_SAMPLES = [u'Paral\u00b7lel',
                u'a\u0300\u036f\u203f\u2040\u0915\u093e\u0e01\u0e34\U00010400\U00020000',
                u'\u0915\u093f\u0924\u093e\u092c', u'\u0e01\u0e34\u0e48\u0e07', u'\u0ba4\u0bae\u0bbf\u0bb4\u0bcd',
                u'\U00010400\U0001D49C\U00020000x', u'x\u00b7\u0301', u'_\u203f\u2040_']
XSD_SAMPLES = {
    'string': [u'', u'x', u'My Shape 1', u'a:b', u' padded ', u'Zoë 中文 \U0001F600', u'<&>"\'', u'tab\there'],
    'token': [u'x', u'two words'],
    'NCName': NAME_SAMPLES + [u'a', u'Abc_1-2.x', u'élève', u'_x'],
    'ID': NAME_SAMPLES + [u'id1', u'_a.b-c'],
    'IDREF': NAME_SAMPLES + [u'id1', u'réf'],
    'IDREFS': [u'id1', NAME_SAMPLES[0] + u' ' + NAME_SAMPLES[1], u'id1 id2'],
    'QName': [u'chart:bar', u'bar', u'é:ü', u'a.b:c-d_e'],
    'anyURI': [u'', u'http://example.org/a?b=c#d', u'../rel/path x', u'#frag'],
    'date': [u'2024-02-29', u'2024-01-01Z', u'-0044-03-15'],
    'dateTime': [u'2024-01-01T12:00:00', u'2024-01-01T12:00:00.5+01:00'],
    'time': [u'12:00:00', u'23:59:59.999Z'],
    'duration': [u'PT1H', u'P1Y2M3DT4H5M6.7S', u'-P1D'],
    'decimal': [u'0', u'0.5', u'1', u'+1.0', u'-0'],
    'double': [u'0', u'1.5', u'-1E4', u'INF', u'NaN', u'.5'],
    'integer': [u'0', u'-5', u'+7', u'007', u'-0', u'+0012345678901234567890'],
    'nonNegativeInteger': [u'0', u'12', u'+3'],
    'positiveInteger': [u'1', u'10', u'+2'],
    'language': [u'en', u'en-US', u'x-klingon', u'abcdefgh-12345678'],
}
GENERIC = [u'', u' ', u'true', u'TRUE', u'True', u'fAlSe', u'yes', u'No', u'0', u'1', u'2', u'K', u'İ', u'TRUEİ',
           u'12cm', u'12cmXYZ', u'12cm\n', u'-.5in', u'+5cm', u'1e3cm', u'12em', u'12', u'5%', u'5%junk', u'-0.%', u'.%',
           u'1,2', u'1,2 3,4', u'1,2  -3,-4', u'1,2 3,4junk', u'1.5,2', u'0 0 10 10', u'0 0 10 10\n', u'+0 0 10 10', u'0  0 10 10',
           u'en', u'en-US', u'en-US!!', u'toolonglang', u'chart:bar', u'chart:bar junk', u'bar', u':', u'a:', u'a:b:c',
           u'My Shape 1', u'a b', u'a:b c', u'::', u'ab', u'a', u'P1 P2', u'simple', u'simple ', u'none', u'new', u'embed',
           u'selection-indexes', u'selection-indices', u'standard', u'double-sided', u'paragraph', u'Paragraph', u'row',
           u'é:x', u'xé', u'\U0001F600'] + NAME_SAMPLES + [ u'a\tb', u'line\nbreak', u'#ff00FF', u'(1 2 3)']


# ---------------------------------------------------------------------- values of a datatype
class Values(object):
    def __init__(self, tr, chk):
        self.tr = tr
        self.rng = chk.rng
        self.chk = chk
        self.pat_cache = {}
        self.sampler_mismatch = []

    def pattern_samples(self, p, n=5):
        if p not in self.pat_cache:
            a = self.tr.spat_ast.get(p)
            if a is None:
                if p.startswith('\\['):
                    vals = [u'[dc:title]', u'[:x]']
                else:
                    vals = [u'dc:title', u'title', u':x']
            else:
                vals = T.re_samples(a, self.rng, n)
                chkre = re.compile(T.xsd_to_py(p))
                good = []
                for v in vals:
                    if chkre.fullmatch(v):
                        good.append(v)
                    else:
                        self.sampler_mismatch.append((p, v))
                vals = good
            self.pat_cache[p] = vals
        return self.pat_cache[p]

    def atom(self, at):
        if at[0] == 'val':
            return [at[1]]
        if at[0] == 'data':
            params = dict(at[3])
            if at[2] is not None:
                return list(self.pattern_samples(at[2]))
            if 'length' in params:
                return [u'x', u'\u2022', u'\U0001F600'] if params['length'] == '1' else [u'x' * int(params['length'])]
            vals = list(XSD_SAMPLES.get(at[1], [u'x']))
            if 'minInclusive' in params or 'maxInclusive' in params:
                lo = float(params.get('minInclusive', '-1e9')); hi = float(params.get('maxInclusive', '1e9'))
                vals = [v for v in vals if v not in ('INF', 'NaN') and lo <= float(v) <= hi] or [params.get('minInclusive', '0')]
            return vals
        if at[0] == 'list':
            out = []
            for mode in ('min', 'max', 'rand'):
                toks = self.body(at[1], mode)
                out.append(u' '.join(toks))
            # list items are separated by any run of XML white space
            toks = self.body(at[1], 'rand')
            if len(toks) > 1:
                out.append(toks[0] + u''.join(self.rng.choice([u'\t', u'\n', u'  ', u' \r\n ', u' ']) + t for t in toks[1:]))
            return out
        if at[0] == 'text':
            return XSD_SAMPLES['string'][:5]
        if at[0] == 'empty':
            return [u'']
        raise ValueError(at)

    def body(self, body, mode):
        toks = []
        for part in body:
            if part[0] == 'item':
                cands = []
                for a in part[1]:
                    cands.extend(v for v in self.atom(a) if v and not re.search(r'[ \t\n\r]', v))
                cands = cands or [u'x']
                toks.append(cands[0] if mode == 'min' else cands[-1] if mode == 'max' else self.rng.choice(cands))
            else:
                lo, hi = {'opt': (0, 1), 'star': (0, 3), 'plus': (1, 3)}[part[0]]
                n = lo if mode == 'min' else hi if mode == 'max' else self.rng.randint(lo, hi)
                for _ in range(n):
                    toks.extend(self.body(part[1], mode))
        return toks

    def datatype(self, dt, k):
        """all enumeration members + up to k samples of every other atom: [(value, atom)]"""
        out, seen = [], set()
        for at in dt:
            vals = self.atom(at)
            if at[0] != 'val' and len(vals) > k:
                vals = vals[:2] + self.rng.sample(vals[2:], k - 2) if k > 2 else vals[:k]
            for v in vals:
                if v not in seen:
                    seen.add(v); out.append((v, at))
        return out


def xml_ok(s):
    """every character is an XML 1.0 Char"""
    for c in s:
        o = ord(c)
        if not (o in (9, 10, 13) or 0x20 <= o <= 0xD7FF or 0xE000 <= o <= 0xFFFD or o >= 0x10000):
            return False
    return True


def xml_attr(s):
    out = []
    for c in s:
        if c == u'&': out.append(u'&amp;')
        elif c == u'<': out.append(u'&lt;')
        elif c == u'"': out.append(u'&quot;')
        elif c in u'\t\n\r': out.append(u'&#%d;' % ord(c))
        else: out.append(c)
    return u''.join(out)


def parse_attrs(xml_bytes):
    """expat: list of the attribute dicts of the children of the root, in order (namespace-aware)"""
    out, depth = [], [0]
    p = xml.parsers.expat.ParserCreate(namespace_separator=u'\x01')
    def start(name, attrs):
        depth[0] += 1
        if depth[0] == 2:
            d = {}
            for k, v in attrs.items():
                ns, _, local = k.rpartition(u'\x01')
                d[(ns, local)] = v
            out.append(d)
    def end(name):
        depth[0] -= 1
    p.StartElementHandler = start
    p.EndElementHandler = end
    p.Parse(xml_bytes, True)
    return out


# ---------------------------------------------------------------------- does the schema accept a string? (independent of odfpy)
XML_WS = u' \t\n\r'
XSD_LEXICAL = {
    'integer': re.compile(r'[+-]?[0-9]+\Z'), 'nonNegativeInteger': re.compile(r'(\+?[0-9]+|-0+)\Z'),
    'positiveInteger': re.compile(r'\+?0*[1-9][0-9]*\Z'), 'decimal': re.compile(r'[+-]?([0-9]+(\.[0-9]*)?|\.[0-9]+)\Z'),
    'double': re.compile(r'([+-]?([0-9]+(\.[0-9]*)?|\.[0-9]+)([eE][+-]?[0-9]+)?|-?INF|NaN)\Z'),
    'language': re.compile(r'[a-zA-Z]{1,8}(-[a-zA-Z0-9]{1,8})*\Z'),
}


_FACETS = {}


def _facet(pat):
    if pat not in _FACETS:
        try:
            T.parse_regex(pat, 'xsd')                    # inside the subset whose XSD -> Python rewriting is understood
            _FACETS[pat] = re.compile(T.xsd_to_py(pat))
        except Exception:
            _FACETS[pat] = None
    return _FACETS[pat]


def collapse(s):
    return u' '.join(x for x in re.split(u'[ \t\n\r]+', s) if x)


def atom_accepts(at, s):
    """True / False, or None when this reading of the schema cannot decide (then the string is NOT used as a near-miss)"""
    if at[0] == 'val':
        return collapse(s) == collapse(at[1])            # <value> is of type token unless said otherwise
    if at[0] == 'text':
        return True
    if at[0] == 'empty':
        return collapse(s) == u''
    if at[0] == 'data':
        ty, pat = at[1], at[2]
        if at[3]:
            params = dict(at[3])
            if pat is None and ty in ('decimal', 'double') and set(params) <= set(['minInclusive', 'maxInclusive']):
                t = collapse(s)
                if not XSD_LEXICAL[ty].match(t):
                    return False
                try:
                    from decimal import Decimal
                    d = Decimal(t.replace('INF', 'Infinity'))
                    return ((('minInclusive' not in params) or d >= Decimal(params['minInclusive']))
                            and (('maxInclusive' not in params) or d <= Decimal(params['maxInclusive'])))
                except Exception:
                    return None
            return None
        if pat is not None:
            rx = _facet(pat)
            if rx is None:
                return None
            return rx.fullmatch(s if ty == 'string' else collapse(s)) is not None
        if ty == 'string':
            return True
        if ty in XSD_LEXICAL:
            return XSD_LEXICAL[ty].match(collapse(s)) is not None
        return None
    if at[0] == 'list':
        toks = [x for x in re.split(u'[ \t\n\r]+', s) if x]
        r = _body_accepts(at[1], toks)
        return r
    return None


def _body_accepts(body, toks):
    """does the token sequence match the list body?  (None = undecidable somewhere)"""
    unknown = [False]
    def ends(parts, i):
        # set of positions reachable after matching `parts` from position i
        pos = set([i])
        for part in parts:
            nxt = set()
            for p in pos:
                if part[0] == 'item':
                    if p < len(toks):
                        rs = [atom_accepts(a, toks[p]) for a in part[1]]
                        if any(r is True for r in rs):
                            nxt.add(p + 1)
                        elif any(r is None for r in rs):
                            unknown[0] = True
                            nxt.add(p + 1)
                elif part[0] == 'opt':
                    nxt.add(p); nxt |= ends(part[1], p)
                else:
                    reach, frontier = set(), set([p])
                    if part[0] == 'star':
                        reach.add(p)
                    while frontier:
                        new = set()
                        for q in frontier:
                            for e in ends(part[1], q):
                                if e not in reach and e > q:
                                    new.add(e)
                        reach |= new
                        frontier = new
                    nxt |= reach
            pos = nxt
        return pos
    ok = len(toks) in ends(body, 0)      # undecidable items were taken as matching: a `False` is definite
    if not ok:
        return False
    return None if unknown[0] else True


def schema_rejects(dts, s):
    """the string is outside the lexical space of every datatype the schema gives this (element, attribute) pair"""
    return all(atom_accepts(at, s) is False for dt in dts for at in dt)


def one_element_package(e, a, v):
    """a text document package whose body holds the single element <e a="v"/> (written by hand, read by load())"""
    OFF = u'urn:oasis:names:tc:opendocument:xmlns:office:1.0'
    nsmap = {}
    for ns in (e[0], a[0]):
        if ns not in nsmap:
            nsmap[ns] = 'xml' if ns == XMLNS_URI else 'n%d' % len(nsmap)
    decls = u' '.join(u'xmlns:%s="%s"' % (p, ns) for ns, p in sorted(nsmap.items(), key=lambda x: x[1]) if p != 'xml')
    content = (u'<?xml version="1.0" encoding="UTF-8"?>\n<o:document-content xmlns:o="%s" %s o:version="1.2"><o:body><o:text>'
               u'<%s:%s %s:%s="%s"/></o:text></o:body></o:document-content>'
               % (OFF, decls, nsmap[e[0]], e[1], nsmap[a[0]], a[1], xml_attr(v)))
    zbuf = io.BytesIO()
    with zipfile.ZipFile(zbuf, 'w') as z:
        z.writestr('mimetype', 'application/vnd.oasis.opendocument.text')
        z.writestr('content.xml', content.encode('utf-8'))
        z.writestr('META-INF/manifest.xml',
                   '<?xml version="1.0" encoding="UTF-8"?>\n<manifest:manifest xmlns:manifest="urn:oasis:names:tc:opendocument:xmlns:manifest:1.0">'
                   '<manifest:file-entry manifest:media-type="application/vnd.oasis.opendocument.text" manifest:full-path="/"/>'
                   '<manifest:file-entry manifest:media-type="text/xml" manifest:full-path="content.xml"/></manifest:manifest>')
    zbuf.seek(0)
    return zbuf


def load_one(load, e, a, v):
    """what load() makes of <e a="v"/>: 'ok <stored>' / 'err ValueError' / 'err Other' (same vocabulary as set_get)"""
    try:
        doc = load(one_element_package(e, a, v))
    except ValueError:
        return 'err ValueError'
    except Exception:
        return 'err Other'
    kids = [n for n in doc.text.childNodes if n.nodeType == 1]
    if len(kids) != 1 or kids[0].qname != e:
        return 'err Other'
    got = kids[0].getAttrNS(a[0], a[1])
    return ('ok ' + enc_str(got)) if isinstance(got, str) else 'err Other'


# ---------------------------------------------------------------------- near misses
def near_misses(kind, valid, members=None):
    """strings that are *not* in the type, derived from valid values (the caller filters with the type authority)"""
    out = [u'']
    if kind == 'enum':
        for m in valid:
            out += [m + u'x', m + u'\n', m[:-1], m.upper() if m.upper() != m else m + u'_', u'x' + m]
        return out
    for v in valid[:4]:
        out += [v + u'junk', v + u'\n', v + u' ', u' ' + v, u'+' + v.lstrip(u'-'), v + v]
    if kind in ('length', 'percent'):
        # a full value of the type followed by something: the sign or unit of the sibling type, a second value, the unit's
        # last letter once more, a separator - what a pattern anchored on one alternative only, or not at all, lets through
        for v in valid[:4]:
            out += [v + u'%', v + u'cm', v + u' ' + v, v + v[-1], v + u';', v + u'\t', v + u'\r', v + u'\u00a0', v + u',']
        out += [u'1e3cm', u'1e3%', u'12em', u'12.5ex', u'12', u'12 cm', u'12CM', u'cm', u'%', u'.cm', u'-.%', u'1.2.3cm', u'1,5cm',
                u'12cm;', u'0x10pt', u'١٢cm']
    if kind == 'points':
        for v in valid[:3]:
            out += [v + u',', v + u' ' + v + u',5', v + u';', v + u'\t' + v]
        out += [u'1.5,2.5 3,4', u'1,2 3', u'1,2,3', u'1,2;3,4', u'1 2', u'1,2\t3,4', u',', u'1,', u'1,2 ']
    if kind == 'viewbox':
        out += [u'0 0 10', u'0 0 10.5 10', u'0,0,10,10', u'0 0 10 10 10', u'0 0 10 1e1', u'a b c d', u'0 0 10 10junk', u'--1 0 10 10',
                u'+-1 0 10 10', u'1,2,3,4', u'0\u00a00 10 10', u'0\u20030 10 10', u'0\x0b0 10 10', u'0 0 10 10.', u'0 0 10 + 10', u'0 0 10 0x10',
                u'\u0660 0 10 10', u'0;0;10;10', u'0 0 1_0 10', u'']
    return out


def run(chk, replay=None):
    from odf import attrconverters as ac
    from odf.element import Element
    from odf.opendocument import load
    chk.rule = ('every (element, attribute) pair of the schema x values drawn from the attribute\'s schema datatype (every '
                'enumeration member, min/max/random members of every pattern facet, fixed samples of every XSD built-in type); '
                'near-misses (suffix junk, trailing LF, blank, sign, exponent, wrong unit, empty, case) for every pair bound to a '
                'validated converter (a full value followed by the sibling type\'s unit or sign, a second value, a separator), through setAttrNS and, '
                'for a sample, through load() of a one-element package; str subclass instances through setAttrNS and the constructor; '
                'non-trivial = the bound converter is not identity-shaped, or the value is a near-miss')

    def set_get(el, attr, v):
        e = Element(qname=el, check_grammar=False)
        try:
            e.setAttrNS(attr[0], attr[1], v)
        except ValueError:
            return None, 'err ValueError'
        except Exception as ex:
            return None, 'err Other'
        got = e.getAttrNS(attr[0], attr[1])
        return e, ('ok ' + enc_str(got)) if isinstance(got, str) else 'err Other'

    def make_write(el, attr, v):
        """the value given to the CONSTRUCTOR (qattributes=), then what the element writes for it, read back with expat"""
        try:
            e = Element(qname=el, qattributes={attr: v}, check_grammar=False)
            buf = io.StringIO()
            e.toXml(0, buf)
            d = parse_attrs((u'<r>%s</r>' % buf.getvalue()).encode('utf-8'))
        except ValueError:
            return 'err ValueError'
        except Exception as ex:
            return 'err Other'
        got = d[0].get(attr) if len(d) == 1 else None
        return ('ok ' + enc_str(got)) if isinstance(got, str) else 'err Other'

    # common.Check keeps at most 50 failing inputs: report the first input of every signature, count the rest
    real_fail, seen_sig = chk.fail, set()
    def fail_once(sig, case, detail, replay=None):
        chk.count('fail:' + sig)
        if sig not in seen_sig:
            seen_sig.add(sig)
            return real_fail(sig, case, detail, replay)
    chk.fail = fail_once

    if replay is not None:
        inp = replay['input']
        if 'history' in inp:
            # the verdict on the last call must be what a fresh process gives (recorded in 'fresh'), whatever came before
            res = None
            for el, attr, v in inp['history']:
                _, res = set_get(tuple(el), tuple(attr), dec_str(v))
                print('replay: <%s> %s=%r -> %s' % (el[1], attr[1], dec_str(v), res))
            print('replay: a fresh process gives %s for the last call' % inp['fresh'])
            return 0 if res == inp['fresh'] else 1
        if inp.get('python') == 'str subclass' and inp.get('entry') == 'constructor':
            class Text(str):
                pass
            el, attr, v = tuple(inp['element']), tuple(inp['attribute']), dec_str(inp['value'])
            r1, r2 = make_write(el, attr, Text(v)), make_write(el, attr, v)
            print('replay: Element(<%s>, qattributes={%s: %r}) as a str subclass -> %s, as a str -> %s' % (el[1], attr[1], v, r1, r2))
            return 0 if r1 == r2 else 1
        if inp.get('python') == 'str subclass':
            class Text(str):
                pass
            el, attr, v = tuple(inp['element']), tuple(inp['attribute']), dec_str(inp['value'])
            r1, r2 = set_get(el, attr, Text(v))[1], set_get(el, attr, v)[1]
            print('replay: <%s> %s=%r as a str subclass -> %s, as a str -> %s' % (el[1], attr[1], v, r1, r2))
            return 0 if r1 == r2 else 1
        if 'python' in inp and 'value' not in inp:
            import math
            from decimal import Decimal
            given = eval(inp['python'], {'inf': float('inf'), 'nan': float('nan'), 'Decimal': Decimal, 'True': True, 'False': False})
            e, res = set_get(tuple(inp['element']), tuple(inp['attribute']), given)
            stored = dec_str(res[3:]) if res.startswith('ok ') else None
            print('replay: <%s> %s=%r (%s) -> %r' % (inp['element'][1], inp['attribute'][1], given, type(given).__name__, stored if stored is not None else res))
            if isinstance(given, bool):
                return 0 if stored == ('true' if given else 'false') else 1
            return 0 if stored == str(given) else 1
        if inp.get('via') == 'load':
            el, attr, v = tuple(inp['element']), tuple(inp['attribute']), dec_str(inp['value'])
            res = load_one(load, el, attr, v)
            print('replay: load() of <%s %s=%r/> -> %s (expected %s)' % (el[1], attr[1], v, res, inp['expect']))
            return 0 if res == 'err ValueError' else 1
        el, attr, v = tuple(inp['element']), tuple(inp['attribute']), dec_str(inp['value'])
        e, res = set_get(el, attr, v)
        print('replay: <%s> %s=%r -> %s (expected %s)' % (el[1], attr[1], v, res if e is None else repr(dec_str(res[3:])), inp['expect']))
        if inp['expect'] == 'reject':
            return 0 if res == 'err ValueError' else 1
        if e is None or dec_str(res[3:]) != v:
            return 1
        e.setAttrNS(attr[0], attr[1], dec_str(res[3:]))
        return 0 if e.getAttrNS(attr[0], attr[1]) == v else 1

    # ------------------------------------------------------------ 1 translate
    try:
        tr = T.Translation(common.REPO)
    except Exception as ex:      # the source no longer has the form the translator reads
        chk.obligation('translator: attrconverters.py / the schema can be read', False, repr(ex))
        return chk.finish()
    chk.write_generated('AttrConv', tr.lean_code())
    chk.write_generated('AttrSchema', tr.lean_schema())
    chk.write_generated('AttrTable', tr.lean_table())
    bad = [n for n, e in tr.code.patterns.items() if 'lean' not in e]
    chk.obligation('translator: every pattern_* of attrconverters.py is inside the parsed regex subset', not bad, ', '.join(bad))
    opaque = [n for n, k in tr.code.kinds.items() if k[0] == 'opaque'] + [n for n in tr.cnv_names if n != 'str' and n not in tr.code.kinds]
    chk.obligation('translator: the shape of every cnv_* function is recognised', not opaque, ', '.join(opaque))
    chk.extra_cov['translator'] = {'code_patterns': len(tr.code.patterns), 'converters': len(tr.cnv_names),
                                   'dict_entries': len(tr.bind), 'schema_occurrences': len(tr.rows),
                                   'element_attribute_pairs': len(set((e, a) for e, a, _ in tr.rows)),
                                   'distinct_datatypes': len(tr.dts), 'schema_patterns': len(tr.spats),
                                   'non_identity_cells': len(tr.cells_ni)}
    # ------------------------------------------------------------ 2 prove
    chk.prove(drivers=['drv_attr'])
    drv = chk.driver('drv_attr')
    vals = Values(tr, chk)
    thorough = chk.tier == 'thorough'
    K = 8 if thorough else 5

    name_of = T.converter_names(ac)     # by identity of the function object, not by its __name__
    def real_lookup(attr, el):
        f = ac.attrconverters.get((attr, el), None)
        if f is None:
            f = ac.attrconverters.get((attr, None), None)
        return name_of.get(id(f), getattr(f, '__name__', 'unnamed')) if f is not None else 'str'

    # authorities for the validated types: the schema's own pattern facets / value sets (independent of the code)
    auth = {}
    for name in ('length', 'percent', 'points'):
        auth[name] = re.compile(T.xsd_to_py(tr.define_pattern(name)))
    def in_type(tname, s):
        if tname == 'viewbox':
            return VIEWBOX_TYPE.fullmatch(s) is not None
        return auth[tname].fullmatch(s) is not None
    enum_union = {}
    for e, a, dt, _ in tr.occ:
        f = real_lookup(a, e)
        if f in ENUM_CONVERTERS:
            enum_union.setdefault(f, set()).update(at[1] for at in dt if at[0] == 'val')
    type_valid = {'length': [u'12cm', u'-0.5in', u'.5pt', u'3.mm', u'10px', u'1pc'], 'percent': [u'50%', u'-12.5%', u'.5%', u'7.%'],
                  'points': [u'1,2', u'1,2 -3,-4', u'0,0  10,10 5,5'], 'viewbox': [u'0 0 10 10', u'-5 -5  20 20', u'+0 -0\t007 +10']}

    # ------------------------------------------------------------ 3+4 the sweep over every (element, attribute) pair
    pairs = {}
    for e, a, dt, _ in tr.occ:
        pairs.setdefault((e, a), []).append(dt)
    frozen = {}
    with open(os.path.join(os.path.dirname(os.path.abspath(__file__)), 'c15_validated.txt'), encoding='utf-8') as f:
        for line in f:
            if line.startswith('#') or not line.strip():
                continue
            ens, el, ans, al, c = line.split()
            frozen[((ens, el), (ans, al))] = c
    group_dts = {}        # inventory converter -> the schema datatypes of all its pairs
    for (fe, fa), c in frozen.items():
        group_dts.setdefault(c, []).extend(pairs.get((fe, fa), []))
    cases = []            # (el, attr, value, expect, dt, cnvname)
    nm_used = {}
    seeded = {}
    # what is a value of one validated type is a near-miss for the others (and must stay one whatever was stored before)
    cross_values = [v for t in sorted(type_valid) for v in type_valid[t]] + [u'new', u'row', u'paragraph', u'simple', u'true']
    for (e, a) in sorted(pairs):
        cnvname = real_lookup(a, e)
        for dt in pairs[(e, a)]:
            for v, at in vals.datatype(dt, K):
                if xml_ok(v):
                    cases.append((e, a, v, 'keep', dt, cnvname))
        # near-misses of the validated type: of the converter bound now, or of the converter that validated this pair
        # on the pinned tree (frozen inventory) - so a pair that silently stops being validated is noticed
        nms = []
        vname = cnvname if (cnvname in PATTERN_TYPES or cnvname in ENUM_CONVERTERS) else frozen.get((e, a))
        if vname is not None and vname != cnvname:
            chk.count('validated_pair_rebound')
        cnv_now = cnvname
        cnvname = vname if vname is not None else cnvname
        # A near-miss is a perturbed schema-valid value that the SCHEMA rejects for this pair (and, for the pattern types, that
        # is outside the validated type named by the inventory).  Nothing here looks at what the code or the translator says.
        if cnvname in PATTERN_TYPES:
            types = PATTERN_TYPES[cnvname]
            for tname in types:
                for s in near_misses(tname, type_valid[tname]) + cross_values:
                    if not any(in_type(t2, s) for t2 in types) and schema_rejects(pairs[(e, a)], s) and s not in nms:
                        nms.append(s)
        elif cnvname in ENUM_CONVERTERS:
            # the validated type of an enumeration converter is the union of the schema's enumerations over the pairs the
            # inventory gives to that converter (xlink:show: new|replace|embed|none); a near-miss is outside all of them
            group = group_dts.get(cnvname, []) + pairs[(e, a)]
            members = sorted(set(at[1] for dt in group for at in dt if at[0] == 'val'))
            for s in near_misses('enum', members) + cross_values:
                if schema_rejects(group, s) and s not in nms:
                    nms.append(s)
        # values of the validated types are stored on the first pairs of each type (they are near-misses elsewhere)
        for tname, key in (('length', 'length'), ('percent', 'percent'), ('points', 'points'),
                           ('viewbox', 'list(integer,integer,integer,integer)')):
            if cnv_now in PATTERN_TYPES and tname in PATTERN_TYPES[cnv_now] and seeded.get(tname, 0) < 3:
                for dt in pairs[(e, a)]:
                    if tr.dt_key(dt) == key:
                        seeded[tname] = seeded.get(tname, 0) + 1
                        for v in type_valid[tname]:
                            if in_type(tname, v):
                                cases.append((e, a, v, 'keep', dt, cnv_now))
                        break
        if nms:
            first = cnvname not in nm_used
            nm_used[cnvname] = nm_used.get(cnvname, 0) + 1
            pick = nms if (first or thorough) else [nms[(nm_used[cnvname] * 7 + i * 3) % len(nms)] for i in range(12)] + \
                [x for x in cross_values if x in nms]
            for s in pick:
                cases.append((e, a, s, 'reject', None, cnvname))
        cnvname = cnv_now
    chk.obligation('sampler: every generated member of a schema pattern facet is a full match of that facet (Python re)',
                   not vals.sampler_mismatch, repr(vals.sampler_mismatch[:3]))

    qid = tr.qid
    # HISTORY: phase A = every near-miss in the fresh process (nothing has been converted yet); phase B = the schema-valid
    # values of every pair, their serialisation and a load(); phase C = every near-miss again, and a sample of phase B again.
    # The verdict on (element, attribute, value) must not depend on what was converted before.
    cases = [c for c in cases if c[3] == 'reject'] + [c for c in cases if c[3] != 'reject']
    answers = drv.batch('set %d %d %s' % (qid[a], qid[e], enc_str(v)) for e, a, v, _, _, _ in cases)
    verdict = {}          # (el, attr, value) -> verdict of the first call
    accepted_by_value = {}  # value -> earlier accepted calls with that value (the candidate history)
    def same_verdict(e, a, v, res, cnvname, phase):
        key = (e, a, v)
        if key not in verdict:
            verdict[key] = res
        elif verdict[key] != res:
            # candidate history: earlier accepted calls with the same string, those through validating converters first
            prev = [(e2, a2) for e2, a2 in accepted_by_value.get(v, []) if (e2, a2) != (e, a)]
            prev.sort(key=lambda p: 0 if real_lookup(p[1], p[0]) in PATTERN_TYPES else 1 if real_lookup(p[1], p[0]) not in ident else 2)
            hist = [[list(e2), list(a2), enc_str(v)] for e2, a2 in prev[:4]]
            chk.fail('history-dependent:%s' % cnvname,
                     {'history': hist + [[list(e), list(a), enc_str(v)]], 'fresh': verdict[key], 'phase': phase},
                     '<%s> %s=%r gave %s in a fresh process but %s after other values had been converted (e.g. the same string on %s)'
                     % (e[1], a[1], v, verdict[key], res, ', '.join('<%s> %s' % (h[0][1], h[1][1]) for h in hist) or 'other attributes'))
        if res.startswith('ok') and verdict[key] == res:
            accepted_by_value.setdefault(v, []).append((e, a))
    kept = []             # accepted and unchanged: serialisation / load are checked on these
    ident = set(tr.cnv_names[:tr.n_identity])
    for (e, a, v, expect, dt, cnvname), ans in zip(cases, answers):
        el, res = set_get(e, a, v)
        same_verdict(e, a, v, res, cnvname, 'A' if expect == 'reject' else 'B')
        chk.corr()
        if res != ans:
            chk.corr_diff({'element': list(e), 'attribute': list(a), 'value': enc_str(v)}, res, ans, 'setAttrNS then getAttrNS')
        case = {'element': list(e), 'attribute': list(a), 'value': enc_str(v), 'expect': expect}
        chk.case((e, a, v), nontrivial=(expect == 'reject' or cnvname not in ident),
                 sample={'element': e[1], 'attribute': a[1], 'value': v, 'converter': cnvname, 'result': res} if cnvname not in ident else None)
        chk.count('expect_' + expect); chk.count('cnv:' + cnvname)
        if expect == 'reject':
            if res != 'err ValueError':
                chk.fail('near-miss-accepted:%s' % cnvname, case,
                         '<%s> %s=%r (not a value of the validated type of %s) gave %s instead of ValueError' % (e[1], a[1], v, cnvname, res))
            continue
        sig = 'incompat:%s@%s' % (cnvname, tr.dt_key(dt))
        if el is None:
            chk.fail(sig, case, '<%s> %s=%r is schema-valid (%s) but setAttrNS raised (%s)' % (e[1], a[1], v, tr.dt_key(dt), res))
            continue
        got = dec_str(res[3:])
        if got != v:
            chk.fail(sig, case, '<%s> %s=%r is schema-valid (%s) but is stored as %r' % (e[1], a[1], v, tr.dt_key(dt), got))
            # a second conversion of the stored value
        el.setAttrNS(a[0], a[1], got)
        again = el.getAttrNS(a[0], a[1])
        if again != got:
            chk.fail(sig if got != v else 'second-conversion:%s' % cnvname, case,
                     'converting the stored value %r again gives %r' % (got, again))
        if got == v:
            kept.append((e, a, v, dt, cnvname, el))

    # ------------------------------------------------------------ serialised value (expat) and load()
    B = 1500
    for off in range(0, len(kept), B):
        batch = kept[off:off + B]
        buf = io.StringIO()
        buf.write(u'<r>')
        for e, a, v, dt, cnvname, el in batch:
            el.toXml(0, buf)
        buf.write(u'</r>')
        try:
            attrs = parse_attrs(buf.getvalue().encode('utf-8'))
        except xml.parsers.expat.ExpatError as ex:
            chk.fail('serialise-not-wellformed', {'element': list(batch[0][0])}, 'expat: %s' % ex)
            continue
        for (e, a, v, dt, cnvname, el), d in zip(batch, attrs):
            chk.count('serialised')
            if d.get(a) != v:
                chk.fail('serialised-changed:%s' % cnvname, {'element': list(e), 'attribute': list(a), 'value': enc_str(v), 'expect': 'keep'},
                         'written value parses back as %r' % (d.get(a),))
        # the same values arriving from a file
        nsmap, decl = {}, []
        body = []
        for e, a, v, dt, cnvname, el in batch:
            for ns in (e[0], a[0]):
                if ns not in nsmap:
                    nsmap[ns] = 'xml' if ns == XMLNS_URI else 'n%d' % len(nsmap)
            body.append(u'<%s:%s %s:%s="%s"/>' % (nsmap[e[0]], e[1], nsmap[a[0]], a[1], xml_attr(v)))
        OFF = u'urn:oasis:names:tc:opendocument:xmlns:office:1.0'
        decls = u' '.join(u'xmlns:%s="%s"' % (p, ns) for ns, p in sorted(nsmap.items(), key=lambda x: x[1]) if p != 'xml')
        content = (u'<?xml version="1.0" encoding="UTF-8"?>\n<o:document-content xmlns:o="%s" %s o:version="1.2"><o:body><o:text>%s'
                   u'</o:text></o:body></o:document-content>' % (OFF, decls, u''.join(body)))
        zbuf = io.BytesIO()
        with zipfile.ZipFile(zbuf, 'w') as z:
            z.writestr('mimetype', 'application/vnd.oasis.opendocument.text')
            z.writestr('content.xml', content.encode('utf-8'))
            z.writestr('META-INF/manifest.xml',
                       '<?xml version="1.0" encoding="UTF-8"?>\n<manifest:manifest xmlns:manifest="urn:oasis:names:tc:opendocument:xmlns:manifest:1.0">'
                       '<manifest:file-entry manifest:media-type="application/vnd.oasis.opendocument.text" manifest:full-path="/"/>'
                       '<manifest:file-entry manifest:media-type="text/xml" manifest:full-path="content.xml"/></manifest:manifest>')
        zbuf.seek(0)
        try:
            doc = load(zbuf)
            kids = [n for n in doc.text.childNodes if n.nodeType == 1]
        except Exception as ex:
            chk.fail('load-raised', {'element': list(batch[0][0]), 'n': len(batch)}, 'load() of schema-valid attribute values raised %r' % (ex,))
            continue
        if len(kids) != len(batch):
            chk.fail('load-count', {'n': len(batch)}, 'loaded %d of %d elements' % (len(kids), len(batch)))
            continue
        for (e, a, v, dt, cnvname, el), k in zip(batch, kids):
            chk.count('loaded')
            got = k.getAttrNS(a[0], a[1])
            if k.qname != e or got != v:
                chk.fail('loaded-changed:%s' % cnvname, {'element': list(e), 'attribute': list(a), 'value': enc_str(v), 'expect': 'keep'},
                         'after load() the value is %r' % (got,))

    # ------------------------------------------------------------ near-misses arriving from a file
    # the first near-misses of every validated converter and a seeded sample of the rest, one package each: a value that
    # setAttrNS must refuse must be refused when load() meets it (the conversion is the same wherever the string comes from)
    rejects = [c for c in cases if c[3] == 'reject' and xml_ok(c[2])]
    per_cnv, chosen = {}, []
    for c in rejects:
        per_cnv[c[5]] = per_cnv.get(c[5], 0) + 1
        if per_cnv[c[5]] <= (60 if thorough else 12):
            chosen.append(c)
    rest = rejects
    chosen += [rest[i] for i in sorted(chk.rng.sample(range(len(rest)), min(len(rest), 1500 if thorough else 60)))]
    seen_l = set()
    for e, a, v, expect, dt, cnvname in chosen:
        if (e, a, v) in seen_l:
            continue
        seen_l.add((e, a, v))
        res = load_one(load, e, a, v)
        chk.count('near_miss_loaded'); chk.case((e, a, v, 'load'), nontrivial=True)
        if res != 'err ValueError':
            chk.fail('near-miss-accepted-on-load:%s' % cnvname,
                     {'element': list(e), 'attribute': list(a), 'value': enc_str(v), 'expect': 'reject', 'via': 'load'},
                     'load() of <%s %s=%r/> (not a value of the validated type of %s) gave %s instead of ValueError' % (e[1], a[1], v, cnvname, res))

    # ------------------------------------------------------------ phase C: the same questions again, after that history
    again = [(c, ans) for c, ans in zip(cases, answers) if c[3] == 'reject']
    keeps = [(c, ans) for c, ans in zip(cases, answers) if c[3] != 'reject']
    again += [keeps[i] for i in sorted(chk.rng.sample(range(len(keeps)), min(len(keeps), 6000 if thorough else 2000)))]
    chk.rng.shuffle(again)
    for (e, a, v, expect, dt, cnvname), ans in again:
        el, res = set_get(e, a, v)
        chk.corr(); chk.count('phaseC_' + expect)
        if res != ans:
            chk.corr_diff({'element': list(e), 'attribute': list(a), 'value': enc_str(v), 'phase': 'C'}, res, ans,
                          'setAttrNS then getAttrNS, after other values have been converted')
        same_verdict(e, a, v, res, cnvname, 'C')

    # ------------------------------------------------------------ correspondence: converters, patterns, lookup order
    probe_el = Element(qname=(u'urn:oasis:names:tc:opendocument:xmlns:text:1.0', u'p'), check_grammar=False)
    pool = list(GENERIC)
    for p in tr.spats:
        pool.extend(vals.pattern_samples(p)[:3])
    for tname in type_valid:
        pool.extend(type_valid[tname]); pool.extend(near_misses(tname, type_valid[tname])[:12])
    for f in sorted(enum_union):
        pool.extend(sorted(enum_union[f]))
    for _ in range(600 if thorough else 150):
        n = chk.rng.randint(1, 12)
        pool.append(u''.join(chk.rng.choice(u'0123456789-+.,% :cmintpxe_aZé\n') for _ in range(n)))
    pool = sorted(set(pool))
    lines, expect = [], []
    for name in tr.cnv_names:
        if name == 'str':
            continue
        fn = getattr(ac, name, None)
        for s in pool:
            try:
                r = fn((u'ns', u'attr'), s, probe_el)
                out = ('ok ' + enc_str(r)) if isinstance(r, str) else 'err Other'
            except ValueError:
                out = 'err ValueError'
            except Exception:
                out = 'err Other'
            lines.append('conv %s %s' % (name, enc_str(s))); expect.append(out)
    for pname in sorted(tr.code.patterns):
        if 'lean' not in tr.code.patterns[pname]:
            continue
        pat = getattr(ac, pname)
        mine = list(pool) + T.re_samples(tr.code.patterns[pname]['ast'], chk.rng, 12)
        for s in mine:
            lines.append('match %s %s' % (pname, enc_str(s))); expect.append('ok 1' if pat.match(s) is not None else 'ok 0')
            lines.append('full %s %s' % (pname, enc_str(s))); expect.append('ok 1' if pat.fullmatch(s) is not None else 'ok 0')
    for p in tr.spats:
        if tr.spat_ast[p] is None:
            continue
        rx = re.compile(T.xsd_to_py(p))
        for s in pool + vals.pattern_samples(p):
            if u'\n' in s or u'\r' in s:
                continue        # `.` of XSD excludes CR as well; keep the independent check on one-line strings
            lines.append('smatch %d %s' % (tr.spid[p], enc_str(s))); expect.append('ok 1' if rx.fullmatch(s) is not None else 'ok 0')
    keys = sorted(set((a, e) for (e, a) in pairs) | set((a, e) for (a, e) in tr.bind if e is not None))
    for _ in range(500):
        keys.append((chk.rng.choice(tr.qnames), chk.rng.choice(tr.qnames)))
    for a, e in keys:
        lines.append('bind %d %d' % (qid[a], qid[e])); expect.append('ok ' + real_lookup(a, e))
    got = drv.batch(lines)
    for l, x, g in zip(lines, expect, got):
        chk.corr(); chk.count('corr_' + l.split(' ', 1)[0])
        if x != g:
            chk.corr_diff({'line': l}, x, g, 'converter / pattern / lookup correspondence')
    # the converters once more in the opposite order (a converter's answer must not depend on the calls before it)
    for l, x, g in reversed(list(zip(lines, expect, got))):
        if not l.startswith('conv '):
            continue
        _, name, w = l.split(' ')
        try:
            r = getattr(ac, name)((u'ns', u'attr'), dec_str(w), probe_el)
            out = ('ok ' + enc_str(r)) if isinstance(r, str) else 'err Other'
        except ValueError:
            out = 'err ValueError'
        except Exception:
            out = 'err Other'
        chk.corr(); chk.count('corr_conv_reversed')
        if out != g:
            chk.corr_diff({'line': l, 'order': 'reversed'}, out, g, 'converter correspondence, second pass in reverse order')
        if out != x:
            chk.fail('history-dependent:%s' % name, {'history': [], 'fresh': x, 'line': l},
                     '%s(%r) gave %s first and %s when called again later in the same process' % (name, dec_str(w), x, out))

    # ------------------------------------------------------------ numbers (and other non-str arguments) through the API
    # The property speaks of LEXICAL values.  A Python object is in scope only when str(object) IS a lexical value of the
    # attribute's schema datatype (decided by the independent reading of the .rng above): then it must be accepted and
    # stored as exactly that string.  Anything else (float('inf') -> 'inf', 1e-07 on an xsd:decimal, a bool on an attribute
    # that is not bound to cnv_boolean -> 'True') carries no expectation: counted as typed_args_out_of_scope, never a failure.
    # A bool on a cnv_boolean attribute is the documented canonicalisation True/False -> true/false.
    import math
    from decimal import Decimal
    class Text(str):
        pass
    def typed_values(ty, params):
        ints = [0, 1, 7, 10, 255, 12345678901234567890, -3, -12345678901234567890]
        out = [('int', i) for i in ints]
        if ty in ('double', 'decimal'):
            fl = [0.5, 0.25, math.pi / 4, 0.1 + 0.2, 1.0 / 3, 0.1, 1e-7, 0.30000000000000004, 0.9999999999999999, -0.0, 0.0,
                  math.pi, math.e * 1e5, 123456789.12345679, 1e22, 1e21, 1e16, 9007199254740993.0, 1.7976931348623157e308, 5e-324,
                  -2.5, -1e-300, 2.0 ** 70, 100.0, 4.35, 1e15 + 0.3, float('inf'), float('-inf'), float('nan')]
            out += [('float', f) for f in fl]
            out += [('Decimal', d) for d in (Decimal('0.25'), Decimal('12'), Decimal('-3.50'), Decimal('0.1'), Decimal('1.000'),
                                             Decimal('0.12345678901234567890123'), Decimal('1E+2'))]
        return out
    typed_done = {}
    for (e, a) in sorted(pairs):
        cnvname = real_lookup(a, e)
        for dt in pairs[(e, a)]:
            if set(dt) == set([('val', 'false'), ('val', 'true')]):
                if typed_done.get(('bool', cnvname), 0) >= 40:
                    continue
                typed_done[('bool', cnvname)] = typed_done.get(('bool', cnvname), 0) + 1
                for given, want in ((True, u'true'), (False, u'false')):
                    if cnvname != 'cnv_boolean':
                        chk.count('typed_args_out_of_scope')
                        continue
                    el, res = set_get(e, a, given)
                    chk.count('typed_bool'); chk.case((e, a, 'bool', given), nontrivial=True)
                    if res != 'ok ' + enc_str(want):
                        chk.fail('typed-arg:bool:%s' % cnvname, {'element': list(e), 'attribute': list(a), 'python': repr(given)},
                                 '<%s> %s=%r (a bool for an attribute bound to cnv_boolean) gave %s, expected %r' % (e[1], a[1], given, res, want))
                continue
            if len(dt) != 1 or dt[0][0] != 'data' or dt[0][2] is not None:
                continue
            ty, params = dt[0][1], dict(dt[0][3])
            if ty not in ('double', 'decimal', 'integer', 'nonNegativeInteger', 'positiveInteger'):
                continue
            key = (cnvname, tr.dt_key(dt))
            typed_done[key] = typed_done.get(key, 0) + 1
            if typed_done[key] > (1000 if thorough else 12):
                continue
            for kind, given in typed_values(ty, params):
                text = str(given)
                if atom_accepts(dt[0], text) is not True:
                    chk.count('typed_args_out_of_scope')
                    continue
                el, res = set_get(e, a, given)
                chk.count('typed_' + kind)
                chk.case((e, a, kind, repr(given)), nontrivial=True,
                         sample={'element': e[1], 'attribute': a[1], 'python': repr(given), 'result': res} if kind == 'float' else None)
                if res != 'ok ' + enc_str(text):
                    chk.fail('typed-arg:%s:%s@%s' % (kind, cnvname, tr.dt_key(dt)),
                             {'element': list(e), 'attribute': list(a), 'python': repr(given)},
                             '<%s> %s=%r (a Python %s whose str() %r is a lexical value of %s) gave %s instead of storing that string'
                             % (e[1], a[1], given, type(given).__name__, text, tr.dt_key(dt), res))
    # a str subclass is a str
    for (e, a, v, expect, dt, cnvname), ans in [ca for i, ca in enumerate(zip(cases, answers)) if i % 7 == 0]:
        el, res = set_get(e, a, Text(v))
        _, plain = set_get(e, a, v)
        chk.count('typed_str_subclass')
        if res != plain:
            chk.fail('typed-arg:str-subclass:%s' % cnvname, {'element': list(e), 'attribute': list(a), 'value': enc_str(v), 'python': 'str subclass'},
                     '<%s> %s=%r given as an instance of a str subclass gave %s, as a str %s' % (e[1], a[1], v, res, plain))

    # ... also when it is handed to the constructor, and in what is written then (for the cases the plain str is kept unchanged)
    for (e, a, v, expect, dt, cnvname), ans in [ca for i, ca in enumerate(zip(cases, answers)) if i % (7 if thorough else 21) == 3]:
        if not xml_ok(v):
            continue
        plain = make_write(e, a, v)
        res = make_write(e, a, Text(v))
        chk.count('typed_str_subclass_constructor')
        if res != plain:
            chk.fail('typed-arg:str-subclass:%s' % cnvname,
                     {'element': list(e), 'attribute': list(a), 'value': enc_str(v), 'python': 'str subclass', 'entry': 'constructor'},
                     'Element(<%s>, qattributes={%s: %r}) with an instance of a str subclass is written as %s, with a str as %s' % (e[1], a[1], v, res, plain))

    # ------------------------------------------------------------ search when a proof or the correspondence broke
    def deep():
        for (e, a) in sorted(pairs):
            cnvname = real_lookup(a, e)
            for dt in pairs[(e, a)]:
                for v, at in vals.datatype(dt, 12):
                    if not xml_ok(v):
                        continue
                    el, res = set_get(e, a, v)
                    if el is None or dec_str(res[3:]) != v:
                        chk.fail('incompat:%s@%s' % (cnvname, tr.dt_key(dt)),
                                 {'element': list(e), 'attribute': list(a), 'value': enc_str(v), 'expect': 'keep'},
                                 '<%s> %s=%r is schema-valid but gave %s' % (e[1], a[1], v, res))
    chk.deep_search = deep
    return chk.finish()

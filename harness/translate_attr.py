# -*- coding: utf-8 -*-
"""
Translator for property C15 (and the two regexes of C20): source -> Lean tables.

  odf/attrconverters.py  --AST-->   every `pattern_* = re.compile(...)` parsed into an `RE` term,
                                    the anchoring mode of each use (match/fullmatch/search, trailing \\Z or $),
                                    the *kind* (shape) of every `cnv_*` function with its literal tuples,
                                    `make_NCName`, `__save_prefix`
  odf/attrconverters.py  --import-> the `attrconverters` dict: (attribute qname, element qname | None) -> function NAME,
                                    and the code points `str.lower()` sends to an ASCII letter (complete probe)
  grammar/*.rng          --xml--->  (element, attribute, datatype normal form) for every attribute occurrence,
                                    the schema's own `pattern` facets parsed into `RE`
  odf/easyliststyle.py   --AST-->   numFormatPattern / cssLengthPattern character classes (C20)

Output: lean/OdfModel/Generated/AttrConv.lean, AttrSchema.lean, EasyListRe.lean (text returned; the check
writes them with chk.write_generated).  Nothing here evaluates a converter: it is a syntactic dump.
"""
import ast, os, re, sys, importlib
import attr_schema


class Unsupported(Exception):
    pass


# ====================================================================== regular expressions
# AST: ('cls', neg, ((lo,hi),...)) | ('seq', [..]) | ('alt', [..]) | ('star', x) | ('plus', x) | ('opt', x)
#      | ('rep', m, n_or_None, x) | ('eps',)
ANY_NO_LF = ('cls', True, ((10, 10),))
ANY_XSD = ('cls', True, ((10, 10), (13, 13)))

_py_space = None


def py_space_ranges():
    """code points matched by Python's \\s in a str pattern (complete probe)"""
    global _py_space
    if _py_space is None:
        sp = re.compile(r'\s')
        cps = [c for c in range(0x110000) if sp.match(chr(c))]
        _py_space = tuple(_to_ranges(cps))
    return _py_space


def _to_ranges(cps):
    out = []
    for c in sorted(cps):
        if out and out[-1][1] + 1 == c:
            out[-1][1] = c
        else:
            out.append([c, c])
    return [tuple(x) for x in out]


class _P(object):
    def __init__(self, src, flavour):
        self.s = src
        self.i = 0
        self.fl = flavour       # 'py' | 'xsd'
        self.end = None         # None | 'Z' | '$'

    def peek(self):
        return self.s[self.i] if self.i < len(self.s) else None

    def parse(self):
        r = self.alt()
        if self.i != len(self.s):
            raise Unsupported('unbalanced ) at %d in %r' % (self.i, self.s))
        return r

    def alt(self):
        branches = [self.seq()]
        while self.peek() == '|':
            self.i += 1
            branches.append(self.seq())
        return branches[0] if len(branches) == 1 else ('alt', branches)

    def seq(self):
        items = []
        while self.peek() is not None and self.peek() not in '|)':
            a = self.atom()
            if a is None:
                continue
            a = self.quant(a)
            items.append(a)
        if not items:
            return ('eps',)
        return items[0] if len(items) == 1 else ('seq', items)

    def quant(self, a):
        while True:
            c = self.peek()
            if c == '*':
                self.i += 1; a = ('star', a)
            elif c == '+':
                self.i += 1; a = ('plus', a)
            elif c == '?':
                self.i += 1; a = ('opt', a)
            elif c == '{':
                m = re.compile(r'\{(\d+)(,(\d*))?\}').match(self.s, self.i)
                if not m:
                    raise Unsupported('bad {} at %d in %r' % (self.i, self.s))
                self.i = m.end()
                lo = int(m.group(1))
                if m.group(2) is None:
                    hi = lo
                elif m.group(3) == '':
                    hi = None
                else:
                    hi = int(m.group(3))
                a = ('rep', lo, hi, a)
            else:
                return a
            if self.peek() in ('?', '+') and self.fl == 'py':
                raise Unsupported('lazy/possessive quantifier in %r' % self.s)

    def atom(self):
        c = self.s[self.i]
        if c == '(':
            self.i += 1
            if self.s.startswith('?:', self.i):
                self.i += 2
            elif self.peek() == '?':
                raise Unsupported('group extension in %r' % self.s)
            r = self.alt()
            if self.peek() != ')':
                raise Unsupported('missing ) in %r' % self.s)
            self.i += 1
            return r
        if c == '[':
            return self.cls()
        if c == '.':
            self.i += 1
            return ANY_NO_LF if self.fl == 'py' else ANY_XSD
        if c == '\\':
            return self.escape(False)
        if c in '*+?{':
            raise Unsupported('dangling quantifier in %r' % self.s)
        if c in '^$' and self.fl == 'py':
            if c == '$' and self.i == len(self.s) - 1:
                self.i += 1
                self.end = '$'
                return None
            raise Unsupported('anchor %s inside %r' % (c, self.s))
        self.i += 1
        return ('cls', False, ((ord(c), ord(c)),))

    def escape(self, in_class):
        # at a backslash
        c = self.s[self.i + 1] if self.i + 1 < len(self.s) else None
        if c is None:
            raise Unsupported('trailing backslash')
        self.i += 2
        if c == 'Z' and self.fl == 'py' and not in_class:
            if self.i != len(self.s):
                raise Unsupported('\\Z not at the end of %r' % self.s)
            self.end = 'Z'
            return None
        if c == 's':
            if self.fl == 'py':
                return ('cls', False, py_space_ranges())
            return ('cls', False, ((9, 10), (13, 13), (32, 32)))
        if c == 'd' and self.fl == 'py':
            raise Unsupported('\\d (Unicode digits) in %r' % self.s)
        if c in 'nrt':
            v = {'n': 10, 'r': 13, 't': 9}[c]
            return ('cls', False, ((v, v),))
        if c.isalnum():
            raise Unsupported('escape \\%s in %r' % (c, self.s))
        return ('cls', False, ((ord(c), ord(c)),))

    def cls(self):
        assert self.s[self.i] == '['
        self.i += 1
        neg = False
        if self.peek() == '^':
            neg = True; self.i += 1
        rs = []
        first = True
        while True:
            c = self.peek()
            if c is None:
                raise Unsupported('unterminated class in %r' % self.s)
            if c == ']' and not first:
                self.i += 1
                break
            first = False
            if c == '[':
                raise Unsupported('nested class / subtraction in %r' % self.s)
            lo = self._cls_char()
            if self.peek() == '-' and self.i + 1 < len(self.s) and self.s[self.i + 1] != ']':
                if self.s[self.i + 1] == '[':
                    raise Unsupported('class subtraction in %r' % self.s)
                self.i += 1
                hi = self._cls_char()
                if isinstance(lo, tuple) or isinstance(hi, tuple) or hi < lo:
                    raise Unsupported('bad range in %r' % self.s)
                rs.append((lo, hi))
            else:
                if isinstance(lo, tuple):
                    rs.extend(lo)
                else:
                    rs.append((lo, lo))
        return ('cls', neg, tuple(rs))

    def _cls_char(self):
        c = self.s[self.i]
        if c == '\\':
            a = self.escape(True)
            if a is None or a[0] != 'cls' or a[1]:
                raise Unsupported('escape in class of %r' % self.s)
            if len(a[2]) == 1 and a[2][0][0] == a[2][0][1]:
                return a[2][0][0]
            return tuple(a[2])
        self.i += 1
        return ord(c)


def parse_regex(src, flavour):
    """-> (ast, end) with end in (None, 'Z', '$'); raises Unsupported"""
    p = _P(src, flavour)
    return p.parse(), p.end


def re_lean(a):
    k = a[0]
    if k == 'eps':
        return 'RE.eps'
    if k == 'cls':
        if not a[1] and len(a[2]) == 1 and a[2][0][0] == a[2][0][1]:
            return '(RE.chr %d)' % a[2][0][0]
        return '(RE.cls %s [%s])' % ('true' if a[1] else 'false', ', '.join('(%d, %d)' % r for r in a[2]))
    if k == 'seq':
        out = re_lean(a[1][-1])
        for x in reversed(a[1][:-1]):
            out = '(RE.seq %s %s)' % (re_lean(x), out)
        return out
    if k == 'alt':
        out = re_lean(a[1][-1])
        for x in reversed(a[1][:-1]):
            out = '(RE.alt %s %s)' % (re_lean(x), out)
        return out
    if k == 'star':
        return '(RE.star %s)' % re_lean(a[1])
    if k == 'plus':
        return '(RE.plus %s)' % re_lean(a[1])
    if k == 'opt':
        return '(RE.opt %s)' % re_lean(a[1])
    if k == 'rep':
        if a[2] is None:
            return '(RE.repMin %d %s)' % (a[1], re_lean(a[3]))
        if a[2] < a[1]:
            raise Unsupported('{m,n} with n<m')
        return '(RE.rep %d %d %s)' % (a[1], a[2], re_lean(a[3]))
    raise Unsupported(repr(a))


# ---------------------------------------------------------------------- sampling strings of a regex (harness side)
_NEG_CANDIDATES = [ord(x) for x in u'aZ0 _-.:%é'] + [0x1F600, 10, 0x4e2d]


def _cls_pick(a, rng, which):
    neg, rs = a[1], a[2]
    if not neg:
        pts = []
        for lo, hi in rs:
            pts.extend([lo, hi])
        if which == 'min':
            return pts[0]
        if which == 'max':
            return pts[-1]
        lo, hi = rng.choice(list(rs))
        return rng.randint(lo, hi)
    ok = [c for c in _NEG_CANDIDATES if not any(lo <= c <= hi for lo, hi in rs)]
    if which == 'min':
        return ok[0]
    if which == 'max':
        return ok[-1]
    return rng.choice(ok)


def re_sample(a, rng, which):
    """one member of L(a) as a str; which in 'min' | 'max' | 'rand'"""
    k = a[0]
    if k == 'eps':
        return u''
    if k == 'cls':
        return chr(_cls_pick(a, rng, which))
    if k == 'seq':
        return u''.join(re_sample(x, rng, which) for x in a[1])
    if k == 'alt':
        if which == 'min':
            return re_sample(a[1][0], rng, which)
        if which == 'max':
            return re_sample(a[1][-1], rng, which)
        return re_sample(rng.choice(a[1]), rng, which)
    if k in ('star', 'plus', 'opt', 'rep'):
        if k == 'star':
            lo, hi, x = 0, 3, a[1]
        elif k == 'plus':
            lo, hi, x = 1, 4, a[1]
        elif k == 'opt':
            lo, hi, x = 0, 1, a[1]
        else:
            lo, x = a[1], a[3]
            hi = a[2] if a[2] is not None else a[1] + 2
        n = lo if which == 'min' else hi if which == 'max' else rng.randint(lo, hi)
        return u''.join(re_sample(x, rng, 'rand' if which == 'rand' else which) for _ in range(n))
    raise ValueError(a)


def re_samples(a, rng, n=6):
    out = [re_sample(a, rng, 'min'), re_sample(a, rng, 'max')]
    for _ in range(n):
        out.append(re_sample(a, rng, 'rand'))
    seen, res = set(), []
    for s in out:
        if s not in seen:
            seen.add(s); res.append(s)
    return res


def xsd_to_py(src):
    """an XSD pattern (subset parsed above) as a Python regex source for an *independent* full match:
    in XSD `$` and `^` are ordinary characters"""
    out, i, in_cls = [], 0, False
    while i < len(src):
        c = src[i]
        if c == '\\':
            out.append(src[i:i + 2]); i += 2; continue
        if c == '[':
            in_cls = True
        elif c == ']':
            in_cls = False
        if c in '$^' and not in_cls:
            out.append('\\' + c)
        elif c == '^' and in_cls and src[i - 1] != '[':
            out.append('\\^')
        else:
            out.append(c)
        i += 1
    return ''.join(out)


# ====================================================================== attrconverters.py
def lean_str(s):
    return '[' + ', '.join(str(ord(c)) for c in s) + ']'


def lean_string_lit(s):
    out = []
    for c in s:
        if c == '"' or c == '\\':
            out.append('\\' + c)
        elif 32 <= ord(c) < 127:
            out.append(c)
        else:
            out.append('\\u{%x}' % ord(c))
    return '"' + ''.join(out) + '"'


IS_STR_TESTS = {
    "sys.version_info[0] == 3 and isinstance(arg, str) or (sys.version_info[0] == 2 and type(arg) in types.StringTypes)",
    "isinstance(arg, str)",
}
IS_PY2_TESTS = {"sys.version_info[0] == 2"}


def _body(fn):
    b = list(fn.body)
    if b and isinstance(b[0], ast.Expr) and isinstance(getattr(b[0], 'value', None), ast.Constant) \
            and isinstance(b[0].value.value, str):
        b = b[1:]
    return [s for s in b if not isinstance(s, ast.Global)]


def _u(n):
    return ast.unparse(n)


def _is_raise_valueerror(stmts):
    return (len(stmts) == 1 and isinstance(stmts[0], ast.Raise) and stmts[0].exc is not None
            and isinstance(stmts[0].exc, ast.Call) and _u(stmts[0].exc.func) == 'ValueError')


def _const_tuple(n):
    if isinstance(n, (ast.Tuple, ast.List, ast.Set)) and all(isinstance(e, ast.Constant) and isinstance(e.value, str) for e in n.elts):
        return [e.value for e in n.elts]
    return None


class CodeSide(object):
    def __init__(self, repo):
        self.repo = repo
        path = os.path.join(repo, 'odf', 'attrconverters.py')
        with open(path, encoding='utf-8') as f:
            self.src = f.read()
        self.tree = ast.parse(self.src)
        self.funcs = {}
        self.patterns = {}      # name -> {'src', 'ast', 'end', 'lean'} or {'src', 'unsupported'}
        env = {}                # module-level string constants (a pattern may be assembled from them with `+`)
        def fold(n):
            if isinstance(n, ast.Constant) and isinstance(n.value, str):
                return n.value
            if isinstance(n, ast.Name) and n.id in env:
                return env[n.id]
            if isinstance(n, ast.BinOp) and isinstance(n.op, ast.Add):
                l, r = fold(n.left), fold(n.right)
                return l + r if l is not None and r is not None else None
            if isinstance(n, ast.IfExp) and isinstance(n.test, ast.Compare) and _u(n.test.left) == 'sys.maxunicode' \
                    and len(n.test.ops) == 1 and isinstance(n.test.ops[0], ast.GtE) \
                    and isinstance(n.test.comparators[0], ast.Constant) and isinstance(n.test.comparators[0].value, int):
                # `X if sys.maxunicode >= K else Y`: the reading of THIS interpreter (the one the correspondence runs on)
                import sys as _sys
                return fold(n.body if _sys.maxunicode >= n.test.comparators[0].value else n.orelse)
            return None
        for node in self.tree.body:
            if isinstance(node, ast.Assign) and len(node.targets) == 1 and isinstance(node.targets[0], ast.Name):
                v = fold(node.value)
                if v is not None:
                    env[node.targets[0].id] = v
                else:
                    env.pop(node.targets[0].id, None)
            if isinstance(node, ast.FunctionDef):
                self.funcs[node.name] = node
            elif isinstance(node, ast.Assign) and len(node.targets) == 1 and isinstance(node.targets[0], ast.Name) \
                    and node.targets[0].id.startswith('pattern_') and isinstance(node.value, ast.Call) \
                    and _u(node.value.func) == 're.compile':
                name = node.targets[0].id
                args = node.value.args
                ent = {'src': None}
                if len(args) == 1 and fold(args[0]) is not None and not node.value.keywords:
                    ent['src'] = fold(args[0])
                    try:
                        a, end = parse_regex(ent['src'], 'py')
                        ent.update(ast=a, end=end, lean=re_lean(a))
                    except Unsupported as e:
                        ent['unsupported'] = str(e)
                else:
                    ent['unsupported'] = 'flags or non-literal pattern'
                self.patterns[name] = ent
        self.identity_helpers = set()
        if '__save_prefix' in self.funcs and self._helper_is_identity(self.funcs['__save_prefix']):
            self.identity_helpers.add('__save_prefix')
        self.hex_chars = self._make_ncname()
        self.kinds = {}
        self.pattern_uses = {}   # cnv name -> (pattern name, method)
        for name in sorted(self.funcs):
            if name.startswith('cnv_'):
                self.kinds[name] = self.kind_of(name, set())
        # converters made by a factory: `cnv_x = F("a", "b", ...)` with F returning a closure that tests membership
        factories = set(n for n, fn in self.funcs.items() if self._is_enum_factory(fn))
        for node in self.tree.body:
            if isinstance(node, ast.Assign) and len(node.targets) == 1 and isinstance(node.targets[0], ast.Name) \
                    and node.targets[0].id.startswith('cnv_') and isinstance(node.value, ast.Call) \
                    and isinstance(node.value.func, ast.Name):
                name = node.targets[0].id
                members = [a.value for a in node.value.args if isinstance(a, ast.Constant) and isinstance(a.value, str)]
                if node.value.func.id in factories and len(members) == len(node.value.args) \
                        and all(k.arg in ('doc',) for k in node.value.keywords):
                    self.kinds[name] = ('enum', members)
                else:
                    self.kinds[name] = ('opaque', 'made by an unrecognised call')

    # --- helpers whose every return is `arg` / `str(arg)` and which never raise
    def _helper_is_identity(self, fn):
        for n in ast.walk(fn):
            if isinstance(n, ast.Raise):
                return False
            if isinstance(n, ast.Return) and (n.value is None or _u(n.value) not in ('arg', 'str(arg)')):
                return False
        return True

    def _is_enum_factory(self, fn):
        """def F(*members, **kw): allowed = frozenset(members); def inner(attribute, arg, element): [value = str(arg)];
        if value not in allowed: raise ValueError; return value;  [inner.__doc__ = ...]; return inner"""
        if fn.args.vararg is None or fn.args.args:
            return False
        var = fn.args.vararg.arg
        allowed, inner = None, None
        b = _body(fn)
        if not b or not isinstance(b[-1], ast.Return) or not isinstance(b[-1].value, ast.Name):
            return False
        for st in b[:-1]:
            if isinstance(st, ast.Assign) and len(st.targets) == 1 and isinstance(st.targets[0], ast.Name) \
                    and _u(st.value) in ('frozenset(%s)' % var, 'set(%s)' % var, 'tuple(%s)' % var, var):
                allowed = st.targets[0].id
            elif isinstance(st, ast.FunctionDef):
                inner = st
            elif isinstance(st, ast.Assign) and len(st.targets) == 1 and isinstance(st.targets[0], ast.Attribute) \
                    and st.targets[0].attr in ('__doc__', '__name__'):
                pass
            else:
                return False
        if allowed is None or inner is None or b[-1].value.id != inner.name:
            return False
        if [a.arg for a in inner.args.args] != ['attribute', 'arg', 'element']:
            return False
        ib = _body(inner)
        val = 'str(arg)'
        if ib and _u(ib[0]) == 'value = str(arg)':
            val, ib = 'value', ib[1:]
        return (len(ib) == 2 and isinstance(ib[0], ast.If) and not ib[0].orelse and _is_raise_valueerror(ib[0].body)
                and _u(ib[0].test) in ('%s not in %s' % (val, allowed), 'str(arg) not in %s' % allowed)
                and _u(ib[1]) in ('return %s' % val, 'return str(arg)'))

    def _make_ncname(self):
        fn = self.funcs.get('make_NCName')
        if fn is None:
            return None
        b = _body(fn)
        if len(b) == 2 and isinstance(b[0], ast.For) and _u(b[1]) == 'return arg' and _u(b[0].target) == 'c' \
                and len(b[0].body) == 1 and not b[0].orelse \
                and _u(b[0].body[0]) in ("arg = arg.replace(c, '_%x_' % ord(c))",):
            chars = _const_tuple(b[0].iter)
            if chars is not None and all(len(c) == 1 for c in chars):
                return [ord(c) for c in chars]
        return None

    def _ret_identity(self, stmt):
        if not isinstance(stmt, ast.Return) or stmt.value is None:
            return False
        v = _u(stmt.value)
        if v in ('arg', 'str(arg)', 'unicode(arg)'):
            return True
        for h in self.identity_helpers:
            if v == '%s(attribute, arg, element)' % h:
                return True
        return False

    def kind_of(self, name, busy):
        """-> a kind tuple: ('identity',) ('enum', [..]) ('ciMap', [([..], c)..]) ('pattern', pname, method)
        ('hexEscape', [..]) ('joinChars', sep) ('firstOf', k1, k2) ('opaque', why)"""
        fn = self.funcs[name]
        if [a.arg for a in fn.args.args] != ['attribute', 'arg', 'element']:
            return ('opaque', 'signature')
        if fn.decorator_list:
            return ('opaque', 'decorated')
        b = _body(fn)
        # 1 identity
        if len(b) == 1 and self._ret_identity(b[0]):
            return ('identity',)
        if len(b) == 1 and isinstance(b[0], ast.If) and _u(b[0].test) in IS_PY2_TESTS \
                and len(b[0].body) == 1 and len(b[0].orelse) == 1 \
                and self._ret_identity(b[0].body[0]) and self._ret_identity(b[0].orelse[0]):
            return ('identity',)
        # name references: try: return arg.getAttrNS(..) except: return arg     (a str has no getAttrNS)
        if len(b) == 1 and isinstance(b[0], ast.Try) and len(b[0].body) == 1 and isinstance(b[0].body[0], ast.Return) \
                and re.match(r"arg\.getAttrNS\(\w+, '[\w-]+'\)$", _u(b[0].body[0].value) or '') \
                and len(b[0].handlers) == 1 and b[0].handlers[0].type is None \
                and len(b[0].handlers[0].body) == 1 and _u(b[0].handlers[0].body[0]) == 'return arg' \
                and not b[0].orelse and not b[0].finalbody:
            return ('identity',)
        # 2 enumerations
        if len(b) == 2 and isinstance(b[0], ast.If) and not b[0].orelse and _is_raise_valueerror(b[0].body) \
                and self._ret_identity(b[1]) and isinstance(b[0].test, ast.Compare) and len(b[0].test.ops) == 1 \
                and _u(b[0].test.left) in ('arg', 'str(arg)'):
            op, right = b[0].test.ops[0], b[0].test.comparators[0]
            if isinstance(op, ast.NotIn) and _const_tuple(right) is not None and isinstance(right, ast.Tuple):
                return ('enum', _const_tuple(right))
            if isinstance(op, ast.NotEq) and isinstance(right, ast.Constant) and isinstance(right.value, str):
                return ('enum', [right.value])
        # 3 case-insensitive map (cnv_boolean)
        if len(b) >= 2 and _is_raise_valueerror(b[-1:]) and all(isinstance(s, ast.If) for s in b[:-1]):
            cases = []
            for s in b[:-1]:
                t = s.test
                if (not s.orelse and isinstance(t, ast.Compare) and len(t.ops) == 1 and isinstance(t.ops[0], ast.In)
                        and _u(t.left) == 'str(arg).lower()' and isinstance(t.comparators[0], ast.Tuple)
                        and _const_tuple(t.comparators[0]) is not None
                        and len(s.body) == 1 and isinstance(s.body[0], ast.Return)
                        and isinstance(s.body[0].value, ast.Constant) and isinstance(s.body[0].value.value, str)):
                    cases.append((_const_tuple(t.comparators[0]), s.body[0].value.value))
                else:
                    cases = None
                    break
            if cases:
                return ('ciMap', cases)
        # 4 pattern
        k = self._pattern_body(name, b)
        if k:
            return k
        # 5 str branch of an isinstance split (`if <arg is a str>: ...return/raise` first; what follows handles non-strings)
        if len(b) >= 1 and isinstance(b[0], ast.If) and _u(b[0].test) in IS_STR_TESTS \
                and b[0].body and isinstance(b[0].body[-1], (ast.Return, ast.Raise)):
            sb = b[0].body
            k = self._pattern_body(name, sb)
            if k:
                return k
            if len(sb) == 1 and self._ret_identity(sb[0]):
                return ('identity',)
            if len(sb) == 1 and isinstance(sb[0], ast.Return) and _u(sb[0].value) == 'make_NCName(arg)' \
                    and self.hex_chars is not None:
                return ('hexEscape', self.hex_chars)
        # 6 join
        if len(b) == 1 and isinstance(b[0], ast.Return) and isinstance(b[0].value, ast.Call) \
                and isinstance(b[0].value.func, ast.Attribute) and b[0].value.func.attr == 'join' \
                and isinstance(b[0].value.func.value, ast.Constant) and isinstance(b[0].value.func.value.value, str) \
                and len(b[0].value.args) == 1 and _u(b[0].value.args[0]) == 'arg':
            return ('joinChars', b[0].value.func.value.value)
        # 7 first of two converters
        if len(b) == 5 and _u(b[0]) == 'failed = False' and isinstance(b[1], ast.Try) and isinstance(b[2], ast.Try) \
                and isinstance(b[3], ast.If) and _u(b[3].test) == 'failed' and _is_raise_valueerror(b[3].body) \
                and not b[3].orelse and _u(b[4]) == 'return arg':
            subs = []
            for t in (b[1], b[2]):
                m = None
                if len(t.body) == 1 and isinstance(t.body[0], ast.Return):
                    m = re.match(r'(cnv_\w+)\(attribute, arg, element\)$', _u(t.body[0].value))
                if (m and m.group(1) in self.funcs and m.group(1) not in busy and len(t.handlers) == 1
                        and t.handlers[0].type is None and _u(t.handlers[0].body[0]) == 'failed = True'
                        and len(t.handlers[0].body) == 1 and not t.orelse and not t.finalbody):
                    subs.append(self.kind_of(m.group(1), busy | {name}))
                else:
                    subs = None
                    break
            if subs:
                return ('firstOf', subs[0], subs[1])
        return ('opaque', 'unrecognised body')

    def _pattern_body(self, name, b):
        if len(b) == 2 and isinstance(b[0], ast.If) and not b[0].orelse and _is_raise_valueerror(b[0].body) \
                and self._ret_identity(b[1]) and isinstance(b[0].test, ast.UnaryOp) and isinstance(b[0].test.op, ast.Not):
            m = re.match(r'(pattern_\w+)\.(match|fullmatch|search)\(arg\)$', _u(b[0].test.operand))
            if m and m.group(1) in self.patterns:
                self.pattern_uses[name] = (m.group(1), m.group(2))
                return ('pattern', m.group(1), m.group(2))
        return None

    def mode_of(self, pname, method):
        end = self.patterns[pname].get('end')
        if method == 'fullmatch':
            return 'Mode.full'
        if method == 'match':
            return {None: 'Mode.pref', 'Z': 'Mode.full', '$': 'Mode.dollar'}[end]
        if method == 'search' and end is None:
            return 'Mode.search'
        return None

    def kind_lean(self, k):
        t = k[0]
        if t == 'identity':
            return 'Kind.identity'
        if t == 'enum':
            return '(Kind.enum [%s])' % ', '.join(lean_str(v) for v in k[1])
        if t == 'ciMap':
            return '(Kind.ciMap [%s])' % ', '.join('([%s], %s)' % (', '.join(lean_str(v) for v in vs), lean_str(c)) for vs, c in k[1])
        if t == 'pattern':
            ent = self.patterns[k[1]]
            mode = self.mode_of(k[1], k[2]) if 'lean' in ent else None
            if mode is None:
                return 'Kind.unknown'
            return '(Kind.pattern %s %s)' % (mode, k[1].replace('pattern_', 'pat_'))
        if t == 'hexEscape':
            return '(Kind.hexEscape [%s])' % ', '.join(str(c) for c in k[1])
        if t == 'joinChars':
            return '(Kind.joinChars %s)' % lean_str(k[1])
        if t == 'firstOf':
            return '(Kind.firstOf %s %s)' % (self.kind_lean(k[1]), self.kind_lean(k[2]))
        return 'Kind.unknown'


def lower_pairs(letters):
    """complete probe of str.lower(): code points whose lower-case form is one ASCII character of `letters`
    (other than themselves), and a check that no multi-character lowering is pure ASCII"""
    pairs, bad = [], []
    for c in range(0x110000):
        if 0xD800 <= c <= 0xDFFF:
            continue
        l = chr(c).lower()
        if len(l) == 1:
            if l != chr(c) and ord(l) < 128:
                pairs.append((c, ord(l)))
        elif all(ord(x) < 128 for x in l):
            bad.append(c)
    return pairs, bad


# ====================================================================== assembling the Lean text
XSD_TYPES = ['string', 'token', 'NCName', 'ID', 'IDREF', 'IDREFS', 'QName', 'anyURI', 'date', 'dateTime', 'time',
             'duration', 'decimal', 'double', 'integer', 'nonNegativeInteger', 'positiveInteger', 'language']

NAMED_SCHEMA_PATTERNS = ['length', 'nonNegativeLength', 'positiveLength', 'percent', 'zeroToHundredPercent',
                         'signedZeroToHundredPercent', 'relativeLength', 'color', 'points', 'vector3D', 'point3D',
                         'nonNegativePixelLength', 'countryCode', 'languageCode', 'scriptCode', 'textEncoding',
                         'cellAddress', 'clipShape']


def converter_names(ac):
    """id(function object) -> the module-level name `cnv_*` it is bound to (a converter may be a closure or a decorated
    function whose __name__ says something else)"""
    return dict((id(v), n) for n, v in sorted(vars(ac).items()) if n.startswith('cnv_') and callable(v))


class Translation(object):
    """everything the harness and the Lean side need, computed once per run"""
    def __init__(self, repo):
        self.repo = repo
        self.code = CodeSide(repo)
        self.schema = attr_schema.Schema(attr_schema.default_path(repo))
        self.occ = self.schema.occurrences()
        # the live dict (import-and-dump: function objects -> names)
        if repo not in sys.path:
            sys.path.insert(0, repo)
        ac = importlib.import_module('odf.attrconverters')
        self.bind = {}
        name_of = converter_names(ac)
        for (attr, el), f in ac.attrconverters.items():
            self.bind[(tuple(attr), tuple(el) if el is not None else None)] = name_of.get(id(f), getattr(f, '__name__', repr(f)))
        # ids
        names = set()
        for (a, e) in self.bind:
            names.add(a)
            if e is not None:
                names.add(e)
        for e, a, _, _ in self.occ:
            names.add(e); names.add(a)
        self.qnames = sorted(names)
        self.qid = {q: i for i, q in enumerate(self.qnames)}
        # converters: every cnv_ function + the pseudo converter 'str' (default of AttrConverters.convert);
        # identity-shaped ones first, so that `id < nIdentity` decides "returns its argument unchanged"
        ident = sorted(n for n, k in self.code.kinds.items() if k[0] == 'identity') + ['str']
        other = sorted(n for n, k in self.code.kinds.items() if k[0] != 'identity')
        self.n_identity = len(ident)
        self.cnv_names = ident + other
        for f in sorted(set(self.bind.values())):
            if f not in self.cnv_names:
                self.cnv_names.append(f)          # bound to something that is not a module-level cnv_ function
        self.cid = {n: i for i, n in enumerate(self.cnv_names)}
        # schema patterns
        pats = []
        for _, _, dt, _ in self.occ:
            for at in dt:
                if at[0] == 'data' and at[2] is not None and at[2] not in pats:
                    pats.append(at[2])
        for n in NAMED_SCHEMA_PATTERNS:
            p = self.define_pattern(n)
            if p is not None and p not in pats:
                pats.append(p)
        self.spats = sorted(pats)
        self.spid = {p: i for i, p in enumerate(self.spats)}
        self.spat_ast = {}
        for p in self.spats:
            try:
                a, _ = parse_regex(p, 'xsd')
                re_lean(a)
                self.spat_ast[p] = a
            except Unsupported:
                self.spat_ast[p] = None
        # datatypes
        self.dts = sorted(set(dt for _, _, dt, _ in self.occ), key=repr)
        self.dtid = {d: i for i, d in enumerate(self.dts)}
        # rows and cells
        self.rows = sorted(set((self.qid[e], self.qid[a], self.dtid[dt]) for e, a, dt, _ in self.occ))
        self.cells = sorted(set((self.cid[self.lookup(a, e)], self.dtid[dt]) for e, a, dt, _ in self.occ))
        self.cells_ni = [c for c in self.cells if c[0] >= self.n_identity]

    def define_pattern(self, name):
        for d in self.schema.defines.get(name, []):
            for p in d.iter(attr_schema.RNG + 'param'):
                if p.get('name') == 'pattern':
                    return p.text
        return None

    def lookup(self, attr, el):
        """the lookup order of AttrConverters.convert, on the dumped dict"""
        f = self.bind.get((attr, el))
        if f is None:
            f = self.bind.get((attr, None))
        return f if f is not None else 'str'

    # ------------------------------------------------------------------ datatype keys (stable, readable, no blanks)
    def pattern_name(self, p):
        for n in NAMED_SCHEMA_PATTERNS:
            if self.define_pattern(n) == p:
                return n
        return 'pattern#%d' % self.spid[p]

    def atom_key(self, at):
        if at[0] == 'val':
            return "'%s'" % at[1].replace(' ', '_')
        if at[0] == 'data':
            k = at[1] if at[2] is None else self.pattern_name(at[2])
            if at[3]:
                k += '{' + ','.join('%s=%s' % p for p in at[3]) + '}'
            return k
        if at[0] == 'list':
            return 'list(' + self._body_key(at[1]) + ')'
        return at[0]

    def _body_key(self, body):
        out = []
        for part in body:
            if part[0] == 'item':
                out.append('|'.join(self.atom_key(x) for x in part[1]))
            else:
                out.append('(' + self._body_key(part[1]) + ')' + {'opt': '?', 'star': '*', 'plus': '+'}[part[0]])
        return ','.join(out)

    def dt_key(self, dt):
        return '|'.join(self.atom_key(a) for a in dt)

    # ------------------------------------------------------------------ Lean: code side
    def lean_code(self):
        c = self.code
        L = ['-- GENERATED by harness/translate_attr.py from odf/attrconverters.py -- do not edit',
             'import OdfModel.AttrTypes',
             'namespace OdfModel.Generated.AttrConv',
             'open OdfModel OdfModel.Regex OdfModel.Attr', '']
        L.append('/-! (a) every `pattern_* = re.compile(...)`; end anchor: 0 none, 1 `\\Z`, 2 `$` -/')
        for n in sorted(c.patterns):
            ent = c.patterns[n]
            L.append('-- %s = %r' % (n, ent['src']))
            if 'lean' in ent:
                L.append('def %s : RE := %s' % (n.replace('pattern_', 'pat_'), ent['lean']))
            else:
                L.append('-- UNSUPPORTED: %s' % ent.get('unsupported'))
        L.append('def codePatterns : List (String × RE × Nat) := [')
        L.append(',\n'.join('  (%s, %s, %d)' % (lean_string_lit(n), n.replace('pattern_', 'pat_'),
                                                {None: 0, 'Z': 1, '$': 2}[c.patterns[n]['end']])
                            for n in sorted(c.patterns) if 'lean' in c.patterns[n]))
        L.append(']')
        L.append('')
        L.append('/-! code points that `str.lower()` maps to one ASCII character (complete probe of all code points) -/')
        pairs, bad = lower_pairs(None)
        L.append('def lowerPairs : List (Nat × Nat) := [%s]' % ', '.join('(%d, %d)' % p for p in pairs))
        L.append('/-- code points whose lower-case form has several characters, all ASCII (expected: none) -/')
        L.append('def lowerMultiAscii : List Nat := [%s]' % ', '.join(str(x) for x in bad))
        L.append('')
        L.append('/-! (c) shape of every converter with its literal tuples; index = converter id -/')
        rows = []
        for n in self.cnv_names:
            if n == 'str':
                k = 'Kind.identity'
            elif n in c.kinds:
                k = c.kind_lean(c.kinds[n])
            else:
                k = 'Kind.unknown'
            rows.append('  (%s, %s)' % (lean_string_lit(n), k))
        L.append('def converters : List (String × Kind) := [')
        L.append(',\n'.join(rows))
        L.append(']')
        for n in self.cnv_names:
            L.append('def c_%s : Nat := %d' % (re.sub(r'\W', '_', n), self.cid[n]))
        L.append('/-- converters with an id below this are identity-shaped (`return str(arg)`) -/')
        L.append('def nIdentity : Nat := %d' % self.n_identity)
        L.append('')
        L.append('end OdfModel.Generated.AttrConv')
        return '\n'.join(L) + '\n'

    # ------------------------------------------------------------------ Lean: schema side
    def atom_lean(self, at):
        if at[0] == 'val':
            return '.val %s' % lean_str(at[1])
        if at[0] == 'data':
            ty = at[1] if at[1] in XSD_TYPES else 'other'
            return '.data .%s %s' % (ty, 'none' if at[2] is None else '(some %d)' % self.spid[at[2]])
        if at[0] == 'list':
            body = at[1]
            if body and all(part[0] == 'item' and len(part[1]) == 1 and part[1][0][0] == 'data' and part[1][0][2] is None
                            and not part[1][0][3] and part[1][0][1] in XSD_TYPES for part in body) \
                    and len(set(part[1][0][1] for part in body)) == 1:
                return '.listN .%s %d' % (body[0][1][0][1], len(body))
        return '.' + at[0]

    def lean_schema(self):
        L = ['-- GENERATED by harness/translate_attr.py from grammar/OpenDocument-schema-v1.2-cd04.rng -- do not edit',
             'import OdfModel.AttrTypes',
             'namespace OdfModel.Generated.AttrSchema',
             'open OdfModel OdfModel.Regex OdfModel.Attr', '']
        L.append('/-! the schema\'s own `<param name="pattern">` facets (XSD regular expressions); `none` = syntax outside the subset -/')
        for p in self.spats:
            i = self.spid[p]
            L.append('-- %d (%s): %s' % (i, self.pattern_name(p), p))
            a = self.spat_ast[p]
            L.append('def spat_%d : Option RE := %s' % (i, 'none' if a is None else 'some %s' % re_lean(a)))
        L.append('def schemaPatterns : List (Option RE) := [%s]' % ', '.join('spat_%d' % i for i in range(len(self.spats))))
        for n in NAMED_SCHEMA_PATTERNS:
            p = self.define_pattern(n)
            if p is not None:
                L.append('def sp_%s : Nat := %d' % (n, self.spid[p]))
        L.append('')
        L.append('/-! distinct attribute datatypes (normal form); index = datatype id -/')
        L.append('def dts : List DT := [')
        L.append(',\n'.join('  /- %d %s -/ [%s]' % (i, self.dt_key(d).replace('-/', '- /')[:100], ', '.join(self.atom_lean(a) for a in d))
                            for i, d in enumerate(self.dts)))
        L.append(']')
        L.append('')
        L.append('/-! qualified names; index = id used above -/')
        L.append('def qnames : List String := [')
        L.append(',\n'.join('  %s' % lean_string_lit('%s %s' % q) for q in self.qnames))
        L.append(']')
        L.append('')
        L.append('end OdfModel.Generated.AttrSchema')
        return '\n'.join(L) + '\n'


    # ------------------------------------------------------------------ Lean: dict and schema occurrences side by side
    def lean_table(self):
        L = ['-- GENERATED by harness/translate_attr.py from odf/attrconverters.py (the `attrconverters` dict, dumped from the',
             '-- imported module) and the attribute occurrences of grammar/OpenDocument-schema-v1.2-cd04.rng -- do not edit',
             'import OdfModel.AttrTypes',
             'namespace OdfModel.Generated.AttrTable',
             'open OdfModel OdfModel.Attr', '',
             '/-! one entry per attribute id (strictly increasing):',
             '    (attribute, [(element | none, converter id)]  -- the dict entries keyed by this attribute',
             '              , [(element, datatype id)])        -- the schema occurrences of this attribute -/',
             'def attrTable : List (Nat × List (Option Nat × Nat) × List (Nat × Nat)) := [']
        ents, occs = {}, {}
        for (a, e), f in self.bind.items():
            ents.setdefault(self.qid[a], []).append((self.qid[e] if e is not None else -1, self.cid[f]))
        for e, a, d in self.rows:
            occs.setdefault(a, []).append((e, d))
        rows = []
        for a in sorted(set(ents) | set(occs)):
            es = ', '.join('(%s, %d)' % ('none' if e < 0 else 'some %d' % e, f) for e, f in sorted(ents.get(a, [])))
            os_ = ', '.join('(%d, %d)' % o for o in sorted(occs.get(a, [])))
            rows.append('  (%d, [%s], [%s])' % (a, es, os_))
        L.pop()
        nch = 0
        for off in range(0, len(rows), 150):
            L.append('def attrTable_%d : List (Nat × List (Option Nat × Nat) × List (Nat × Nat)) := [' % nch)
            L.append(',\n'.join(rows[off:off + 150]))
            L.append(']')
            nch += 1
        L.append('def attrTable : List (Nat × List (Option Nat × Nat) × List (Nat × Nat)) :=')
        L.append('  ' + ' ++ '.join('attrTable_%d' % i for i in range(nch)))
        L.append('')
        L.append('/-- the `attrconverters` dict: attribute ↦ [(element | none, converter id)] -/')
        L.append('def bindings : List (Nat × List (Option Nat × Nat)) := attrTable.map fun t => (t.1, t.2.1)')
        L.append('')
        L.append('/-! distinct (converter id, datatype id) cells whose converter is not identity-shaped,')
        L.append('    as computed by the translator (re-derived in Lean by Props.C15.table_ok) -/')
        L.append('def cellsNI : List (Nat × Nat) := [%s]' % ', '.join('(%d, %d)' % c for c in self.cells_ni))
        L.append('')
        L.append('end OdfModel.Generated.AttrTable')
        return '\n'.join(L) + '\n'


# ====================================================================== easyliststyle.py (C20)
def easylist_regexes(repo):
    """the two regexes compiled inside styleFromList: source strings, in order of appearance"""
    path = os.path.join(repo, 'odf', 'easyliststyle.py')
    with open(path, encoding='utf-8') as f:
        tree = ast.parse(f.read())
    out = {}
    for fn in tree.body:
        if isinstance(fn, ast.FunctionDef) and fn.name == 'styleFromList':
            for n in ast.walk(fn):
                if isinstance(n, ast.Assign) and len(n.targets) == 1 and isinstance(n.targets[0], ast.Name) \
                        and isinstance(n.value, ast.Call) and _u(n.value.func) == 're.compile' \
                        and len(n.value.args) == 1 and isinstance(n.value.args[0], ast.Constant) and not n.value.keywords:
                    out[n.targets[0].id] = n.value.args[0].value
    return out


def _capture_shape(src):
    """top-level structure of a regex by Python's own parser: True iff it is  (group 1) \\s* (group 2)?  with group 2 = [class]+"""
    try:
        try:
            import re._parser as sp
        except ImportError:           # Python < 3.11
            import sre_parse as sp
        t = list(sp.parse(src))
    except Exception:
        return False
    if len(t) != 3 or re.compile(src).groups != 2:
        return False
    (o1, a1), (o2, a2), (o3, a3) = t
    if str(o1) != 'SUBPATTERN' or a1[0] != 1:
        return False
    if str(o2) != 'MAX_REPEAT' or a2[0] != 0 or a2[1] < 65535 or len(a2[2]) != 1 or str(a2[2][0][0]) != 'IN':
        return False
    if str(o3) != 'MAX_REPEAT' or (a3[0], a3[1]) != (0, 1) or len(a3[2]) != 1:
        return False
    o4, a4 = a3[2][0]
    if str(o4) != 'SUBPATTERN' or a4[0] != 2 or len(a4[3]) != 1 or str(a4[3][0][0]) != 'MAX_REPEAT' or a4[3][0][1][0] != 1:
        return False
    return True


def easylist_unit_expr(repo):
    """how cssLengthUnits is taken from the match: 'm.group(2)' | 'm.group(2).lower()' | None (something else)"""
    path = os.path.join(repo, 'odf', 'easyliststyle.py')
    with open(path, encoding='utf-8') as f:
        tree = ast.parse(f.read())
    found = []
    for fn in tree.body:
        if isinstance(fn, ast.FunctionDef) and fn.name == 'styleFromList':
            for n in ast.walk(fn):
                if isinstance(n, ast.If) and _u(n.test) in ('m.lastindex == 2',):
                    for st in n.body:
                        if isinstance(st, ast.Assign) and _u(st.targets[0]) == 'cssLengthUnits':
                            found.append(_u(st.value))
    return found[0] if len(found) == 1 else None


def lean_easylist(repo):
    """Generated/EasyListRe.lean: the class of format characters; group 1 of the CSS-length regex as an `RE` term, its
    white-space class and unit class; whether the unit is lower-cased.  The model is written for the shapes `([C])` and
    `(G1)\\s*([U]+)?` searched with `.search`; any other shape yields `shapeOK := false`."""
    rx = easylist_regexes(repo)
    nf, css = rx.get('numFormatPattern'), rx.get('cssLengthPattern')
    unit_expr = easylist_unit_expr(repo)
    ok = unit_expr in ('m.group(2)', 'm.group(2).lower()')
    fmt_ranges, unit_ranges, space_ranges = (), (), ()
    num_lean, num_ast = 'RE.nothing', None
    try:
        a, end = parse_regex(nf, 'py')
        if a[0] == 'cls' and not a[1] and end is None:
            fmt_ranges = a[2]
        else:
            ok = False
        b, end = parse_regex(css, 'py')
        if (end is None and _capture_shape(css) and b[0] == 'seq' and len(b[1]) == 3
                and b[1][1][0] == 'star' and b[1][1][1][0] == 'cls' and b[1][1][1][1] is False
                and b[1][2][0] == 'opt' and b[1][2][1][0] == 'plus' and b[1][2][1][1][0] == 'cls'
                and b[1][2][1][1][1] is False):
            num_ast = b[1][0]
            num_lean = re_lean(num_ast)
            space_ranges = b[1][1][1][2]
            unit_ranges = b[1][2][1][1][2]
        else:
            ok = False
    except (Unsupported, TypeError):
        ok = False
    rg = lambda r: ', '.join('(%d, %d)' % x for x in r)
    L = ['-- GENERATED by harness/translate_attr.py from odf/easyliststyle.py -- do not edit',
         'import OdfModel.Regex',
         'namespace OdfModel.Generated.EasyListRe',
         'open OdfModel.Regex',
         '-- numFormatPattern = %r' % (nf,),
         '-- cssLengthPattern = %r' % (css,),
         '-- cssLengthUnits = %s' % (unit_expr,),
         '/-- the regexes have the shapes `([C])` and `(G1)\\s*([U]+)?` the model is written for -/',
         'def shapeOK : Bool := %s' % ('true' if ok else 'false'),
         '/-- C: the numbering format characters -/',
         'def fmtRanges : List (Nat × Nat) := [%s]' % rg(fmt_ranges),
         '/-- G1: group 1 of cssLengthPattern (the number) -/',
         'def numRE : RE := %s' % num_lean,
         '/-- the class of `\\s` (complete probe of Python\'s re) -/',
         'def spaceRanges : List (Nat × Nat) := [%s]' % rg(space_ranges),
         '/-- U: the unit characters -/',
         'def unitRanges : List (Nat × Nat) := [%s]' % rg(unit_ranges),
         '/-- `cssLengthUnits = m.group(2).lower()` (true) or `m.group(2)` (false) -/',
         'def lowerUnit : Bool := %s' % ('true' if unit_expr == 'm.group(2).lower()' else 'false'),
         'end OdfModel.Generated.EasyListRe']
    return '\n'.join(L) + '\n', {'numFormatPattern': nf, 'cssLengthPattern': css, 'ok': ok, 'unit_expr': unit_expr,
                                 'num_ast': num_ast}


if __name__ == '__main__':
    repo = sys.argv[1] if len(sys.argv) > 1 else os.environ.get('ODFPY_REPO', '/repo')
    out = sys.argv[2] if len(sys.argv) > 2 else None
    t = Translation(repo)
    code, schema, table = t.lean_code(), t.lean_schema(), t.lean_table()
    easy, info = lean_easylist(repo)
    if out:
        for name, text in (('AttrConv', code), ('AttrSchema', schema), ('AttrTable', table), ('EasyListRe', easy)):
            with open(os.path.join(out, name + '.lean'), 'w', encoding='utf-8') as f:
                f.write(text)
    print('patterns', {n: (e.get('end'), 'lean' in e) for n, e in t.code.patterns.items()})
    print('kinds', {n: k[0] for n, k in t.code.kinds.items()})
    print('bindings', len(t.bind), 'qnames', len(t.qnames), 'rows', len(t.rows), 'dts', len(t.dts),
          'cells', len(t.cells), 'non-identity cells', len(t.cells_ni), 'schema patterns', len(t.spats),
          'unsupported', [t.pattern_name(p) for p in t.spats if t.spat_ast[p] is None])
    print(info)

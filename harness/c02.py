# -*- coding: utf-8 -*-
"""C02 - parsing emitted XML gives back exactly the in-memory tree.

proof:          lean/OdfModel/Props/C02.lean (print_parse, print_parse_partial, finding_discouraged, part_assembly, ...)
correspondence: as C01 (encoders on all code points, toXml byte for byte, reference parser vs expat)
oracle:         independent expat parse of the real bytes compared with a walk of qname/attributes/childNodes/data,
                canonicalised as the property allows (CDATA = text, adjacent character data merged, U+FFFD only for
                characters XML 1.0 cannot represent, attribute order free); also on the first streams a fresh process writes
                (documents without anything of the meta namespace) and on every adjacent high+low surrogate pair
known finding:  KF-C02-1 discouraged code points are replaced although XML can represent them
"""
import xmlchecks as C
import xmlcorr as X
from common import dec_str, enc_str


def run(chk, replay=None):
    chk.rule = ('as C01 (incl. all 1,114,112 code points in bulk, reference look-alikes, long strings with special tokens around the '
                'block boundaries 2^k), plus trees/strings containing discouraged code points; the oracle compares the expat infoset with the '
                'canonicalised in-memory tree; non-trivial = non-empty string / tree with attributes or children')
    if replay is not None:
        inp = replay['input']
        if 'tree' in inp:
            def fix(n):
                return (n[0], n[1]) if n[0] in 'TC' else ('E', n[1], n[2], [tuple(a) for a in n[3]], [fix(k) for k in n[4]])
            e = X.build(fix(inp['tree'])); w = X.walk(e)
            doc = C.PROLOGUE + X.to_xml(e)
            ok, res = C.wellformed(doc)
            d = X.first_diff(X.sort_attrs(res), X.canon(w)) if ok else res
            print('replay:', repr(doc)[:300], '->', d or 'identical'); return 0 if ok and not d else 1
        if 's' in inp:
            import odf.element as E, io
            s = dec_str(inp['s']); ctx = inp['context']
            if ctx == 'attr':
                doc = C.PROLOGUE + u'<a b=' + E._quoteattr(s) + u'/>'
            else:
                f = io.StringIO(); (E.Text if ctx == 'text' else E.CDATASection)(s).toXml(0, f)
                doc = C.PROLOGUE + u'<a>' + f.getvalue() + u'</a>'
            ok, res = C.wellformed(doc)
            got = None if not ok else (res[3][0][2] if ctx == 'attr' else u''.join(k[1] for k in res[4]))
            print('replay: %r parsed back as %r' % (s, got)); return 0 if got == X.repl_illegal(s) else 1
        if 'string_document' in inp:
            C.string_document_one(chk, dec_str(inp['string_document']), want_identity=True)
            for f in chk.failures:
                print('replay:', f['sig'], f['case'].get('rendering'), '->', f['detail'][:300])
            print('replay: %d stream(s) of the document differ from the tree' % len(chk.failures)); return 1 if chk.failures else 0
        if 'first_render' in inp:
            C.first_render_one(chk, inp['first_render'])
            for f in chk.failures:
                print('replay:', f['sig'], f['case'].get('rendering'), '->', f['detail'][:300])
            print('replay: %d stream(s) of the fresh process differ from the tree' % len(chk.failures)); return 1 if chk.failures else 0
        chk.seed = replay.get('seed', chk.seed)
    drv = C.setup(chk, ['OdfModel.Props.C02'])
    fs = C.encoders(chk, drv)
    C.strings_check(chk, drv, fs, want_identity=True)
    C.surrogate_pairs_check(chk, drv, fs, want_identity=True)
    # the known finding's witness class, replayed on every run
    for s in (u'\x7f', u'a\x9fb', u'\U0002fffe'):
        for ctx in ('text', 'attr', 'cdata'):
            doc = C.PROLOGUE + (u'<a b=' + fs['attr'](s) + u'/>' if ctx == 'attr' else u'<a>' + fs[ctx](s) + u'</a>')
            ok, res = C.wellformed(doc)
            got = None if not ok else (res[3][0][2] if ctx == 'attr' else u''.join(k[1] for k in res[4]))
            chk.case(('kf', ctx, s))
            if got != s:
                chk.fail('discouraged-codepoint', {'context': ctx, 's': enc_str(s)}, 'parsed back as %r' % (got,))
    C.all_codepoints_oracle(chk, fs, want_identity=True)
    C.reference_lookalikes_check(chk, drv, fs, want_identity=True)
    C.boundary_strings_check(chk, drv, fs, want_identity=True)
    C.boundary_trees_check(chk, drv, want_identity=True)
    C.adjacent_nodes_check(chk, drv, want_identity=True)
    C.trees_check(chk, drv, want_identity=True, discouraged=True)
    C.extreme_trees_check(chk, drv, want_identity=True)
    C.documents_check(chk, want_identity=True, drv=drv)
    C.loaded_samples_check(chk, want_identity=True)
    C.first_render_identity_check(chk, drv)
    return chk.finish()

# -*- coding: utf-8 -*-
"""Shared correspondence / oracle code of the XML layer (C01, C02, C14; reused by C04).

tree description (pure Python data, the harness' own vocabulary):
   ('E', ns, local, [(ans, alocal, value), ...], [kids])   ns '' = no namespace
   ('T', data)    ('C', data)
"""
import io, xml.parsers.expat
from common import enc_str, dec_str

# ---------------------------------------------------------------- alphabets
XML_SIG = [u'&', u'<', u'>', u'"', u"'", u'\r', u'\n', u'\t', u']', u']]>', u' ', u'a', u'é', u'\U0001F600']
BAD = [u'\x00', u'\x01', u'\x08', u'\x0b', u'\x0c', u'\x1f', u'\ud800', u'\udfff', u'￾', u'￿']
DISCOURAGED = [u'\x7f', u'\x84', u'\x86', u'\x9f', u'\U0001fffe', u'\U0010ffff']
PLAIN = [u'x', u'y', u'Z', u'0', u'-', u'.', u'_', u':', u';', u'#', u'1', u'3', u'=', u'/', u'�', u'\x85', u'퟿', u'']

OFFICENS = u"urn:oasis:names:tc:opendocument:xmlns:office:1.0"
TEXTNS = u"urn:oasis:names:tc:opendocument:xmlns:text:1.0"
XMLNS = u"http://www.w3.org/XML/1998/namespace"
NAMESPACES = [TEXTNS, OFFICENS, u"urn:oasis:names:tc:opendocument:xmlns:drawing:1.0",
              u"http://www.w3.org/1999/xlink", u"urn:example:foreign", u"http://example.org/a?b=1&c=2",
              u"urn:x:with space", u"urn:x:quote\"inside", u"urn:x:apos'inside", u'']
LOCALS = [u'p', u'span', u'a', u'foo', u'Bar-baz', u'x.y', u'_u', u'h1']
ATTR_LOCALS = [u'zz-one', u'zz-two', u'custom', u'data-x', u'lang', u'q_1']


def is_xml_char(c):
    o = ord(c)
    return o in (9, 10, 13) or 0x20 <= o <= 0xD7FF or 0xE000 <= o <= 0xFFFD or 0x10000 <= o <= 0x10FFFF


def is_discouraged(c):
    o = ord(c)
    return 0x7f <= o <= 0x84 or 0x86 <= o <= 0x9f or (o >= 0x1fffe and (o & 0xffff) >= 0xfffe)


def repl_illegal(s):
    """what the property allows: every character XML 1.0 cannot represent arrives as one U+FFFD"""
    return u''.join(c if is_xml_char(c) else u'�' for c in s)


def rand_string(rng, allow_bad=True, maxlen=8):
    n = rng.choice([0, 1, 1, 2, 3, 5, maxlen])
    pools = [XML_SIG, XML_SIG, PLAIN] + ([BAD] if allow_bad else [])
    return u''.join(rng.choice(rng.choice(pools)) for _ in range(n))


def rand_tree(rng, depth=3, allow_bad=True, discouraged=False, namespaces=None):
    nss = namespaces or NAMESPACES
    def s():
        x = rand_string(rng, allow_bad)
        if discouraged and rng.random() < 0.3:
            x += rng.choice(DISCOURAGED)
        return x
    def node(d):
        r = rng.random()
        if d == 0 or r < 0.25:
            return ('T', s())
        if r < 0.35:
            return ('C', s())
        ns = rng.choice(nss)
        attrs = []
        seen = set()
        for _ in range(rng.choice([0, 0, 1, 2, 4])):
            a = (rng.choice(nss), rng.choice(ATTR_LOCALS))
            if a in seen:
                continue
            seen.add(a)
            attrs.append((a[0], a[1], s()))
        kids = [node(d - 1) for _ in range(rng.choice([0, 0, 1, 2, 3, 5]))]
        return ('E', ns, rng.choice(LOCALS), attrs, kids)
    t = node(depth)
    while t[0] != 'E':
        t = node(depth)
    return t


# ---------------------------------------------------------------- real library
def build(t):
    """description -> real odf.element objects, through the public API"""
    from odf.element import Element, Text, CDATASection
    # nodes are mutable: part of the time the final value is assigned AFTER construction (node.data = ..., a second setAttrNS)
    late = (len(t[1]) % 3 == 1)
    if t[0] == 'T':
        n = Text(u'tmp' if late else t[1])
        if late:
            n.data = t[1]
        return n
    if t[0] == 'C':
        n = CDATASection(u'tmp' if late else t[1])
        if late:
            n.data = t[1]
        return n
    _, ns, local, attrs, kids = t
    e = Element(qname=(ns, local), check_grammar=False)
    for (ans, al, v) in attrs:
        if len(v) % 3 == 1:
            e.setAttrNS(ans if ans != u'' else None, al, u'tmp')
        e.setAttrNS(ans if ans != u'' else None, al, v)
    for k in kids:
        kn = build(k)
        if k[0] == 'E':
            e.addElement(kn, check_grammar=False)
        else:
            e.appendChild(kn)
    return e


def walk(node):
    """real objects -> description (through qname / attributes / childNodes / data)"""
    if node.nodeType == 3:
        return ('T', node.data)
    if node.nodeType == 4:
        return ('C', node.data)
    attrs = [((k[0] or u''), k[1], u'%s' % v) for k, v in node.attributes.items()]
    return ('E', node.qname[0] or u'', node.qname[1], attrs, [walk(c) for c in node.childNodes])


def to_xml(e, level=0):
    f = io.StringIO()
    e.toXml(level, f)
    return f.getvalue()


def ns_table():
    from odf.element import Element
    return [(k, v) for k, v in Element.namespaces.items()]


# ---------------------------------------------------------------- wire
def wire_tree(t):
    if t[0] == 'T':
        return 'T ' + enc_str(t[1])
    if t[0] == 'C':
        return 'C ' + enc_str(t[1])
    _, ns, local, attrs, kids = t
    parts = ['E', enc_str(ns), enc_str(local), str(len(attrs))]
    for a in attrs:
        parts += [enc_str(a[0]), enc_str(a[1]), enc_str(a[2])]
    parts.append(str(len(kids)))
    parts += [wire_tree(k) for k in kids]
    return ' '.join(parts)


def wire_table(tbl):
    return ' '.join([str(len(tbl))] + [enc_str(a) + ' ' + enc_str(b) for a, b in tbl])


def unwire_tree(toks):
    """inverse of the driver's showNode (token list, consumed from the front)"""
    k = toks.pop(0)
    if k == 'T':
        return ('T', dec_str(toks.pop(0)))
    if k == 'C':
        return ('C', dec_str(toks.pop(0)))
    ns = dec_str(toks.pop(0)); local = dec_str(toks.pop(0))
    n = int(toks.pop(0)); attrs = []
    for _ in range(n):
        a = dec_str(toks.pop(0)); b = dec_str(toks.pop(0)); v = dec_str(toks.pop(0))
        attrs.append((a, b, v))
    m = int(toks.pop(0))
    kids = [unwire_tree(toks) for _ in range(m)]
    return ('E', ns, local, attrs, kids)


# ---------------------------------------------------------------- independent oracle (expat)
SEP = u'\x1f'   # cannot occur in a well-formed document... but U+001F is not an XML char, so safe as separator


def expat_parse(data):
    """bytes -> description (namespace-resolved infoset: elements, attributes by expanded name, merged character data);
    raises xml.parsers.expat.ExpatError when not (namespace-)well-formed"""
    p = xml.parsers.expat.ParserCreate(namespace_separator=SEP)
    p.buffer_text = False
    p.ordered_attributes = True
    stack = [('ROOT', None, None, [], [])]
    def split(n):
        if SEP in n:
            ns, l = n.rsplit(SEP, 1)
            return ns, l
        return u'', n
    def start(name, attrs):
        ns, l = split(name)
        al = []
        for i in range(0, len(attrs), 2):
            ans, an = split(attrs[i])
            al.append((ans, an, attrs[i + 1]))
        stack.append(('E', ns, l, al, []))
    def end(name):
        e = stack.pop()
        stack[-1][4].append(e)
    def chars(d):
        kids = stack[-1][4]
        if kids and kids[-1][0] == 'T':
            kids[-1] = ('T', kids[-1][1] + d)
        else:
            kids.append(('T', d))
    p.StartElementHandler = start
    p.EndElementHandler = end
    p.CharacterDataHandler = chars
    p.Parse(data, True)
    return stack[0][4][0]


def canon(t, repl=repl_illegal):
    """the tree a parser must return for `t` according to the property: CDATA = text, adjacent character data merged,
    empty character data dropped, unrepresentable characters as U+FFFD, attribute order free (sorted here)"""
    if t[0] in 'TC':
        return ('T', repl(t[1]))
    _, ns, local, attrs, kids = t
    out = []
    for k in kids:
        c = canon(k, repl)
        if c[0] == 'T':
            if c[1] == u'':
                continue
            if out and out[-1][0] == 'T':
                out[-1] = ('T', out[-1][1] + c[1]); continue
        out.append(c)
    return ('E', ns, local, sorted((a[0], a[1], repl(a[2])) for a in attrs), out)


def sort_attrs(t):
    if t[0] != 'E':
        return t
    return ('E', t[1], t[2], sorted(t[3]), [sort_attrs(k) for k in t[4]])


def has_discouraged(t):
    if t[0] in 'TC':
        return any(is_discouraged(c) for c in t[1])
    return any(is_discouraged(c) for a in t[3] for c in a[2]) or any(has_discouraged(k) for k in t[4])


def first_diff(a, b, path='/'):
    """human-readable first difference between two descriptions"""
    if a[0] != b[0]:
        return '%s: node kind %r vs %r' % (path, a[:2], b[:2])
    if a[0] in 'TC':
        return None if a[1] == b[1] else '%s: text %r vs %r' % (path, a[1], b[1])
    if (a[1], a[2]) != (b[1], b[2]):
        return '%s: name %r vs %r' % (path, a[1:3], b[1:3])
    if a[3] != b[3]:
        return '%s%s: attributes %r vs %r' % (path, a[2], a[3], b[3])
    if len(a[4]) != len(b[4]):
        return '%s%s: %d vs %d children' % (path, a[2], len(a[4]), len(b[4]))
    for i, (x, y) in enumerate(zip(a[4], b[4])):
        d = first_diff(x, y, '%s%s[%d]/' % (path, a[2], i))
        if d:
            return d
    return None

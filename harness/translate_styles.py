# -*- coding: utf-8 -*-
"""
Translator for the style-reference tables (properties C10, C11).

Writes lean/OdfModel/Generated/StyleRefs.lean from the working tree of $ODFPY_REPO on every run:

  schemaStyleRefAttrs  every attribute of grammar/OpenDocument-schema-v1.2-cd04.rng whose datatype is
                       `styleNameRef` or `styleNameRefs` (refs resolved through defines, never entering a
                       nested element/attribute pattern), plus the hand-noted style:list-style-name
                       (typed `styleName | empty` in the schema, but a reference by its specification)
  schemaListTyped      the subset typed `styleNameRefs` (white-space separated lists of names)
  followedAttrs        MEASURED: the attributes whose whole value the real `_used_auto_styles` takes as a style
  followedListAttrs    name / whose value it splits into names (probe documents per candidate attribute, body
                       side and master side), in the order of the class-level tuples `_STYLE_REF_ATTRS` /
                       `_STYLE_REF_LIST_ATTRS` (cross-checked with the AST)
  pySpaceTable         MEASURED: the code points at which `str.split()` splits

Attribute names are encoded as `Nat` codes: 0 = style:name, 1.. = the schema list sorted by (prefix, local),
then every other followed attribute.  Anything else gets a code >= 1000 from the harness at run time.
"""
import os, ast
import xml.etree.ElementTree as ET
import common

RNG = '{http://relaxng.org/ns/structure/1.0}'
SCHEMA = os.path.join('grammar', 'OpenDocument-schema-v1.2-cd04.rng')
STYLENS = u'urn:oasis:names:tc:opendocument:xmlns:style:1.0'
HAND_NOTED = [(STYLENS, 'style', 'list-style-name')]      # typed `styleName | empty`
TARGETS = ('styleNameRef', 'styleNameRefs')


def schema_style_refs(path):
    """{(ns, prefix, local): set of target datatypes} for every <attribute> of the schema"""
    nsmap = {}
    for _, (p, u) in ET.iterparse(path, events=['start-ns']):
        nsmap[p] = u
    root = ET.parse(path).getroot()
    defines = {}
    for d in root.iter(RNG + 'define'):
        defines.setdefault(d.get('name'), []).append(d)

    def reaches(node, seen):
        for c in node:
            if c.tag == RNG + 'ref':
                n = c.get('name')
                if n in TARGETS:
                    return n
                if n in seen:
                    continue
                seen.add(n)
                for d in defines.get(n, []):
                    r = reaches(d, seen)
                    if r:
                        return r
            elif c.tag in (RNG + 'element', RNG + 'attribute'):
                continue
            else:
                r = reaches(c, seen)
                if r:
                    return r
        return None

    out = {}
    for a in root.iter(RNG + 'attribute'):
        name = a.get('name')
        if not name or ':' not in name:
            continue
        r = reaches(a, set())
        if r:
            p, _, l = name.partition(':')
            out.setdefault((nsmap[p], p, l), set()).add(r)
    return out


def ast_tuple(repo):
    """the literal class-level tuples OpenDocument._STYLE_REF_ATTRS / _STYLE_REF_LIST_ATTRS of (NS, local) pairs,
    in source order; (None, None) if the source does not have that shape"""
    src = open(os.path.join(repo, 'odf', 'opendocument.py'), encoding='utf-8').read()
    tree = ast.parse(src)
    from odf import namespaces
    found = {}
    for cls in ast.walk(tree):
        if isinstance(cls, ast.ClassDef) and cls.name == 'OpenDocument':
            for node in cls.body:
                if isinstance(node, ast.Assign) and len(node.targets) == 1 and isinstance(node.targets[0], ast.Name) \
                        and node.targets[0].id in ('_STYLE_REF_ATTRS', '_STYLE_REF_LIST_ATTRS') \
                        and isinstance(node.value, (ast.Tuple, ast.List)):
                    items = []
                    for el in node.value.elts:
                        if isinstance(el, ast.Tuple) and len(el.elts) == 2 and isinstance(el.elts[0], ast.Name) \
                                and isinstance(el.elts[1], ast.Constant):
                            ns = getattr(namespaces, el.elts[0].id, None)
                            if ns is None:
                                items = None; break
                            items.append((ns, el.elts[1].value))
                        else:
                            items = None; break
                    if node.targets[0].id in found:
                        items = None          # assigned twice: not the shape we know
                    found[node.targets[0].id] = items
    # the scan must actually iterate over them
    uses = set()
    for fn in ast.walk(tree):
        if isinstance(fn, ast.FunctionDef) and fn.name == '_stylerefs_of':
            for node in ast.walk(fn):
                if isinstance(node, ast.For) and isinstance(node.iter, ast.Attribute):
                    uses.add(node.iter.attr)
    if uses != {'_STYLE_REF_ATTRS', '_STYLE_REF_LIST_ATTRS'}:
        return None, None
    return found.get('_STYLE_REF_ATTRS'), found.get('_STYLE_REF_LIST_ATTRS')


def probe_followed(candidates):
    """measure which attributes the real _used_auto_styles follows.
    returns {side: (single_set, list_set)}: `single` = a style is kept when the whole value is its name,
    `list` = it is kept when its name is the second item of a white-space separated value"""
    from odf.opendocument import OpenDocumentText
    from odf.element import Element
    from odf import style
    TEXTNS = u'urn:oasis:names:tc:opendocument:xmlns:text:1.0'
    res = {'body': (set(), set()), 'master': (set(), set())}
    for (ns, local) in candidates:
        for side in ('body', 'master'):
            for mode, value in ((0, u'Probe1'), (1, u'Zzz9 Probe1')):
                d = OpenDocumentText()
                st = style.Style(name=u'Probe1', family=u'text')
                d.automaticstyles.addElement(st)
                e = Element(qname=(TEXTNS, u'span'), check_grammar=False)
                try:
                    e.setAttrNS(ns, local, value)
                    if e.attributes.get((ns, local)) != value:
                        e.attributes[(ns, local)] = value
                except Exception:
                    e.attributes[(ns, local)] = value
                if side == 'body':
                    d.text.addElement(e, check_grammar=False)
                    kept = d._used_auto_styles([d.styles, d.body])
                else:
                    d.masterstyles.addElement(e, check_grammar=False)
                    kept = d._used_auto_styles([d.masterstyles])
                if any(k is st for k in kept):
                    res[side][mode].add((ns, local))
    return res


def python_space():
    """the code points at which the real `str.split()` splits (measured over all code points)"""
    return [c for c in range(0x110000) if len((u'a' + chr(c) + u'b').split()) == 2]


def tables(repo=None):
    """compute everything (no Lean output); returns a dict used by the harnesses"""
    repo = repo or common.REPO
    from odf import grammar
    from odf.namespaces import nsdict
    sch = schema_style_refs(os.path.join(repo, SCHEMA))
    schema = {}                                   # (ns, local) -> (prefix, listTyped)
    for (ns, p, l), kinds in sch.items():
        schema[(ns, l)] = (p, 'styleNameRefs' in kinds)
    for (ns, p, l) in HAND_NOTED:
        schema.setdefault((ns, l), (p, False))
    tup, tupl = ast_tuple(repo)
    cands = set(schema)
    for v in grammar.allowed_attributes.values():
        if v:
            cands.update(v)
    for t_ in (tup, tupl):
        if t_:
            cands.update(t_)
    cands.add((STYLENS, u'name'))
    pr = probe_followed(sorted(cands))
    single_b = pr['body'][0] - pr['body'][1]; list_b = pr['body'][1]
    single_m = pr['master'][0] - pr['master'][1]; list_m = pr['master'][1]
    def prefix(ns):
        for (n, l), (p, _) in schema.items():
            if n == ns:
                return p
        return nsdict.get(ns, 'ns')
    order = sorted(schema, key=lambda k: (schema[k][0], k[1]))
    codes = {(STYLENS, u'name'): 0}
    for k in order:
        codes[k] = len(codes)
    everything = single_b | single_m | list_b | list_m | set(tup or []) | set(tupl or [])
    extra = sorted(everything - set(codes), key=lambda k: (prefix(k[0]), k[1]))
    for k in extra:
        codes[k] = len(codes)
    def pick(ast_items, measured):
        if ast_items is not None and set(ast_items) == measured and len(set(ast_items)) == len(ast_items):
            return list(ast_items)
        return sorted(measured, key=lambda k: codes[k])
    followed = pick(tup, single_b | single_m)
    followed_list = pick(tupl, list_b | list_m)
    names = {k: (prefix(k[0]), k[1]) for k in codes}
    return {
        'codes': codes, 'names': names, 'schema': order, 'listTyped': [k for k in order if schema[k][1]],
        'followed': followed, 'followedList': followed_list,
        'measured': {'body': (single_b, list_b), 'master': (single_m, list_m)},
        'ast': tup, 'astList': tupl, 'pySpace': python_space(),
        'candidates': len(cands),
    }


def lean_text(t):
    c = t['codes']
    L = []
    L.append('/- GENERATED by harness/translate_styles.py from $ODFPY_REPO (grammar/*.rng, odf/opendocument.py, probing')
    L.append('   the real `_used_auto_styles` and `str.split`).  Do not edit: rewritten on every `./check C10`. -/')
    L.append('namespace OdfModel.Generated.StyleRefs')
    L.append('')
    L.append('/-- attribute code, prefix, local name (code 0 = `style:name`, the naming attribute of every automatic style) -/')
    L.append('def attrTable : List (Nat × String × String) := [')
    rows = sorted(c.items(), key=lambda kv: kv[1])
    L.append(',\n'.join('  (%d, "%s", "%s")' % (code, t['names'][k][0], t['names'][k][1]) for k, code in rows))
    L.append(']')
    L.append('')
    L.append('/-! named codes (so that hand-written witnesses do not depend on the numbering) -/')
    for k, code in rows:
        L.append('def a_%s_%s : Nat := %d' % (t['names'][k][0], t['names'][k][1].replace('-', '_'), code))
    L.append('')
    def lst(name, keys, doc):
        L.append('/-- %s -/' % doc)
        L.append('def %s : List Nat := [%s]' % (name, ', '.join(str(c[k]) for k in keys)))
        L.append('')
    lst('schemaStyleRefAttrs', t['schema'], 'attributes typed styleNameRef / styleNameRefs in the ODF 1.2 schema, plus style:list-style-name')
    lst('schemaListTyped', t['listTyped'], 'the subset typed styleNameRefs (lists of names)')
    lst('followedAttrs', t['followed'], 'measured: attributes whose whole value `_used_auto_styles` takes as a style name, in the order of `_STYLE_REF_ATTRS`')
    lst('followedListAttrs', t['followedList'], 'measured: attributes whose value is split into names, in the order of `_STYLE_REF_LIST_ATTRS`')
    L.append('/-- measured: the code points at which `str.split()` splits -/')
    L.append('def pySpaceTable : List Nat := [%s]' % ', '.join(str(c) for c in t['pySpace']))
    L.append('')
    L.append('end OdfModel.Generated.StyleRefs')
    return '\n'.join(L) + '\n'


def translate(chk):
    """run the translator, write the generated module, record the cross-checks as obligations"""
    t = tables()
    chk.write_generated('StyleRefs', lean_text(t))
    m = t['measured']
    chk.obligation('translator: followed sets measured on the body side = measured on the master side',
                   m['body'] == m['master'],
                   'body-only %r master-only %r' % (sorted((m['body'][0] | m['body'][1]) - (m['master'][0] | m['master'][1])),
                                                     sorted((m['master'][0] | m['master'][1]) - (m['body'][0] | m['body'][1]))))
    ok = t['ast'] is not None and t['astList'] is not None and set(t['ast']) == (m['body'][0] | m['master'][0]) \
        and set(t['astList']) == (m['body'][1] | m['master'][1])
    chk.obligation('translator: measured followed sets = literal tuples _STYLE_REF_ATTRS / _STYLE_REF_LIST_ATTRS (AST)', ok,
                   'ast=%r / %r measured=%r / %r' % (t['ast'] and sorted(x[1] for x in t['ast']),
                                                     t['astList'] and sorted(x[1] for x in t['astList']),
                                                     sorted(x[1] for x in m['body'][0] | m['master'][0]),
                                                     sorted(x[1] for x in m['body'][1] | m['master'][1])))
    chk.count('translator_candidates_probed', t['candidates'])
    return t


if __name__ == '__main__':
    common.use_repo()
    t = tables()
    print(lean_text(t))

# -*- coding: utf-8 -*-
"""C14 - namespaces keep their identity; output is independent of process history.

proof:          lean/OdfModel/Props/C14.lean (init0_ok, tableOK_reachable, one_prefix_per_namespace, one_namespace_per_prefix,
                empty_namespace_never_bound, history_independent(_runs), value_prefix_declared, value_prefix_declared_all_histories,
                value_prefix_declared_after_setAttrNS, finding_value_prefix_unknown)
correspondence: get_nsprefix histories in fresh interpreters vs `run initial` (prefixes and final table); __save_prefix
                Element.namespaces after setAttrNS of every prefixed-value attribute (c14vp) vs get_nsprefix + savePrefix
oracle:         bijection / empty-namespace / declared-prefix conditions on the real root element; the same trees serialised in a
                fresh interpreter and after a random history (other trees, foreign namespaces, loading sample packages with MathML /
                unqualified attributes) compared after independent parsing; c14vp.py: prefixed values in every attribute the schema /
                the ODF prose types as formula or namespaced token (API + load), loaded packages with a refused value next to a
                namespace not met before (first / second save in a fresh interpreter)
"""
import glob, os, re
import xmlchecks as C
import xmlcorr as X
import common
from common import enc_str


def root_decls(doc):
    """prefix -> namespace as declared on the root start tag (textual, independent of any parser's namespace handling)"""
    m = re.match(r"(?:<\?xml[^>]*\?>\s*)?<[^\s>/]+((?:\s+[^\s=]+=(?:\"[^\"]*\"|'[^']*'))*)\s*/?>", doc)
    out = []
    if m:
        for a in re.finditer(r"\s+([^\s=]+)=(\"[^\"]*\"|'[^']*')", m.group(1)):
            if a.group(1).startswith('xmlns'):
                out.append((a.group(1), a.group(2)[1:-1]))
    return out


def loaded_value_prefix(chk):
    import io, zipfile
    from odf.opendocument import OpenDocumentSpreadsheet, load
    from odf.table import Table, TableRow, TableCell
    for pfx, ns in ((u'of', u'urn:oasis:names:tc:opendocument:xmlns:of:1.2'), (u'msoxl', u'http://schemas.microsoft.com/office/excel/formula'),
                    (u'oooc', u'http://openoffice.org/2004/calc')):
        d = OpenDocumentSpreadsheet()
        t = Table(name=u'T'); r = TableRow(); c = TableCell(); r.addElement(c); t.addElement(r); d.spreadsheet.addElement(t)
        buf = io.BytesIO(); d.save(buf)
        zin = zipfile.ZipFile(io.BytesIO(buf.getvalue())); out = io.BytesIO(); zout = zipfile.ZipFile(out, 'w')
        for info in zin.infolist():
            data = zin.read(info.filename)
            if info.filename == 'content.xml':
                x = data.decode('utf-8')
                x = x.replace(u'<office:document-content ', u'<office:document-content xmlns:%s="%s" ' % (pfx, ns), 1) if (u'xmlns:%s=' % pfx) not in x else x
                x = x.replace(u'<table:table-cell/>', u'<table:table-cell table:formula="%s:=1+1"/>' % pfx, 1)
                data = x.encode('utf-8')
            zout.writestr(info, data)
        zout.close()
        d2 = load(io.BytesIO(out.getvalue()))
        b2 = io.BytesIO(); d2.save(b2)
        content = zipfile.ZipFile(io.BytesIO(b2.getvalue())).read('content.xml').decode('utf-8')
        decls = dict((a[6:], n) for a, n in root_decls(content) if a.startswith('xmlns:'))
        chk.case(('loaded-value-prefix', pfx)); chk.count('loaded_value_prefix')
        if (u'table:formula="%s:=1+1"' % pfx) not in content:
            chk.fail('formula-lost', {'prefix': pfx, 'namespace': ns}, 'formula attribute not found after load+save')
        elif pfx not in decls:
            from odf.namespaces import nsdict
            sig = 'value-prefix-unknown' if pfx not in nsdict.values() else 'value-prefix-not-declared'
            chk.fail(sig, {'prefix': pfx, 'namespace': ns}, 'prefix %r declared by the source and used in table:formula is not declared after load+save' % pfx)
        elif decls[pfx] != ns:
            chk.fail('value-prefix-rebound', {'prefix': pfx, 'namespace': ns}, 'bound to %r after load+save' % decls[pfx])


def run(chk, replay=None):
    chk.rule = ('random histories (namespace registrations, building other trees, loading sample packages with MathML / foreign / '
                'unqualified attributes) followed by serialising fixed trees, each in a fresh interpreter; non-trivial = history of '
                'length > 0')
    if replay is not None:
        chk.seed = replay.get('seed', chk.seed)
    drv = C.setup(chk, ['OdfModel.Props.C14'])
    C.histories_check(chk, drv, n=30 if chk.tier == 'quick' else 300)
    # __save_prefix: model vs code (fresh interpreter each, because it registers namespaces)
    vals = [u'of:=SUM(A1)', u'zz:=1', u'nocolon', u'oooc:=1', u'msoxl:=A1', u'text:p', u':x', u'xlink:href']
    for v in vals:
        code = ("import sys, json; sys.path.insert(0, %r); from odf.element import Element; import odf.attrconverters as A; "
                "e = Element(qname=(u'', u'x'), check_grammar=False); A.cnv_formula((u'', u'f'), %r, e); "
                "print(json.dumps([[k, v] for k, v in Element.namespaces.items()]))" % (common.REPO, v))
        import subprocess, sys, json
        r = subprocess.run([sys.executable, '-c', code], stdout=subprocess.PIPE, stderr=subprocess.PIPE, universal_newlines=True)
        if r.returncode != 0:
            raise common.InfraError(r.stderr[-500:])
        tbl = json.loads(r.stdout)
        impl = 'ok ' + ' '.join(enc_str(a) + ' ' + enc_str(b) for a, b in tbl)
        ans = drv.ask('saveprefix ' + enc_str(v))
        chk.corr(); chk.count('save_prefix')
        if impl.split() != ans.split():
            chk.corr_diff({'value': v}, impl, ans, 'Element.namespaces after cnv_formula(value)')
        chk.case(('saveprefix', v))
        # oracle (API): a prefix the library knows must be declared on output and bound as nsdict binds it
        pfx = v.split(':', 1)[0] if ':' in v else None
        if pfx:
            declared = dict((p, n) for n, p in tbl)
            from odf.namespaces import nsdict
            known = dict((p, n) for n, p in nsdict.items())
            if pfx in known and pfx not in declared:
                chk.fail('value-prefix-not-declared', {'value': v}, 'known prefix %r used in an attribute value is not declared on output' % pfx)
            elif pfx in known and declared[pfx] != known[pfx]:
                chk.fail('value-prefix-rebound', {'value': v}, 'prefix %r bound to %r' % (pfx, declared[pfx]))
    # oracle (load): a prefix declared by the source document and used in a formula must still be declared, and bound to the
    # same namespace, in the package saved after load()
    loaded_value_prefix(chk)
    # every attribute whose datatype lets the value carry a prefix (list read from the RELAX-NG schema + the prose of ODF 1.2), every
    # conventional prefix, via the API and via load()+save(), each in a fresh interpreter; and loaded packages in which one element
    # carries a value invalid for its datatype next to a namespace the process has never met (first and second save)
    import c14vp
    c14vp.value_prefix_attrs_check(chk, drv)
    c14vp.refused_value_check(chk)
    # fixed cases: a loaded package binds a prefix of the generated form ns<k> (k = the next numbers the library would hand out) to a
    # foreign namespace, then new namespaces are registered: no prefix may end up bound twice
    import translate_ns as _tns
    n0 = len(_tns.initial_nsdict()[0])
    for k in range(n0, n0 + 4):
        out = C.run_child({'synthetic': [[u'ns%d' % k, u'urn:foreign:gen%d' % k]], 'touch': [u'urn:new:%d' % j for j in range(5)]})
        chk.case(('genprefix', k)); chk.count('generated_form_prefix_cases')
        C.table_oracle(chk, out['table_after'], {'synthetic': [[u'ns%d' % k, u'urn:foreign:gen%d' % k]], 'touch': 5})
    C.alive_across_load_check(chk)
    C.fresh_process_documents_check(chk)
    # history independence: same trees, fresh interpreter vs after a history
    samples = sorted(glob.glob(os.path.join(common.REPO, 'tests', 'examples', '*.od*')))
    import translate_ns
    NINIT = len(translate_ns.initial_nsdict()[0])
    n = 12 if chk.tier == 'quick' else 120
    for i in range(n):
        rng = chk.rng
        trees = [X.rand_tree(rng, depth=3, allow_bad=False) for _ in range(3)]
        hist = [rng.choice(C.HIST_NS) for _ in range(rng.randint(1, 6))]
        pre = [rng.choice(samples)] if samples and rng.random() < 0.6 else []
        other = [X.rand_tree(rng, depth=2) for _ in range(rng.randint(0, 3))]
        early = [X.rand_tree(rng, depth=2, allow_bad=False) for _ in range(2)]
        from odf.namespaces import nsdict
        known = sorted(nsdict.items())
        synth = []
        for _ in range(rng.choice([0, 1, 2])):
            ns0, p0 = rng.choice(known)
            synth.append([p0, u'urn:foreign:' + p0])          # a reserved prefix bound to a foreign namespace by the source
        for _ in range(rng.choice([0, 1, 2])):
            # ... or a prefix of the form the library GENERATES (ns<k>, k around the size of its table) - a loader that adopts
            # the source's prefix must not collide with the next generated one
            k = NINIT + rng.randint(0, 10)      # NINIT = size of the table in a fresh interpreter
            synth.append([u'ns%d' % k, u'urn:foreign:gen%d' % k])
        touch = [ns0 for ns0, p0 in known if any(p0 == sp[0] for sp in synth)] + [rng.choice(known)[0]] \
                + [u'urn:new:%d:%d' % (i, j) for j in range(rng.randint(1, 6))]
        imp = rng.random() < 0.8
        fresh = C.run_child({'trees_before': early, 'trees': trees, 'import_first': imp})
        after = C.run_child({'import_first': imp, 'trees_before': early, 'history': hist, 'preload': pre, 'synthetic': synth, 'touch': touch,
                             'trees': other + trees})
        trees = early + trees
        after['docs'] = after['docs'][:len(early)] + after['docs'][len(early) + len(other):]
        other = []
        chk.case(('indep', i), sample={'history': hist, 'preload': [os.path.basename(p) for p in pre], 'synthetic': synth} if i < 2 else None)
        chk.count('history_pairs')
        C.table_oracle(chk, after['table_after'], {'history': hist, 'preload': pre, 'synthetic': synth, 'touch': touch})
        for k, (a, b) in enumerate(zip(fresh['docs'], after['docs'][len(other):])):
            ok1, t1 = C.wellformed(C.PROLOGUE + a); ok2, t2 = C.wellformed(C.PROLOGUE + b)
            case = {'history': hist, 'preload': pre, 'synthetic': synth, 'touch': touch, 'tree': trees[k], 'built_before_history': k < len(early)}
            if not (ok1 and ok2):
                chk.fail('not-wellformed-after-history', case, 'fresh: %s / after history: %s' % (ok1 or t1, ok2 or t2)); continue
            if X.sort_attrs(t1) != X.sort_attrs(t2):
                chk.fail('history-dependent-infoset', case, str(X.first_diff(X.sort_attrs(t1), X.sort_attrs(t2))))
            # bijection and no empty-namespace binding on the real root start tag
            decls = root_decls(b)
            pre_ = [d[0] for d in decls]; ns_ = [d[1] for d in decls]
            if len(set(pre_)) != len(pre_) or len(set(ns_)) != len(ns_):
                chk.fail('declaration-not-bijective', case, repr(decls)[:300])
            if any(n == '' for n in ns_) or any(p == 'xmlns' for p in pre_):
                chk.fail('empty-namespace-bound', case, repr(decls)[:300])
    return chk.finish()

# -*- coding: utf-8 -*-
"""Shared by c08.py and c07.py: a world of real odf nodes addressed by small integer ids,
run in lock-step with the Lean driver `drv_dom` (model lean/OdfModel/Dom.lean).

An op is a JSON-able list:
  ['new', kind, id, factory]         kind 'e' (factory = key of FACTORIES) | 't' | 'c'
  ['append', p, c]  ['insb', p, new, ref|None]  ['rm', p, c]
  ['adde', p, c]    ['addt', p, newid, text]    ['addc', p, newid, text]
  ['seta', e, attr, value]  ['setns', e, ns, local, value]  ['rma', e, attr]
  ['ctor', newid, factory, kwargs, parent|None, textid|None, cdataid|None]
       kwargs: list of [name, value]; 'text'/'cdata' keywords create the child ids textid/cdataid
  ['ghost', 'copy', newid, src]      newid = copy.copy(src): a second object with the same parent / sibling pointers that is in no
                                     child list (an element copy gets its own child list and attribute dict, as the model's record copy)
  ['ghost', 'handrm', p, c]          p.childNodes.remove(c) by hand: c keeps saying "my parent is p"
  ['ghost', 'setparent', c, p]       c.parentNode = p by hand: c says "my parent is p", p does not list it
       (states only a caller's own pointer surgery reaches; the DOM calls made in them must still be all-or-nothing)

`World.apply(op)` runs it on the real objects and returns 'ok' / 'err <Enum>';
`World.line(op)` is the request line for the driver (computed BEFORE the op is applied: the
grammar / attribute-conversion verdicts the model takes as parameters are read off the
grammar tables and the converter, not off the outcome of the call).
"""
import xml.dom

TEXTNS = u"urn:oasis:names:tc:opendocument:xmlns:text:1.0"
STYLENS = u"urn:oasis:names:tc:opendocument:xmlns:style:1.0"
OFFICENS = u"urn:oasis:names:tc:opendocument:xmlns:office:1.0"

# name -> (module, function); resolved lazily against the repo under test
FACTORIES = {
    'P': ('text', 'P'), 'Span': ('text', 'Span'), 'Section': ('text', 'Section'), 'H': ('text', 'H'),
    'List': ('text', 'List'), 'ListItem': ('text', 'ListItem'), 'A': ('text', 'A'),
    'Style': ('style', 'Style'), 'TextProperties': ('style', 'TextProperties'),
    'DrawA': ('draw', 'A'), 'TextTitle': ('text', 'Title'), 'DcTitle': ('dc', 'Title'),
    # elements the grammar lets hold neither children nor text: as PARENTS (appendChild / insertBefore / unchecked adds do not ask
    # the grammar) they must still have a child list of their own (seeded change C08-r6m1: one shared empty list)
    'LineBreak': ('text', 'LineBreak'), 'S': ('text', 'S'), 'Tab': ('text', 'Tab'),
}
FACTORY_ORDER = sorted(FACTORIES)


def factory(name):
    import importlib
    m, f = FACTORIES[name]
    return getattr(importlib.import_module('odf.' + m), f)


def err_name(e):
    from odf.element import IllegalChild, IllegalText
    if isinstance(e, IllegalChild): return 'IllegalChild'
    if isinstance(e, IllegalText): return 'IllegalText'
    if isinstance(e, xml.dom.NotFoundErr): return 'NotFound'
    if isinstance(e, xml.dom.HierarchyRequestErr): return 'Hierarchy'
    if isinstance(e, KeyError): return 'KeyError'
    if isinstance(e, AttributeError): return 'AttributeError'
    if isinstance(e, ValueError): return 'ValueError'
    return 'Unexpected-' + type(e).__name__


class Tokens(object):
    """stable small integers for attribute keys / values / qnames"""
    def __init__(self):
        self.t = {}
    def __call__(self, x):
        if x not in self.t:
            self.t[x] = len(self.t) + 1
        return self.t[x]


class World(object):
    def __init__(self, attached):
        from odf.opendocument import OpenDocumentText
        from odf import style
        self.attached = attached
        self.nodes = {}       # id -> real node
        self.idof = {}        # id(node) -> id
        self.keep = []        # keeps refused objects alive (so id() values are not reused)
        self.keytok = Tokens(); self.valtok = Tokens(); self.qntok = Tokens()
        self.doc = None
        self.roots = {}       # id -> (parent, previous, next) of a skeleton node of the document
        if attached:
            self.doc = OpenDocumentText()

    # ------------------------------------------------------------------ ids
    def reg(self, i, node):
        self.nodes[i] = node
        self.idof[id(node)] = i

    def nid(self, node):
        if node is None:
            return None
        return self.idof.get(id(node), 'X')

    # ------------------------------------------------------------------ verdicts the model takes as parameters
    def allowed_child(self, p, c):
        from odf import grammar
        pn, cn = self.nodes[p], self.nodes[c]
        ac = grammar.allowed_children.get(getattr(pn, 'qname', None))
        return ac is None or getattr(cn, 'qname', None) in ac

    def allows_text(self, p):
        from odf import grammar
        return getattr(self.nodes[p], 'qname', None) in grammar.allows_text

    def attr_verdict(self, qname, attr, value, elem=None):
        """(known, is_tuple, allowed, key, conv) for setAttribute(attr, value) on an element of `qname`"""
        from odf import grammar
        from odf.attrconverters import AttrConverters
        aa = grammar.allowed_attributes.get(qname)
        known = aa is not None
        is_tuple = isinstance(attr, tuple)
        key = None; allowed = False
        if known:
            args = [a[1].lower().replace('-', '') for a in aa]
            if attr in args:
                allowed = True
                key = aa[args.index(attr)]
        elif is_tuple:
            key = attr
        conv = None
        if key is not None:
            conv = self.conv_verdict(qname, key, value, elem)
        return known, is_tuple, allowed, key, conv

    def conv_verdict(self, qname, key, value, elem=None):
        from odf.attrconverters import AttrConverters
        from odf.element import Element
        if elem is None:
            elem = Element(qname=qname, check_grammar=False)
            self.keep.append(elem)
        try:
            v = AttrConverters().convert(key, value, elem)
            return 'o%d' % self.valtok(v)
        except Exception as e:
            return 'e' + err_name(e)

    # ------------------------------------------------------------------ request line for the model
    def line(self, op):
        k = op[0]
        b = lambda x: '1' if x else '0'
        if k == 'new':
            if op[1] == 'e':
                return 'new e %d %d' % (op[2], self.qntok(op[3]))
            return 'new %s %d' % (op[1], op[2])
        if k == 'append': return 'append %d %d' % (op[1], op[2])
        if k == 'insb': return 'insb %d %d %s' % (op[1], op[2], '-' if op[3] is None else op[3])
        if k == 'rm': return 'rm %d %d' % (op[1], op[2])
        if k == 'adde': return 'adde %d %d %s' % (op[1], op[2], b(self.allowed_child(op[1], op[2])))
        if k == 'addt': return 'addt %d %d %s %s' % (op[1], op[2], b(self.allows_text(op[1])), b(op[3] != u''))
        if k == 'addc': return 'addc %d %d %s' % (op[1], op[2], b(self.allows_text(op[1])))
        if k == 'seta':
            e = self.nodes[op[1]]
            attr = tuple(op[2]) if isinstance(op[2], list) else op[2]
            known, tup, allowed, key, conv = self.attr_verdict(e.qname, attr, op[3], e)
            return 'seta %d %s %s %s %d %s' % (op[1], b(known), b(tup), b(allowed),
                                              self.keytok(key) if key else 0, conv or 'o0')
        if k == 'setns':
            e = self.nodes[op[1]]
            key = (op[2], op[3])
            return 'setns %d %d %s' % (op[1], self.keytok(key), self.conv_verdict(e.qname, key, op[4], e))
        if k == 'rma':
            e = self.nodes[op[1]]
            attr = tuple(op[2]) if isinstance(op[2], list) else op[2]
            known, tup, allowed, key, _ = self.attr_key(e.qname, attr)
            return 'rma %d %s %s %s %d' % (op[1], b(known), b(tup), b(allowed), self.keytok(key) if key else 0)
        if k == 'ctor':
            return self.ctor_line(op)
        if k == 'ghost':
            return {'copy': 'gcopy %d %d', 'handrm': 'gkids %d %d', 'setparent': 'gpar %d %d'}[op[1]] % (op[2], op[3])
        raise ValueError(op)

    def attr_key(self, qname, attr):
        from odf import grammar
        aa = grammar.allowed_attributes.get(qname)
        known = aa is not None
        tup = isinstance(attr, tuple)
        key = None; allowed = False
        if known:
            args = [a[1].lower().replace('-', '') for a in aa]
            if attr in args:
                allowed = True; key = aa[args.index(attr)]
        elif tup:
            key = attr
        return known, tup, allowed, key, None

    def ctor_line(self, op):
        from odf import grammar
        _, i, fname, kwargs, parent, tid, cid = op
        b = lambda x: '1' if x else '0'
        f = factory(fname)
        probe = f(check_grammar=False)          # only to learn the qname the factory produces
        self.keep.append(probe)
        qname = probe.qname
        kw = [(n, v) for n, v in kwargs]
        text = [v for n, v in kw if n == 'text']
        cdata = [v for n, v in kw if n == 'cdata']
        attrs = [(n, v) for n, v in kw if n not in ('text', 'cdata')]
        at = qname in grammar.allows_text
        words = ['ctor', str(i), str(self.qntok(fname)), b(at)]
        words.append('%d:%s' % (tid, b(text[0] != u'')) if text else '-')
        words.append('%d' % cid if cdata else '-')
        if parent is None:
            words.append('-')
        else:
            ac = grammar.allowed_children.get(self.nodes[parent].qname) if hasattr(self.nodes[parent], 'qname') else None
            # a text-node parent has no addElement at all; never generated
            words.append('%d:%s' % (parent, b(ac is None or qname in ac)))
        req = grammar.required_attributes.get(qname) or ()
        words.append(str(len(req)))
        for r in req:
            words.append(str(self.keytok(r)))
        words.append(str(len(attrs)))
        for n, v in attrs:
            known, tup, allowed, key, conv = self.attr_verdict(qname, n, v)
            words.append('s:%s%s%s:%d:%s' % (b(known), b(tup), b(allowed), self.keytok(key) if key else 0, conv or 'o0'))
        return ' '.join(words)

    # ------------------------------------------------------------------ the real library
    def apply(self, op):
        """run the op on the real objects; 'ok' or 'err <Enum>'"""
        from odf.element import Text, CDATASection
        k = op[0]
        N = self.nodes
        try:
            if k == 'new':
                if op[1] == 'e':
                    if op[3] == '@doctext':
                        node = self.doc.text
                        self.roots[op[2]] = (node.parentNode, node.previousSibling, node.nextSibling)
                    elif op[3] == '@docstyles':
                        node = self.doc.styles
                        self.roots[op[2]] = (node.parentNode, node.previousSibling, node.nextSibling)
                    else:
                        node = factory(op[3])(check_grammar=False)
                elif op[1] == 't':
                    node = Text(u'' if op[3] == u'' else u'txt')        # op[3] == '': empty; all other text nodes have EQUAL content
                else:
                    node = CDATASection(u'' if op[3] == u'' else u'cd')
                self.reg(op[2], node)
            elif k == 'append':
                N[op[1]].appendChild(N[op[2]])
            elif k == 'insb':
                N[op[1]].insertBefore(N[op[2]], None if op[3] is None else N[op[3]])
            elif k == 'rm':
                N[op[1]].removeChild(N[op[2]])
            elif k == 'adde':
                N[op[1]].addElement(N[op[2]])
            elif k in ('addt', 'addc'):
                p = N[op[1]]
                before = list(p.childNodes)
                try:
                    if k == 'addt': p.addText(op[3])
                    else: p.addCDATA(op[3])
                finally:
                    # the node created inside the call gets the id the harness chose for it
                    new = [c for c in p.childNodes if not any(c is b for b in before)]
                    if len(new) == 1:
                        self.reg(op[2], new[0])
                    elif len(new) > 1:
                        raise AssertionError('addText/addCDATA created %d nodes' % len(new))
            elif k == 'seta':
                attr = tuple(op[2]) if isinstance(op[2], list) else op[2]
                N[op[1]].setAttribute(attr, op[3])
            elif k == 'setns':
                N[op[1]].setAttrNS(op[2], op[3], op[4])
            elif k == 'rma':
                attr = tuple(op[2]) if isinstance(op[2], list) else op[2]
                N[op[1]].removeAttribute(attr)
            elif k == 'ctor':
                self.apply_ctor(op)
            elif k == 'ghost':
                if op[1] == 'copy':
                    import copy
                    g = copy.copy(N[op[3]])
                    if g.nodeType == 1:
                        g.childNodes = list(g.childNodes)
                        g.attributes = dict(g.attributes)
                    self.reg(op[2], g)
                elif op[1] == 'handrm':
                    kids = N[op[2]].childNodes
                    for j, c in enumerate(kids):
                        if c is N[op[3]]:
                            del kids[j]
                            break
                elif op[1] == 'setparent':
                    N[op[2]].parentNode = N[op[3]]
                else:
                    raise ValueError(op)
            else:
                raise ValueError(op)
            return 'ok'
        except Exception as e:     # includes RecursionError (a cyclic tree built by a broken library)
            self.last_exc = e
            return 'err ' + err_name(e)

    def apply_ctor(self, op):
        import odf.element as element
        _, i, fname, kwargs, parent, tid, cid = op
        kw = dict((n, v) for n, v in kwargs)
        if parent is not None:
            kw['parent'] = self.nodes[parent]
        if i % 2 == 1 and fname != 'Style':   # (style.StyleElement inspects its keyword arguments itself)
            # the other calling convention: attributes (and the 'parent' pseudo-attribute, first) in the `attributes=` dict;
            # same processing order as keyword arguments, so the model's request line is the same
            attrs = {}
            if parent is not None:
                attrs['parent'] = kw.pop('parent')
            for n, v in kwargs:
                if n not in ('text', 'cdata'):
                    attrs[n] = kw.pop(n)
            kw['attributes'] = attrs
        # catch the object even when __init__ raises: Element.__init__ is entered with the new object as self
        made = []
        orig = element.Element.__init__
        def spy(self_, *a, **k):
            if not made:
                made.append(self_)
            return orig(self_, *a, **k)
        element.Element.__init__ = spy
        try:
            try:
                factory(fname)(**kw)
            finally:
                element.Element.__init__ = orig
        finally:
            if made:
                obj = made[0]
                self.keep.append(obj)
                self.reg(i, obj)
                for c in getattr(obj, 'childNodes', []):
                    if c.nodeType == 3 and tid is not None and id(c) not in self.idof: self.reg(tid, c)
                    elif c.nodeType == 4 and cid is not None and id(c) not in self.idof: self.reg(cid, c)

    # ------------------------------------------------------------------ pointer snapshot (driver's `snap` format)
    def snapshot(self):
        out = []
        s = lambda x: '-' if x is None else str(x)
        for i in sorted(self.nodes):
            n = self.nodes[i]
            kind = {1: 'e', 3: 't', 4: 'c'}[n.nodeType]
            par = self.nid(n.parentNode); prv = self.nid(n.previousSibling); nxt = self.nid(n.nextSibling)
            if i in self.roots:
                # a part of the document skeleton: its own place (outside the universe) must not change
                r = self.roots[i]
                par = None if n.parentNode is r[0] else 'X'
                prv = None if n.previousSibling is r[1] else 'X'
                nxt = None if n.nextSibling is r[2] else 'X'
            attrs = []
            if kind == 'e':
                for key, v in (getattr(n, 'attributes', None) or {}).items():
                    attrs.append((self.keytok(key), self.valtok(v)))
            attrs.sort()
            out.append('%d:%s:%s:%s:%s:[%s]:{%s}' % (
                i, kind, s(par), s(prv), s(nxt),
                ','.join(str(self.nid(c)) for c in n.childNodes),
                ','.join('%d=%d' % a for a in attrs)))
        return 'ok ' + ' '.join(out)

    def body(self):
        return self.doc.body

    # ------------------------------------------------------------------ ancestors (reference: parentNode walk over ids)
    def is_ancestor_or_self(self, a, x):
        """is node a an ancestor of x, or x itself (walks the real parent links)"""
        n = self.nodes[x]
        seen = 0
        while n is not None and seen < 10000:
            if n is self.nodes[a]:
                return True
            n = n.parentNode; seen += 1
        return False


def run_lockstep(chk, drv, attached, ops, per_step=None):
    """run `ops` on a fresh world and on the driver; compare answer and full snapshot after every op.
    per_step(world, index, op, impl_answer) is the oracle hook.  Returns (world, first_diff|None)."""
    w = World(attached)
    lines = ['reset']
    impl = ['ok']
    for idx, op in enumerate(ops):
        lines.append(w.line(op))
        a = w.apply(op)
        impl.append(a)
        lines.append('snap')
        impl.append(w.snapshot())
        if per_step is not None:
            if per_step(w, idx, op, a):      # the oracle already has its failing input: stop here
                break
    model = drv.batch(lines)
    diff = None
    for j, (x, y) in enumerate(zip(impl, model)):
        if x != y:
            diff = {'line': lines[j], 'op_index': (j - 1) // 2, 'impl': x, 'model': y}
            break
    return w, diff

# -*- coding: utf-8 -*-
"""C10 - saving keeps every referenced automatic style in the part that refers to it.

translate:      harness/translate_styles.py -> lean/OdfModel/Generated/StyleRefs.lean (schema style-reference
                attributes from the .rng, followed attributes MEASURED on the real `_used_auto_styles` and
                cross-checked with the AST of `_STYLE_REF_ATTRS` / `_STYLE_REF_LIST_ATTRS`, separators of str.split)
proof:          lean/OdfModel/Props/C10Deep.lean: a reference below any number of levels of nesting is collected, its style written;
                lean/OdfModel/Props/C10.lean about lean/OdfModel/Styles.lean; lean/OdfModel/Props/C10Hist.lean: histories of one
                document object (saves, saves that fail part-way, additive edits): the retry writes what a first save writes,
                what was written stays written, a style added after a failed save and referenced from new content is written
correspondence: the name list the real `_used_auto_styles` ends with (captured from `_stylerefs_of` /
                `_parseoneelement`) and the elements it returns at the two real call sites (contentxml,
                stylesxml)  vs  drv_styles, on generated style graphs (the real tree is dumped and sent to the model)
oracle:         save() the document, parse content.xml / styles.xml with expat, resolve every style
                reference site (every attribute of the schema list) against the styles present in its own
                part; each written automatic style compared (infoset) with the in-memory element; at most
                once per part; no written automatic style that nothing in its part refers to.  Independent of the model.
                Histories: the same oracle on the save that ends a history of failed saves (a file object whose write()
                raises inside each member of the package; a node that cannot be rendered) and edits, compared with the
                first save of a never saved twin with the same edits; the tree after the history goes to the model too.
                Deep nesting (oracle_deep): documents nested up to and beyond the recursion limit; a save that returns is held to
                the same clauses by an iterative oracle on flat event lists (signatures deep-nesting:*); a save that raises is fine.
"""
import io, zipfile, json, re
import xml.parsers.expat
from common import enc_str
import translate_styles

NS = {
    'office': u'urn:oasis:names:tc:opendocument:xmlns:office:1.0',
    'style': u'urn:oasis:names:tc:opendocument:xmlns:style:1.0',
    'text': u'urn:oasis:names:tc:opendocument:xmlns:text:1.0',
    'table': u'urn:oasis:names:tc:opendocument:xmlns:table:1.0',
    'draw': u'urn:oasis:names:tc:opendocument:xmlns:drawing:1.0',
    'number': u'urn:oasis:names:tc:opendocument:xmlns:datastyle:1.0',
    'presentation': u'urn:oasis:names:tc:opendocument:xmlns:presentation:1.0',
    'chart': u'urn:oasis:names:tc:opendocument:xmlns:chart:1.0',
    'form': u'urn:oasis:names:tc:opendocument:xmlns:form:1.0',
    'fo': u'urn:oasis:names:tc:opendocument:xmlns:xsl-fo-compatible:1.0',
}
STYLE_NAME = (NS['style'], u'name')
XML_SPACE = re.compile(u'[ \t\r\n]+')      # separators of a RELAX NG list (the oracle's own split)
SEPS = [u' ', u' ', u'  ', u'\t', u'\n', u' \r\n ']

# kinds of automatic style: element qname, extra attributes, optional child that can carry references
KINDS = {
    'text':       ((NS['style'], 'style'), {(NS['style'], 'family'): 'text'}, None),
    'paragraph':  ((NS['style'], 'style'), {(NS['style'], 'family'): 'paragraph'}, (NS['style'], 'paragraph-properties')),
    'table-cell': ((NS['style'], 'style'), {(NS['style'], 'family'): 'table-cell'}, (NS['style'], 'map')),
    'graphic':    ((NS['style'], 'style'), {(NS['style'], 'family'): 'graphic'}, (NS['style'], 'graphic-properties')),
    'drawing-page': ((NS['style'], 'style'), {(NS['style'], 'family'): 'drawing-page'}, None),
    'list':       ((NS['text'], 'list-style'), {}, (NS['text'], 'list-level-style-number')),
    'number':     ((NS['number'], 'number-style'), {}, (NS['style'], 'map')),
    'date':       ((NS['number'], 'date-style'), {}, (NS['style'], 'map')),
    'percentage': ((NS['number'], 'percentage-style'), {}, (NS['style'], 'map')),
    'currency':   ((NS['number'], 'currency-style'), {}, None),
    'pagelayout': ((NS['style'], 'page-layout'), {}, (NS['style'], 'header-style')),
}
KIND_NAMES = sorted(KINDS)
BODY_ELEMS = [(NS['text'], 'p'), (NS['text'], 'span'), (NS['text'], 'a'), (NS['text'], 'list'), (NS['text'], 'list-item'),
              (NS['draw'], 'frame'), (NS['table'], 'table'), (NS['table'], 'table-cell'), (NS['text'], 'h'),
              (NS['draw'], 'text-box'), (NS['form'], 'text')]
MASTER_PARTS = [(NS['style'], 'header'), (NS['style'], 'footer'), (NS['draw'], 'frame'), (NS['presentation'], 'notes'),
                (NS['style'], 'header-left')]


# ------------------------------------------------------------------ recipes (pure data, JSON-able)
def _refs(refs):
    # (attribute, value) or (attribute, value, True): True = hand the style OBJECT to the library, not its name
    return [[list(r[0]), r[1]] + ([True] if len(r) > 2 and r[2] else []) for r in refs]


def el(q, refs=(), kids=(), text=None):
    return {'q': list(q), 'refs': _refs(refs), 'kids': list(kids), 'text': text}


def style_recipe(kind, name, refs=(), kidrefs=()):
    return {'kind': kind, 'name': name, 'refs': _refs(refs), 'kidrefs': _refs(kidrefs)}


def empty_recipe(doctype='text'):
    return {'doctype': doctype, 'common': [], 'auto': [], 'body': [], 'master': []}


OBJECT_CONVERTERS = ('cnv_StyleNameRef',)      # converters that take a style object and store its style:name


class _Build(object):
    """the helpers that turn recipe data into real elements of ONE document; kept on the document
    (`doc.c10_build`) so that a history can go on editing it (apply_edit)"""
    def __init__(self):
        self.problems = []
        self.registry = {}

    def put(self, e, a, v, obj=False):
        from odf.attrconverters import attrconverters
        problems, registry = self.problems, self.registry
        a = (a[0], a[1])
        if obj and v in registry:
            conv = attrconverters.get((a, e.qname)) or attrconverters.get((a, None))
            if conv is not None and conv.__name__ in OBJECT_CONVERTERS:
                target = registry[v][0]
                try:
                    e.setAttrNS(a[0], a[1], target)
                except Exception as ex:
                    problems.append(('object-reference-refused:%s' % a[1], 'setAttrNS(%s, <%s style:name=%r>) raised %r' % (a[1], target.qname[1], v, ex)))
                    e.attributes[a] = v
                stored = e.attributes.get(a)
                if not (isinstance(stored, str) and stored == v):
                    # the reference given as an object must be stored as that object's style:name
                    problems.append(('object-reference-not-stored:%s' % a[1],
                                     '%s given the object <%s style:name=%r> is stored as %r' % (a[1], target.qname[1], v, u'%s' % (stored,))))
                return
        try:
            e.setAttrNS(a[0], a[1], v)
        except Exception:
            e.attributes[a] = v
        if e.attributes.get(a) != v:       # e.g. cnv_NCNames wants a list and spaces a string out (C15's subject)
            e.attributes[a] = v

    def putrefs(self, e, refs):
        for r in refs:
            self.put(e, r[0], r[1], len(r) > 2 and r[2])

    def build(self, r):
        from odf.element import Element
        e = Element(qname=(r['q'][0], r['q'][1]), check_grammar=False)
        self.putrefs(e, r['refs'])
        if r.get('text'):
            e.addText(r['text'], check_grammar=False)
        for k in r['kids']:
            e.addElement(self.build(k), check_grammar=False)
        return e

    def new_style(self, s):
        from odf.element import Element
        q, extra, kidq = KINDS[s['kind']]
        e = Element(qname=q, check_grammar=False)
        self.put(e, STYLE_NAME, s['name'])
        for a, v in sorted(extra.items()):
            self.put(e, a, v)
        return e

    def finish_style(self, e, s):
        from odf.element import Element
        q, extra, kidq = KINDS[s['kind']]
        self.putrefs(e, s['refs'])
        if s['kidrefs']:
            k = Element(qname=kidq or (NS['style'], 'text-properties'), check_grammar=False)
            self.putrefs(k, s['kidrefs'])
            e.addElement(k, check_grammar=False)

    def add_styles(self, d, common, auto):
        """first every style element (so that references can be given as objects), then their references"""
        registry = self.registry
        made = []
        for s in auto:
            e = self.new_style(s); made.append((e, s)); registry.setdefault(s['name'], []).append(e)
        cmade = []
        for s in common:
            e = self.new_style(s); cmade.append((e, s)); registry.setdefault(s['name'], []).append(e)
        for e, s in cmade:
            self.finish_style(e, s)
            d.styles.addElement(e, check_grammar=False)
        for e, s in made:
            self.finish_style(e, s)
            if s.get('late_name'):
                # a second style:style under an existing name would be renamed to 'M'+name when it is added
                # (__register_stylename); give it its name once it is in the tree
                self.put(e, STYLE_NAME, s['name'] + u'__tmp')
                d.automaticstyles.addElement(e, check_grammar=False)
                self.put(e, STYLE_NAME, s['name'])
            else:
                d.automaticstyles.addElement(e, check_grammar=False)

    def add_content(self, d, body, master):
        main = [c for c in d.body.childNodes][0] if d.body.childNodes else d.body
        for r in body:
            main.addElement(self.build(r), check_grammar=False)
        for r in master:
            d.masterstyles.addElement(self.build(r), check_grammar=False)


def realise(recipe):
    """build the real document of a recipe (generic elements, grammar checks off, setAttrNS for every attribute);
    references flagged so are given as style OBJECTS; `recipe['objects']` are embedded with addObject (recursively).
    `doc.c10_problems` collects what went wrong while building: (signature, detail)"""
    from odf import opendocument
    mk = {'text': opendocument.OpenDocumentText, 'spreadsheet': opendocument.OpenDocumentSpreadsheet,
          'presentation': opendocument.OpenDocumentPresentation, 'drawing': opendocument.OpenDocumentDrawing}
    d = mk[recipe['doctype']]()
    b = _Build()
    problems = b.problems
    b.add_styles(d, recipe['common'], recipe['auto'])
    b.add_content(d, recipe['body'], recipe['master'])
    for sub in recipe.get('objects', []):
        sd = realise(sub)
        d.addObject(sd)
        problems.extend(sd.c10_problems)
    d.c10_problems = problems
    d.c10_build = b
    return d


def all_docs(top):
    """(document, folder prefix inside the package) for a document and everything embedded in it"""
    out = []
    def add(d):
        out.append((d, u'' if d is top else d.folder[len(top.folder) + 1:] + u'/'))
        for o in d.childobjects:
            add(o)
    add(top)
    return out


# ------------------------------------------------------------------ generators
def gen_structured(T):
    """each schema reference attribute once directly and once through a chain, from the body and from a master page"""
    text_sn = (NS['text'], 'style-name')
    kinds = KIND_NAMES
    for i, a in enumerate(T['schema']):
        listy = a in T['listTyped']
        for side in ('body', 'master'):
            for shape in ('direct', 'chain'):
                r = empty_recipe(['text', 'spreadsheet', 'presentation', 'drawing'][i % 4])
                kind = kinds[(i + (side == 'master') + 2 * (shape == 'chain')) % len(kinds)]
                r['auto'].append(style_recipe(kind, 'X1'))
                r['auto'].append(style_recipe('text', 'Unused'))
                val = ['X1 Common1', 'Common1\tX1', ' X1\n', 'Missing  X1 '][(i + (side == 'master')) % 4] if listy else 'X1'
                r['common'].append(style_recipe('paragraph', 'Common1'))
                if shape == 'direct':
                    site = el(BODY_ELEMS[i % len(BODY_ELEMS)], [(a, val, side == 'master' or i % 2 == 0)], text='t')
                else:
                    mid = style_recipe('paragraph', 'Mid1', refs=[(a, val, side == 'body')]) if i % 2 == 0 else \
                        style_recipe('paragraph', 'Mid1', kidrefs=[(a, val, side == 'body')])
                    r['auto'].insert(0, mid)
                    site = el((NS['text'], 'p'), [(text_sn, 'Mid1', i % 3 == 0)], text='t')
                if side == 'body':
                    r['body'].append(site)
                else:
                    part = MASTER_PARTS[i % len(MASTER_PARTS)]
                    r['master'].append(el((NS['style'], 'master-page'), [(STYLE_NAME, 'Standard')], [el(part, (), [site])]))
                yield r, {'gen': 'structured', 'attr': '%s:%s' % T['names'][a], 'side': side, 'shape': shape}


def gen_shared(T):
    """fixed cases: several automatic styles of different kinds share one name and the name is referenced from the
    body / a master page / both, directly and through another automatic style; every definition must be written"""
    text_sn = (NS['text'], 'style-name')
    groups = [['paragraph', 'list'], ['list', 'paragraph'], ['paragraph', 'text', 'number'],
              ['pagelayout', 'paragraph', 'list', 'date'], ['graphic', 'table-cell'], ['number', 'percentage', 'currency']]
    attrs = [text_sn, (NS['style'], 'list-style-name'), (NS['style'], 'data-style-name'), (NS['draw'], 'style-name'),
             (NS['style'], 'page-layout-name'), (NS['text'], 'class-names')]
    for gi, kinds in enumerate(groups):
        for side in ('body', 'master', 'both'):
            for shape in ('direct', 'chain'):
                r = empty_recipe(['text', 'spreadsheet', 'presentation'][gi % 3])
                seen = False
                r['auto'].append(style_recipe('text', 'Unused'))
                for kind in kinds:
                    st = style_recipe(kind, 'Bullets')
                    if KINDS[kind][0] == (NS['style'], 'style'):
                        st['late_name'] = seen; seen = True
                    r['auto'].append(st)
                r['auto'].append(style_recipe('paragraph', 'Other'))
                a = attrs[gi % len(attrs)]
                if shape == 'direct':
                    site = el((NS['text'], 'p'), [(a, 'Bullets')], text='t')
                else:
                    r['auto'].append(style_recipe('graphic', 'Mid1', refs=[(a, 'Bullets')]))
                    site = el((NS['draw'], 'frame'), [((NS['draw'], 'style-name'), 'Mid1')])
                if side in ('body', 'both'):
                    r['body'].append(site)
                if side in ('master', 'both'):
                    r['master'].append(el((NS['style'], 'master-page'), [(STYLE_NAME, 'Standard')],
                                          [el(MASTER_PARTS[gi % len(MASTER_PARTS)], (), [site])]))
                yield r, {'gen': 'shared', 'kinds': kinds, 'side': side, 'shape': shape, 'dup': True}


def gen_embedded(T):
    """fixed cases: a document with one or two embedded objects (also nested); every document has a master page whose
    header uses automatic styles of its own and a body that uses others; the names are partly the same in parent and
    object but the definitions differ, so a part written from the wrong document cannot pass"""
    tsn = (NS['text'], 'style-name')
    def one(tag, doctype, variant, objs):
        r = empty_recipe(doctype)
        r['common'].append(style_recipe('paragraph', 'Common1'))
        r['auto'].append(style_recipe('paragraph', 'HdrP', refs=[((NS['style'], 'data-style-name'), tag + 'N', variant % 2 == 0)],
                                      kidrefs=[((NS['fo'], 'color'), '#%06x' % (variant * 1234567 % 0xffffff))]))
        r['auto'].append(style_recipe(['number', 'date', 'percentage'][variant % 3], tag + 'N'))
        r['auto'].append(style_recipe('text', tag + 'T', kidrefs=[((NS['fo'], 'color'), '#0000%02x' % variant)]))
        r['auto'].append(style_recipe('pagelayout', 'PL', kidrefs=[((NS['fo'], 'color'), '#%02x0000' % variant)]))
        r['auto'].append(style_recipe('paragraph', 'BodyP', refs=[((NS['style'], 'list-style-name'), tag + 'L', True)]))
        r['auto'].append(style_recipe('list', tag + 'L'))
        r['auto'].append(style_recipe('text', 'Unused'))
        hp = el((NS['text'], 'p'), [(tsn, 'HdrP', True)], [el((NS['text'], 'span'), [(tsn, tag + 'T', variant % 2 == 1)], text='s')], text=tag)
        r['master'].append(el((NS['style'], 'master-page'), [(STYLE_NAME, 'Standard'), ((NS['style'], 'page-layout-name'), 'PL', True)],
                              [el((NS['style'], 'header'), (), [hp])]))
        r['body'].append(el((NS['text'], 'p'), [(tsn, 'BodyP', variant % 2 == 0)], text=tag + ' body'))
        if objs:
            r['objects'] = objs
        return r
    shapes = [('one object', lambda: one('T', 'text', 0, [one('S', 'spreadsheet', 1, [])])),
              ('two objects', lambda: one('T', 'text', 2, [one('S', 'spreadsheet', 3, []), one('C', 'drawing', 4, [])])),
              ('nested', lambda: one('T', 'presentation', 5, [one('S', 'text', 6, [one('N', 'spreadsheet', 7, [])])])),
              ('nested and sibling', lambda: one('T', 'text', 8, [one('S', 'text', 9, [one('N', 'text', 10, [])]), one('C', 'text', 11, [])]))]
    for name, mkr in shapes:
        yield mkr(), {'gen': 'embedded', 'shape': name, 'objects': True}


def gen_random(rng, T, depth=0):
    r = empty_recipe(rng.choice(['text', 'text', 'spreadsheet', 'presentation', 'drawing']))
    followed = list(T['followed']) + list(T['followedList'])
    unfollowed = [a for a in T['schema'] if a not in followed]
    other = [(NS['fo'], 'color'), (NS['text'], 'name'), (NS['draw'], 'name')]
    nauto = rng.randint(1, 9)
    autos = ['A%d' % i for i in range(nauto)]
    commons = ['C%d' % i for i in range(rng.randint(0, 3))]

    def attr():
        x = rng.random()
        if x < 0.62:
            return rng.choice(followed)
        if x < 0.92:
            return rng.choice(unfollowed) if unfollowed else rng.choice(followed)
        return rng.choice(other)

    def value(a, pool):
        x = rng.random()
        if a in T['listTyped'] and x < 0.8:
            items = [rng.choice(pool + commons + ['Missing']) for _ in range(rng.randint(1, 3))]
            out = rng.choice([u'', u'', u' '])
            for it in items:
                out += it + rng.choice(SEPS)
            return out if rng.random() < 0.5 else out.rstrip()
        if x < 0.75:
            return rng.choice(pool)
        if x < 0.87 and commons:
            return rng.choice(commons)
        if x < 0.95:
            return 'Missing'
        return ''

    def refs(pool, maxn=2):
        out, seen = [], set()
        for _ in range(rng.choice([0, 1, 1, maxn])):
            a = attr()
            if a in seen:
                continue
            seen.add(a)
            v = value(a, pool)
            out.append((a, v, v in autos + commons and rng.random() < 0.5))
        return out

    # a chain A0 <- A1 <- ... of length up to 6 through (mostly) followed attributes, plus random extra edges
    chain_len = rng.randint(0, min(6, nauto - 1)) if nauto > 1 else 0
    for i, name in enumerate(autos):
        kind = rng.choice(KIND_NAMES)
        rf, kf = [], []
        if i < chain_len:
            a = rng.choice(followed) if rng.random() < 0.8 else attr()
            tgt = autos[i + 1]
            if a in T['listTyped'] and rng.random() < 0.6:
                tgt = rng.choice([u'Missing ', u'']) + tgt + rng.choice([u'', u'\tC0', u'  Missing'])
            (rf if rng.random() < 0.6 else kf).append((a, tgt, tgt == autos[i + 1] and rng.random() < 0.5))
        if rng.random() < 0.3:
            for x in refs(autos, 1):
                if x[0] not in [y[0] for y in rf]:
                    rf.append(x)
        if KINDS[kind][2] is None and kf:
            rf = rf + [x for x in kf if x[0] not in [y[0] for y in rf]]; kf = []
        r['auto'].append(style_recipe(kind, name, rf, kf))
    dup = False
    if nauto >= 2 and rng.random() < 0.4:
        # 2..4 automatic styles of DIFFERENT kinds under one name (each is its own definition: a paragraph style,
        # a list style, a data style, a page layout ... called "A0"); the shared name is the one the roots refer to
        group = [0] + rng.sample(range(1, nauto), min(nauto - 1, rng.randint(1, 3)))
        kinds = rng.sample(KIND_NAMES, len(group))
        seen_style = False
        for g, kind in zip(group, kinds):
            st = r['auto'][g]
            st['name'] = r['auto'][0]['name']; st['kind'] = kind
            if KINDS[kind][2] is None and st['kidrefs']:
                st['refs'] = st['refs'] + [x for x in st['kidrefs'] if x[0] not in [y[0] for y in st['refs']]]
                st['kidrefs'] = []
            if KINDS[kind][0] == (NS['style'], 'style'):
                st['late_name'] = seen_style
                seen_style = True
        dup = True
    rng.shuffle(r['auto'])
    for name in commons:
        r['common'].append(style_recipe(rng.choice(['paragraph', 'text', 'graphic', 'number']), name,
                                        refs(autos, 1) if rng.random() < 0.2 else []))

    def tree(depth, pool):
        kids = [tree(depth - 1, pool) for _ in range(rng.choice([0, 0, 1, 2]))] if depth > 0 else []
        return el(rng.choice(BODY_ELEMS), refs(pool), kids, text=rng.choice([None, 'x', 'some text']))

    roots = autos[:1] if chain_len else autos
    where = rng.choice(['body', 'master', 'both', 'both'])
    if where in ('body', 'both'):
        for _ in range(rng.randint(1, 3)):
            r['body'].append(tree(rng.randint(0, 3), roots + autos[chain_len:]))
    if where in ('master', 'both'):
        for m in range(rng.randint(1, 2)):
            parts = []
            for _ in range(rng.randint(0, 3)):
                parts.append(el(rng.choice(MASTER_PARTS), refs(autos, 1) if rng.random() < 0.3 else [],
                                [tree(rng.randint(0, 2), roots + autos[chain_len:])]))
            mrefs = [(STYLE_NAME, 'Master%d' % m)]
            if rng.random() < 0.7:
                mrefs.append(((NS['style'], 'page-layout-name'), rng.choice(autos), rng.random() < 0.5))
            if rng.random() < 0.3:
                mrefs.append(((NS['draw'], 'style-name'), rng.choice(autos), rng.random() < 0.5))
            r['master'].append(el((NS['style'], 'master-page'), mrefs, parts))
    nobj = 0
    if depth < 2 and rng.random() < (0.25 if depth == 0 else 0.3):
        # embedded objects with style graphs of their own (the same names A0.. with other definitions)
        for _ in range(rng.randint(1, 2)):
            sub, _info = gen_random(rng, T, depth + 1)
            r.setdefault('objects', []).append(sub); nobj += 1
    return r, {'gen': 'random', 'chain': chain_len, 'where': where, 'nauto': nauto, 'dup': dup, 'objects': nobj}


# ------------------------------------------------------------------ real tree -> wire / infoset
class Coder(object):
    def __init__(self, T):
        self.attr = dict(T['codes'])
        self.elem = {}
    def a(self, q):
        if q not in self.attr:
            self.attr[q] = 1000 + len(self.attr)
        return self.attr[q]
    def e(self, q):
        if q not in self.elem:
            self.elem[q] = 100 + len(self.elem)
        return self.elem[q]


def dump_node(n, coder, out):
    """the wire form of a real tree (pre-order; an explicit stack, so that the nesting depth of the tree does not matter)"""
    todo = [n]
    while todo:
        n = todo.pop()
        if n.nodeType == 1:
            out.append('E'); out.append(str(coder.e(n.qname))); out.append(str(len(n.attributes)))
            for q, v in n.attributes.items():
                out.append(str(coder.a(q))); out.append(enc_str(u'%s' % (v,)))
            out.append(str(len(n.childNodes)))
            todo.extend(reversed(list(n.childNodes)))
        else:
            out.append('T'); out.append(enc_str(n.data))
    return out


def mem_infoset(n):
    """infoset of an in-memory element: (qname, sorted attrs, children) with adjacent text merged, empty text dropped"""
    if n.nodeType != 1:
        return n.data
    kids = []
    for c in n.childNodes:
        k = mem_infoset(c)
        if isinstance(k, tuple):
            kids.append(k)
        elif k:
            if kids and not isinstance(kids[-1], tuple):
                kids[-1] = kids[-1] + k
            else:
                kids.append(k)
    return (tuple(n.qname), tuple(sorted(((q[0], q[1]), u'%s' % (v,)) for q, v in n.attributes.items())), tuple(kids))


def parse_infoset(data):
    """independent parse (expat, namespace aware) -> same infoset shape"""
    p = xml.parsers.expat.ParserCreate(namespace_separator='\x01')
    p.buffer_text = True
    stack = [[None, None, []]]
    def q(name):
        if '\x01' in name:
            ns, l = name.split('\x01', 1)
            return (ns, l)
        return (u'', name)
    def start(name, attrs):
        stack.append([q(name), tuple(sorted((q(k), v) for k, v in attrs.items())), []])
    def end(name):
        qn, at, kids = stack.pop()
        stack[-1][2].append((qn, at, tuple(kids)))
    def chars(s):
        kids = stack[-1][2]
        if kids and not isinstance(kids[-1], tuple):
            kids[-1] = kids[-1] + s
        else:
            kids.append(s)
    p.StartElementHandler = start; p.EndElementHandler = end; p.CharacterDataHandler = chars
    p.Parse(data, True)
    return stack[0][2][0]


def child(tree, q):
    for k in tree[2]:
        if isinstance(k, tuple) and k[0] == q:
            return k
    return None


def walk(tree):
    yield tree
    for k in tree[2]:
        if isinstance(k, tuple):
            for x in walk(k):
                yield x


def attr_of(tree, q):
    for k, v in tree[1]:
        if k == q:
            return v
    return None


# ------------------------------------------------------------------ oracle
def mem_names(node, schema, listy):
    """names an in-memory element and its subtree refer to (plain attribute dicts; the oracle's own reading)"""
    out = []
    if node.nodeType != 1:
        return out
    for k, v in node.attributes.items():
        k = (k[0], k[1])
        v = u'%s' % (v,)
        if k in schema and v:
            out.extend([x for x in XML_SPACE.split(v) if x] if k in listy else [v])
    for c in node.childNodes:
        out.extend(mem_names(c, schema, listy))
    return out


def mem_expected(doc, seeds, schema, listy):
    """the automatic-style ELEMENTS of `doc` that are referenced from below the seed containers, directly or through
    other automatic styles (least fixpoint, computed on the in-memory document)"""
    reach = set()
    for top in seeds:
        for c in top.childNodes:
            reach.update(mem_names(c, schema, listy))
    autos = [e for e in doc.automaticstyles.childNodes if e.nodeType == 1]
    taken = []
    grown = True
    while grown:
        grown = False
        for e in autos:
            nm = e.attributes.get(STYLE_NAME)
            if nm is not None and (u'%s' % (nm,)) in reach and not any(e is t for t in taken):
                taken.append(e); reach.update(mem_names(e, schema, listy)); grown = True
    return taken


def oracle(top, T):
    """the property on the saved package of `top`: every document of the package (the top one and every embedded
    object) against the parts in ITS folder.  returns ([(signature, detail)], number of reference sites)"""
    buf = io.BytesIO(); top.save(buf); buf.seek(0)
    oracle.package = buf.getvalue()
    z = zipfile.ZipFile(buf)
    fails = list(getattr(top, 'c10_problems', []))
    sites = 0
    oracle.stats = {}
    names = set(z.namelist())
    for doc, prefix in all_docs(top):
        if prefix + 'content.xml' not in names or prefix + 'styles.xml' not in names:
            fails.append(('part-missing', 'the package has no %scontent.xml / %sstyles.xml' % (prefix, prefix)))
            continue
        f, n = oracle_doc(doc, z, prefix, T)
        fails.extend(f); sites += n
        for k, v in oracle_doc.stats.items():
            oracle.stats[k] = oracle.stats.get(k, 0) + v
    return fails, sites


def oracle_doc(doc, z, prefix, T):
    schema = set(T['schema']); listy = set(T['listTyped'])
    parts = {'content.xml': parse_infoset(z.read(prefix + 'content.xml')), 'styles.xml': parse_infoset(z.read(prefix + 'styles.xml'))}
    mem_auto = {}
    for e in doc.automaticstyles.childNodes:
        if e.nodeType == 1:
            nm = e.attributes.get(STYLE_NAME)
            if nm is not None:
                mem_auto.setdefault(u'%s' % (nm,), []).append(e)
    common_part = child(parts['styles.xml'], (NS['office'], 'styles'))
    common_names = set()
    if common_part is not None:
        for s in common_part[2]:
            if isinstance(s, tuple) and attr_of(s, STYLE_NAME) is not None:
                common_names.add(attr_of(s, STYLE_NAME))
    fails = []
    sites = 0
    stats = {'auto_ref_resolved': 0, 'auto_ref_dangling': 0, 'styles_written': 0, 'shared_name_definitions_checked': 0,
             'unreferenced_written': 0, 'expected_styles_checked': 0}
    where = (' of ' + prefix) if prefix else ''
    # each part belongs to ITS document: the sections that are written verbatim are that document's
    for pname, q, node in (('content.xml', (NS['office'], 'body'), doc.body), ('styles.xml', (NS['office'], 'styles'), doc.styles),
                           ('styles.xml', (NS['office'], 'master-styles'), doc.masterstyles)):
        got = child(parts[pname], q)
        if got is None and not node.childNodes:
            continue
        if got is None or got != mem_infoset(node):
            fails.append(('part-of-wrong-document:' + pname, '%s%s: <office:%s> is not the one of the document stored in this folder'
                          % (prefix, pname, q[1])))
    for pname in ('content.xml', 'styles.xml'):
        root = parts[pname]
        # every automatic style of THIS document that its body / its master styles refer to (closure computed on the
        # in-memory document) is in THIS folder's part, with its definition
        auto0 = child(root, (NS['office'], 'automatic-styles'))
        written0 = [x for x in (auto0[2] if auto0 is not None else ()) if isinstance(x, tuple)]
        for e in mem_expected(doc, [doc.body] if pname == 'content.xml' else [doc.masterstyles], schema, listy):
            stats['expected_styles_checked'] += 1
            if mem_infoset(e) not in written0:
                fails.append(('referenced-style-missing:' + pname,
                              '%s%s lacks the automatic style <%s style:name=%r> which the %s of that document refers to'
                              % (prefix, pname, e.qname[1], u'%s' % (e.attributes.get(STYLE_NAME),),
                                 'body' if pname == 'content.xml' else 'master styles')))
        auto = child(root, (NS['office'], 'automatic-styles'))
        written = [s for s in (auto[2] if auto is not None else ()) if isinstance(s, tuple)]
        wnames = [attr_of(s, STYLE_NAME) for s in written]
        for s, nm in zip(written, wnames):
            cands = mem_auto.get(nm, [])
            if not cands:
                fails.append(('phantom-style', '%s writes automatic style %r that the document does not have' % (pname, nm)))
            elif not any(mem_infoset(c) == s for c in cands):
                fails.append(('definition-changed', '%s writes automatic style %r with a different definition' % (pname, nm)))
            else:
                # at most once per part, per ELEMENT: a definition is written as often as the document has it, not more
                have = sum(1 for c in cands if mem_infoset(c) == s)
                if sum(1 for w in written if w == s) > have:
                    fails.append(('written-twice', '%s writes the definition <%s style:name=%r> more often than the document has it'
                                  % (pname, s[0][1], nm)))
        wset = set(wnames)
        stats['styles_written'] += len(written)
        # nothing unreferenced: a written automatic style must be reachable from the part's own seeds (content.xml: body
        # and the common styles; styles.xml: the master styles), directly or through written automatic styles
        def names_in(tree):
            for e in walk(tree):
                for k, v in e[1]:
                    if k in schema and v:
                        for name in ([x for x in XML_SPACE.split(v) if x] if k in listy else [v]):
                            yield name
        if pname == 'content.xml':
            seeds = [t for t in root[2] if isinstance(t, tuple) and t[0] != (NS['office'], 'automatic-styles')]
            if common_part is not None:
                seeds.append(common_part)
        else:
            seeds = [t for t in root[2] if isinstance(t, tuple) and t[0] == (NS['office'], 'master-styles')]
        reach = set()
        for t in seeds:
            reach.update(names_in(t))
        expanded = set()
        grown = True
        while grown:
            grown = False
            for i, (w, nm) in enumerate(zip(written, wnames)):
                if i not in expanded and nm in reach:
                    expanded.add(i); reach.update(names_in(w)); grown = True
        for i, (w, nm) in enumerate(zip(written, wnames)):
            if i not in expanded:
                stats['unreferenced_written'] += 1
                fails.append(('unreferenced-style-written', '%s writes automatic style <%s style:name=%r> although nothing that is '
                              'written to this part refers to it (only unused automatic styles do, or nothing)' % (pname, w[0][1], nm)))
        for top in root[2]:
            if not isinstance(top, tuple):
                continue
            if top[0] == (NS['office'], 'styles'):
                continue                      # references from common styles: outside the property (body / master styles)
            inside_auto = top[0] == (NS['office'], 'automatic-styles')
            for e in walk(top):
                for k, v in e[1]:
                    if k in schema and v:
                        for name in ([x for x in XML_SPACE.split(v) if x] if k in listy else [v]):
                            sites += 1
                            if name in mem_auto and name in wset:
                                stats['auto_ref_resolved'] += 1
                                # several automatic styles (of different kinds) may carry this name: each one is a
                                # definition of its own and the reference may mean any of them - all must be there
                                for c in mem_auto[name]:
                                    ci = mem_infoset(c)
                                    if len(mem_auto[name]) > 1:
                                        stats['shared_name_definitions_checked'] += 1
                                    if not any(w == ci for w in written):
                                        fails.append(('shared-name-definition-dropped',
                                                      '%s: <%s %s="%s"> refers to %r; the document has %d automatic styles of that name, '
                                                      'the <%s> one is not written to this part'
                                                      % (pname, e[0][1], k[1], v, name, len(mem_auto[name]), c.qname[1])))
                            if name in mem_auto and name not in wset and name not in common_names:
                                stats['auto_ref_dangling'] += 1
                                if pname == 'styles.xml' and inside_auto:
                                    sig = 'styles-xml-not-transitive'
                                else:
                                    sig = 'unfollowed:%s:%s' % T['names'][k]
                                fails.append((sig, '%s: <%s %s="%s"> refers to automatic style %r of the document, '
                                              'which is not written to this part' % (pname, e[0][1], k[1], v, name)))
    oracle_doc.stats = stats
    return fails, sites


def correspond(chk, doc, T, drv_lines, pending):
    coder = Coder(T)
    toks = []
    for top in (doc.styles, doc.automaticstyles, doc.masterstyles, doc.body):
        dump_node(top, coder, toks)
    kids = list(doc.automaticstyles.childNodes)
    # observe the two real call sites: which segments contentxml() / stylesxml() hand to _used_auto_styles
    # and what comes back (the model's `contentKept` / `stylesKept` fix the segment lists)
    calls = []
    orig = doc._used_auto_styles
    last = [None]
    def wrap(name):
        f = getattr(doc, name, None)
        if f is None:
            return
        def g(*a):
            r = f(*a)
            last[0] = r
            return r
        setattr(doc, name, g)
    def recorder(segments):
        last[0] = []
        r = orig(segments)
        calls.append((list(segments), list(r), list(last[0] or [])))
        return r
    doc._used_auto_styles = recorder
    wrap('_stylerefs_of'); wrap('_parseoneelement')
    try:
        doc.contentxml(); n1 = len(calls)
        doc.stylesxml()
    finally:
        for nm in ('_used_auto_styles', '_stylerefs_of', '_parseoneelement'):
            if nm in doc.__dict__:
                del doc.__dict__[nm]
    def side(mine):
        if len(mine) != 1:
            return ('CALLS=%d' % len(mine)), '?', -1, False
        segs, kept, names = mine[0]
        bits = ''.join('1' if any(k is e for k in kept) else '0' for e in kids) or '~'
        # the real list must be a sub-list of the children, in order
        idx = [[i for i, e in enumerate(kids) if e is k][0] for k in kept if any(e is k for e in kids)]
        ordered = idx == sorted(idx) and len(set(idx)) == len(idx) and len(idx) == len(kept)
        return (' '.join(enc_str(u'%s' % (n,)) for n in names) or '~'), bits, len(kept), ordered
    nc, bc, lc, oc = side(calls[:n1])
    ns_, bs, ls, os_ = side(calls[n1:])
    impl = 'ok %s | %s | %s | %s | %d %d' % (nc, bc, ns_, bs, lc, ls)
    drv_lines.append('kept ' + ' '.join(toks))
    pending.append((impl, oc and os_))


def run_doc(chk, recipe, info, T, lines, pend, recipes):
    doc = realise(recipe)
    for d, prefix in all_docs(doc):
        correspond(chk, d, T, lines, pend)
        recipes.append({'recipe': recipe})
        chk.count('documents_incl_embedded')
    if len(doc.childobjects):
        chk.count('packages_with_embedded_objects')
    fails, sites = oracle(doc, T)
    nontrivial = sites > 0 and len(recipe['auto']) > 0
    chk.case(json.dumps(recipe, sort_keys=True), nontrivial=nontrivial,
             sample={'info': info, 'auto': [s['name'] for s in recipe['auto']], 'sites': sites,
                     'failures': sorted(set(f[0] for f in fails))} if info.get('gen') != 'structured' else None)
    chk.count('gen_' + info['gen'])
    chk.count('reference_sites_checked', sites)
    for k, v in sorted(oracle.stats.items()):
        chk.count(k, v)
    if not fails and oracle.stats['auto_ref_resolved']:
        chk.count('docs_clean_with_resolved_auto_refs')
    if info.get('dup'):
        chk.count('docs_with_a_duplicated_style_name')
    if 'chain' in info:
        chk.count('chain_len_%d' % info['chain'])
    if 'side' in info:
        chk.count('%s_%s_%s' % (info['gen'], info['side'], info['shape']))
    nobjref = json.dumps(recipe).count(', true]')
    chk.count('references_given_as_objects', nobjref)
    for s in recipe['auto']:
        chk.count('kind_' + s['kind'])
    seen = set()
    for sig, detail in fails:
        if sig in seen:
            continue
        seen.add(sig)
        chk.fail(sig, {'recipe': recipe, 'info': info}, detail)
    return fails


# ------------------------------------------------------------------ histories: saves that fail part-way, edits, a retry
# The property speaks of "when a document is saved": EVERY save of a document object, not only the first one of a freshly built
# document.  A history is pure data:  [{'op': 'save'} | {'op': 'failsave', ...} | {'op': 'poisonsave', ...} | {'op': 'edit', ...}]*
# followed by the final save that the oracle judges.
#   failsave    write()/save() to a user supplied file object with room for N bytes only: its write() stores what still fits
#               and raises (ENOSPC / EPIPE / EIO / an application defined exception / KeyboardInterrupt).  N is derived from
#               (member, frac): the fault lands in that member of the package (mimetype, styles.xml, content.xml, meta.xml,
#               the parts of every embedded object, the manifest, the central directory), measured on a twin document that
#               was never saved before.  The application catches the exception and keeps the document object.
#   poisonsave  the fault is in the document: a node of an application defined Element subclass whose toXml() raises sits in
#               the body / the master styles of one (sub)document while it is saved; the application removes it afterwards.
#   edit        new automatic styles (chains too), referenced from new body content, from a new footer of an existing master
#               page or from a new master page; existing automatic styles redefined (also: made to refer to a new style);
#               body content removed; in the top document or in an embedded object ('path').
# Expected (from the property text alone): the package of the final save satisfies every clause of the oracle exactly as the
# first save of a twin document does that got the same edits and was never saved before.
import errno as _errno


class SinkError(Exception):
    """an application defined failure of the output"""


class RenderError(Exception):
    """an application defined node refuses to be rendered"""


EXCS = ['ENOSPC', 'EPIPE', 'EIO', 'custom', 'interrupt']


def _raise(exc):
    if exc == 'ENOSPC':
        raise OSError(_errno.ENOSPC, 'No space left on device')
    if exc == 'EPIPE':
        raise BrokenPipeError(_errno.EPIPE, 'Broken pipe')
    if exc == 'EIO':
        raise IOError(_errno.EIO, 'Input/output error')
    if exc == 'interrupt':
        raise KeyboardInterrupt()
    raise SinkError('the output failed')


class Disk(io.BytesIO):
    """a seekable user supplied file object on a volume with `room` bytes (None: unlimited)"""
    def __init__(self, room=None, exc='ENOSPC'):
        io.BytesIO.__init__(self)
        self.room = room; self.exc = exc; self.failed = 0
    def write(self, data):
        if self.room is not None and self.tell() + len(data) > self.room:
            fit = max(0, self.room - self.tell())
            if fit:
                io.BytesIO.write(self, bytes(data[:fit]))
            self.failed += 1
            _raise(self.exc)
        return io.BytesIO.write(self, data)
    def data(self):
        return self.getvalue()


class Pipe(object):
    """a write-only user supplied file object (no seek, no tell: a pipe, a socket) that breaks after `room` bytes"""
    def __init__(self, room=None, exc='EPIPE'):
        self.room = room; self.exc = exc; self.failed = 0; self.n = 0; self.chunks = []
    def write(self, data):
        data = bytes(data)
        if self.room is not None and self.n + len(data) > self.room:
            fit = max(0, self.room - self.n)
            if fit:
                self.chunks.append(data[:fit]); self.n += fit
            self.failed += 1
            _raise(self.exc)
        self.chunks.append(data); self.n += len(data)
        return len(data)
    def flush(self):
        pass
    def data(self):
        return b''.join(self.chunks)


SINKS = {'disk': Disk, 'pipe': Pipe}


def doc_at(top, path):
    d = top
    for i in path:
        d = d.childobjects[i]
    return d


def main_of(d):
    return [c for c in d.body.childNodes][0] if d.body.childNodes else d.body


def apply_edit(top, ed):
    """the application goes on working on the document (plain API calls on the real tree, through the recipe builder)"""
    d = doc_at(top, ed.get('path', []))
    b = d.c10_build
    before = len(b.problems)
    b.add_styles(d, ed.get('common', []), ed.get('auto', []))
    for name, a, v in ed.get('redefine', []):
        for e in list(d.automaticstyles.childNodes):
            if e.nodeType == 1 and e.attributes.get(STYLE_NAME) is not None and (u'%s' % (e.attributes.get(STYLE_NAME),)) == name:
                b.put(e, a, v, False)
    main = main_of(d)
    for k in sorted(set(ed.get('drop_body', [])), reverse=True):
        kids = [c for c in main.childNodes]
        if k < len(kids):
            main.removeChild(kids[k])
    b.add_content(d, ed.get('body', []), ed.get('master', []))
    for page, part in ed.get('footers', []):
        pages = [c for c in d.masterstyles.childNodes if c.nodeType == 1]
        if pages:
            pages[page % len(pages)].addElement(b.build(part), check_grammar=False)
        else:
            b.add_content(d, [], [el((NS['style'], 'master-page'), [(STYLE_NAME, 'EditMaster')], [part])])
    if d is not top:
        top.c10_problems.extend(b.problems[before:])


def measure(recipe, edits, sink):
    """the members of the package a NEVER SAVED twin (recipe + edits) writes to a sink of this kind: [(name, offset)] in the
    order of writing, the central directory last, and the total size (zipfile reads the twin's package)"""
    twin = realise(recipe)
    for ed in edits:
        apply_edit(twin, ed)
    out = SINKS[sink]()
    twin.save(out)
    blob = out.data()
    z = zipfile.ZipFile(io.BytesIO(blob))
    members = sorted([(zi.header_offset, zi.filename) for zi in z.infolist()])
    members = [(n, o) for o, n in members] + [('central-directory', z.start_dir)]
    return members, len(blob)


def member_class(name):
    if '/' in name and not name.startswith('META-INF/'):
        return 'object/' + name.rsplit('/', 1)[1]
    return name


def _poison():
    from odf.element import Element
    class Poison(Element):
        def toXml(self, level, f):
            raise RenderError('this node cannot be rendered')
    return Poison(qname=(NS['text'], 'p'), check_grammar=False)


def _do_save(doc, entry, out):
    if entry == 'write':
        doc.write(out)
    else:
        doc.save(out)


def _quiet_abandoned_zipfiles():
    """the ZipFile of a failed save is abandoned by the library; when it is collected (any time later) its __del__ tries to
    finish the archive and complains on stderr.  The application never sees that: keep it off the check's output."""
    import sys
    if getattr(_quiet_abandoned_zipfiles, 'installed', False):
        return
    prev = sys.unraisablehook
    def hook(u):
        if getattr(u.object, '__qualname__', '') == 'ZipFile.__del__':
            return
        prev(u)
    sys.unraisablehook = hook
    _quiet_abandoned_zipfiles.installed = True


def play(recipe, history, trace=None):
    """build the document of `recipe` and take it through `history` on the real library.  returns the document, ready for
    the final save; `trace` (a list) receives one dict per step: what really happened"""
    import sys
    doc = realise(recipe)
    edits = []
    trace = trace if trace is not None else []
    _quiet_abandoned_zipfiles()
    try:
        for st in history:
            op = st['op']
            if op == 'edit':
                apply_edit(doc, st); edits.append(st)
                trace.append({'op': 'edit', 'new_auto': len(st.get('auto', []))})
            elif op == 'save':
                _do_save(doc, st.get('entry', 'save'), io.BytesIO())
                trace.append({'op': 'save', 'ok': True})
            elif op == 'failsave':
                members, total = measure(recipe, edits, st['sink'])
                m = st['member'] % len(members)
                lo = members[m][1]
                hi = members[m + 1][1] if m + 1 < len(members) else total
                room = lo + int(st['frac'] * (hi - lo))
                out = SINKS[st['sink']](room, st['exc'])
                raised = None
                try:
                    _do_save(doc, st['entry'], out)
                except BaseException as ex:
                    if not out.failed:
                        raise
                    raised = type(ex).__name__
                out.room = None               # (lets the abandoned ZipFile finish quietly)
                trace.append({'op': 'failsave', 'member': members[m][0], 'room': room, 'of': total, 'raised': raised,
                              'sink_failed': out.failed})
            elif op == 'poisonsave':
                d = doc_at(doc, st.get('path', []))
                node = _poison()
                holder = main_of(d) if st['where'] == 'body' else d.masterstyles
                holder.addElement(node, check_grammar=False)
                raised = None
                try:
                    _do_save(doc, st.get('entry', 'save'), io.BytesIO())
                except RenderError as ex:
                    raised = type(ex).__name__
                holder.removeChild(node)
                trace.append({'op': 'poisonsave', 'where': st['where'], 'path': st.get('path', []), 'raised': raised})
            else:
                raise ValueError('unknown history step %r' % (op,))
    finally:
        pass
    return doc


def auto_sections(blob):
    """{part name: [infoset of each written automatic style]} for every content.xml / styles.xml of a package (expat)"""
    z = zipfile.ZipFile(io.BytesIO(blob))
    out = {}
    for n in sorted(z.namelist()):
        if n.rsplit('/', 1)[-1] in ('content.xml', 'styles.xml'):
            a = child(parse_infoset(z.read(n)), (NS['office'], 'automatic-styles'))
            out[n] = [x for x in (a[2] if a is not None else ()) if isinstance(x, tuple)]
    return out


def judge_history(recipe, history, T):
    """the final save of the history against the property, and against the first save of the never saved twin.
    returns (first-save failures of the twin [plain signatures], failures only the history has [prefixed], sites, trace)"""
    edits = [st for st in history if st['op'] == 'edit']
    twin = realise(recipe)
    for ed in edits:
        apply_edit(twin, ed)
    fails0, _ = oracle(twin, T)
    sections0 = auto_sections(oracle.package)
    trace = []
    doc = play(recipe, history, trace)
    fails1, sites = oracle(doc, T)
    sections1 = auto_sections(oracle.package)
    failed_before = any(t['op'] in ('failsave', 'poisonsave') and t.get('raised') for t in trace)
    prefix = 'retry-after-failed-save:' if failed_before else 'save-again:'
    new = [(prefix + sig, detail) for sig, detail in fails1 if (sig, detail) not in fails0]
    for n in sorted(set(sections0) | set(sections1)):
        a, b = sections0.get(n), sections1.get(n)
        if a != b and not new:
            names = lambda l: [attr_of(x, STYLE_NAME) for x in (l or [])]
            new.append((prefix + 'automatic-styles-differ-from-first-save:' + n.rsplit('/', 1)[-1],
                        '%s: a document with the same content that was never saved before writes the automatic styles %r, '
                        'this one writes %r' % (n, names(a), names(b))))
    return fails0, new, sites, trace


def run_history(chk, recipe, history, info, T, lines, pend, cases, with_model=True):
    fails0, new, sites, trace = judge_history(recipe, history, T)
    case = {'recipe': recipe, 'history': history, 'info': info}
    real_faults = [t for t in trace if t['op'] in ('failsave', 'poisonsave') and t.get('raised')]
    later_auto = 0
    seen_fault = False
    for t in trace:
        if t['op'] in ('failsave', 'poisonsave') and t.get('raised'):
            seen_fault = True
        if t['op'] == 'edit' and seen_fault:
            later_auto += t['new_auto']
    chk.case(json.dumps({'recipe': recipe, 'history': history}, sort_keys=True), nontrivial=bool(sites > 0 and real_faults and later_auto),
             sample={'info': info, 'trace': trace, 'sites': sites, 'failures': sorted(set(f[0] for f in fails0 + new))})
    chk.count('histories')
    chk.count('gen_' + info['gen'])
    chk.count('history_reference_sites_checked', sites)
    for t in trace:
        if t['op'] == 'failsave':
            chk.count('failsave_' + ('raised_' + t['raised'] if t['raised'] else 'did_not_fail'))
            if t['raised']:
                chk.count('fault_in_' + member_class(t['member']))
        elif t['op'] == 'poisonsave':
            chk.count('poisonsave_' + t['where'] + ('_raised' if t['raised'] else '_did_not_fail'))
        elif t['op'] == 'save':
            chk.count('history_ok_saves')
    if real_faults and later_auto:
        chk.count('histories_new_auto_styles_after_a_failed_save')
    if not fails0 and not new and oracle.stats.get('auto_ref_resolved'):
        chk.count('histories_clean_with_resolved_auto_refs')
    seen = set()
    for sig, detail in fails0 + new:
        if sig in seen:
            continue
        seen.add(sig)
        chk.fail(sig, case, detail)
    if with_model:
        # the model is a function of the tree alone: the state the real object is in after the history (before the final
        # save) must select what the model selects on the dumped tree
        doc = play(recipe, history)
        for d, prefix in all_docs(doc):
            correspond(chk, d, T, lines, pend)
            cases.append(case)
            chk.count('documents_after_a_history_sent_to_the_model')
    return new


def _new_style_edit(path, tag, T, footer=True, body=True):
    tsn = (NS['text'], 'style-name')
    ed = {'op': 'edit', 'path': list(path), 'auto': [], 'body': [], 'footers': []}
    if body:
        ed['auto'].append(style_recipe('paragraph', tag + 'P2', kidrefs=[((NS['fo'], 'color'), '#123456')]))
        ed['body'].append(el((NS['text'], 'p'), [(tsn, tag + 'P2', True)], text='added after the failed save'))
    if footer:
        ed['auto'].append(style_recipe('paragraph', tag + 'MP2', refs=[((NS['style'], 'list-style-name'), tag + 'ML2', True)]))
        ed['auto'].append(style_recipe('list', tag + 'ML2'))
        ed['footers'].append([0, el((NS['style'], 'footer'), (), [el((NS['text'], 'p'), [(tsn, tag + 'MP2')], text='footer')])])
    return ed


def paths_of(recipe, here=()):
    out = [list(here)]
    for i, sub in enumerate(recipe.get('objects', [])):
        out.extend(paths_of(sub, tuple(here) + (i,)))
    return out


def gen_histories_structured(T):
    """every member of the package x the fault lands there; then a new automatic style referenced from the body and one
    (with a list style behind it) from a new footer, in every document of the package; then the retry"""
    bases = [(info['shape'], r) for r, info in gen_embedded(T)]
    single = json.loads(json.dumps(bases[1][1]['objects'][0]))
    bases.insert(0, ('no object', single))
    k = 0
    for shape, recipe in bases:
        members, total = measure(recipe, [], 'disk')
        paths = paths_of(recipe)
        for m in range(len(members)):
            k += 1
            fs = {'op': 'failsave', 'entry': ['write', 'save'][k % 2], 'sink': ['disk', 'pipe'][(k // 2) % 2],
                  'exc': EXCS[k % len(EXCS)], 'member': m, 'frac': [0.0, 0.5, 0.97][k % 3]}
            hist = [fs] + [_new_style_edit(p, 'E%d' % i, T) for i, p in enumerate(paths)]
            yield recipe, hist, {'gen': 'history-structured', 'shape': shape, 'member': members[m][0]}
        # the fault in the document: a node that cannot be rendered, in the body / the master styles of each document
        for p in paths:
            for where in ('body', 'master'):
                hist = [{'op': 'poisonsave', 'path': p, 'where': where, 'entry': 'save'}] + \
                       [_new_style_edit(q, 'E%d' % i, T) for i, q in enumerate(paths)]
                yield recipe, hist, {'gen': 'history-structured', 'shape': shape, 'poison': where}
    # no fault at all: save, edit, save again (and twice)
    for shape, recipe in bases[:2]:
        paths = paths_of(recipe)
        for n in (1, 2):
            hist = [{'op': 'save', 'entry': ['save', 'write'][n % 2]}] * n + [_new_style_edit(q, 'E%d' % i, T) for i, q in enumerate(paths)]
            yield recipe, hist, {'gen': 'history-structured', 'shape': shape, 'saves_before': n}


def gen_history_random(rng, T):
    recipe, info = gen_random(rng, T)
    schema = list(T['schema'])
    paths = paths_of(recipe)
    def sub(path):
        r = recipe
        for i in path:
            r = r['objects'][i]
        return r
    names = dict((json.dumps(p), [s['name'] for s in sub(p)['auto']]) for p in paths)
    nbody = dict((json.dumps(p), len(sub(p)['body'])) for p in paths)
    hist = []
    serial = [0]

    def ref(name, pool):
        a = rng.choice(schema)
        if a in T['listTyped']:
            v = rng.choice([u'', u' ', u'Missing ']) + name + rng.choice([u'', u'\t' + rng.choice(pool), u'  Missing'])
            return (a, v)
        return (a, name, rng.random() < 0.5)

    def edit():
        p = rng.choice(paths); key = json.dumps(p)
        old = names[key]
        ed = {'op': 'edit', 'path': p, 'auto': [], 'body': [], 'footers': [], 'master': [], 'redefine': [], 'drop_body': []}
        fresh = []
        for _ in range(rng.choice([0, 1, 1, 2, 3])):
            serial[0] += 1
            fresh.append('N%d' % serial[0])
        for i, nm in enumerate(fresh):
            kind = rng.choice(KIND_NAMES)
            rf, kf = [], []
            x = rng.random()
            if x < 0.45 and i + 1 < len(fresh):
                (rf if rng.random() < 0.6 or KINDS[kind][2] is None else kf).append(ref(fresh[i + 1], old + fresh))   # a chain of new styles
            elif x < 0.6 and old:
                rf.append(ref(rng.choice(old), old + fresh))       # a new style in front of an old one
            ed['auto'].append(style_recipe(kind, nm, rf, kf))
        pool = old + fresh
        roots = fresh[:1] if fresh else []
        targets = roots + ([rng.choice(pool)] if pool and rng.random() < 0.5 else [])
        for nm in targets:
            site = el(rng.choice(BODY_ELEMS), [ref(nm, pool)], text=rng.choice([None, 'x']))
            x = rng.random()
            if x < 0.45:
                ed['body'].append(site)
            elif x < 0.8:
                ed['footers'].append([rng.randint(0, 3), el(rng.choice(MASTER_PARTS), (), [site])])
            else:
                serial[0] += 1
                ed['master'].append(el((NS['style'], 'master-page'), [(STYLE_NAME, 'NewMaster%d' % serial[0])] +
                                       ([((NS['style'], 'page-layout-name'), rng.choice(pool), rng.random() < 0.5)] if rng.random() < 0.4 else []),
                                       [el(rng.choice(MASTER_PARTS), (), [site])]))
        if old and fresh and rng.random() < 0.3:
            # an automatic style that was there at the failed save now refers to a new one
            a, v = ref(rng.choice(fresh), pool)[:2]
            ed['redefine'].append([rng.choice(old), list(a), v])
        if old and rng.random() < 0.3:
            ed['redefine'].append([rng.choice(old), [NS['fo'], 'color'], '#%06x' % rng.randint(0, 0xffffff)])
        if nbody[key] and rng.random() < 0.25:
            ed['drop_body'].append(rng.randrange(nbody[key]))
            nbody[key] -= 1
        nbody[key] += len(ed['body'])
        names[key] = pool
        return ed

    for _ in range(rng.choice([1, 1, 2, 3])):
        if rng.random() < 0.3:
            hist.append({'op': 'save', 'entry': rng.choice(['save', 'write'])})
            if rng.random() < 0.5:
                hist.append(edit())
        x = rng.random()
        if x < 0.7:
            hist.append({'op': 'failsave', 'entry': rng.choice(['save', 'write']), 'sink': rng.choice(['disk', 'disk', 'pipe']),
                         'exc': rng.choice(EXCS), 'member': rng.randint(0, 40), 'frac': rng.choice([0.0, rng.random(), rng.random(), 0.99])})
        elif x < 0.9:
            hist.append({'op': 'poisonsave', 'path': rng.choice(paths), 'where': rng.choice(['body', 'master']),
                         'entry': rng.choice(['save', 'write'])})
        if rng.random() < 0.9:
            hist.append(edit())
    info = dict(info); info['gen'] = 'history-random'
    return recipe, hist, info


# ------------------------------------------------------------------ nesting depths around and beyond the interpreter's limits
# The property quantifies over every document; it has no clause about how deep the content is nested.  A document whose body (or
# master page) is nested some hundred levels deep takes the recursive functions of the library (the reference scan, toXml) to the
# interpreter's recursion limit and beyond.  From the property text alone: a save() of such a document either does not happen
# (it raises - nothing the property speaks about exists then) or writes a package in which every automatic style the body / the
# master styles refer to is in the part that refers to it, with its definition, once.
# A case is pure data: {'deep': {'shape', 'depth', 'side', 'ref', 'chain', 'limit', 'entry'}}
#   shape   the elements that make up the nesting (cycled), `depth` of them below the holder; the only reference to the automatic
#           style(s) 'DeepA' (-> 'DeepB' when chain) sits on one more element at the far end
#   side    body | master (header / footer / a shape of a master page)
#   limit   None: the interpreter's recursion limit as the check finds it;  n: the application runs with sys.setrecursionlimit(n)
# Everything the oracle does here is iterative (explicit stacks, flat event lists), so it cannot run out of stack itself.
DEEP_SHAPES = {
    'span':    ((NS['text'], 'p'), [(NS['text'], 'span')], (NS['text'], 'span')),
    'list':    (None, [(NS['text'], 'list'), (NS['text'], 'list-item')], (NS['text'], 'p')),
    'group':   (None, [(NS['draw'], 'g')], (NS['draw'], 'frame')),
    'table':   (None, [(NS['table'], 'table'), (NS['table'], 'table-row'), (NS['table'], 'table-cell')], (NS['text'], 'p')),
    'section': (None, [(NS['text'], 'section')], (NS['text'], 'h')),
}
DEEP_REFS = {
    'text':  ((NS['text'], 'style-name'), u'DeepA', 'paragraph'),
    'draw':  ((NS['draw'], 'style-name'), u'DeepA', 'graphic'),
    'class': ((NS['text'], 'class-names'), u'Missing  DeepA', 'paragraph'),
    'table': ((NS['table'], 'style-name'), u'DeepA', 'table-cell'),
}


def realise_deep(c):
    """the real document of a deep case, built outside-in with the plain API (one addElement per level)"""
    from odf import opendocument
    from odf.element import Element
    d = opendocument.OpenDocumentText()
    b = _Build()
    holderq, units, endq = DEEP_SHAPES[c['shape']]
    a, val, kind = DEEP_REFS[c['ref']]
    auto = [style_recipe('text', 'Shallow', kidrefs=[((NS['fo'], 'color'), '#010203')]),
            style_recipe(kind, 'DeepA', refs=([((NS['style'], 'list-style-name'), 'DeepB')] if c['chain'] else []),
                         kidrefs=[((NS['fo'], 'color'), '#040506')] if KINDS[kind][2] is None or not c['chain'] else []),
            style_recipe('text', 'Unused')]
    if c['chain']:
        auto.append(style_recipe('list', 'DeepB'))
    b.add_styles(d, [style_recipe('paragraph', 'Common1')], auto)
    tsn = (NS['text'], 'style-name')
    if c['side'] == 'body':
        top = main_of(d)
    else:
        mp = b.build(el((NS['style'], 'master-page'), [(STYLE_NAME, 'Standard')]))
        d.masterstyles.addElement(mp, check_grammar=False)
        if c['shape'] == 'group':
            top = mp
        else:
            top = b.build(el((NS['style'], ['header', 'footer'][c['depth'] % 2])))
            mp.addElement(top, check_grammar=False)
    top.addElement(b.build(el((NS['text'], 'p'), [(tsn, 'Shallow')], text='near the surface')), check_grammar=False)
    cur = top
    if holderq is not None:
        cur = Element(qname=holderq, check_grammar=False)
        top.addElement(cur, check_grammar=False)
    for i in range(c['depth']):
        n = Element(qname=units[i % len(units)], check_grammar=False)
        cur.addElement(n, check_grammar=False)
        cur = n
    cur.addElement(b.build(el(endq, [(a, val)], text='deep down')), check_grammar=False)
    d.c10_problems = b.problems
    d.c10_build = b
    return d


def flat_mem(node):
    """an in-memory node as a flat list of events ('S', qname, sorted attributes) / ('T', text) / ('E',); adjacent text
    merged, empty text dropped (what a parser reports for its serialisation)"""
    out = []
    todo = [node]
    while todo:
        n = todo.pop()
        if n is None:
            out.append(('E',))
        elif n.nodeType == 1:
            out.append(('S', (n.qname[0], n.qname[1]), tuple(sorted(((q[0], q[1]), u'%s' % (v,)) for q, v in n.attributes.items()))))
            todo.append(None)
            todo.extend(reversed(list(n.childNodes)))
        elif n.data:
            if out and out[-1][0] == 'T':
                out[-1] = ('T', out[-1][1] + n.data)
            else:
                out.append(('T', n.data))
    return out


def flat_part(data):
    """a written part (expat, namespace aware) as {qname of a child of the document element: its event list}"""
    p = xml.parsers.expat.ParserCreate(namespace_separator='\x01')
    p.buffer_text = True
    depth = [0]
    sections = {}
    cur = [None]
    def q(name):
        if '\x01' in name:
            ns, l = name.split('\x01', 1)
            return (ns, l)
        return (u'', name)
    def start(name, attrs):
        depth[0] += 1
        if depth[0] == 2:
            cur[0] = sections.setdefault(q(name), [])
        if depth[0] >= 2:
            cur[0].append(('S', q(name), tuple(sorted((q(k), v) for k, v in attrs.items()))))
    def end(name):
        if depth[0] >= 2:
            cur[0].append(('E',))
        depth[0] -= 1
    def chars(s):
        if depth[0] >= 2 and s:
            if cur[0][-1][0] == 'T':
                cur[0][-1] = ('T', cur[0][-1][1] + s)
            else:
                cur[0].append(('T', s))
    p.StartElementHandler = start; p.EndElementHandler = end; p.CharacterDataHandler = chars
    p.Parse(data, True)
    return sections


def flat_children(events):
    """the element children of the element whose event list this is, each as a tuple of its own events"""
    out, level, begin = [], 0, None
    for i, ev in enumerate(events):
        if ev[0] == 'S':
            level += 1
            if level == 2:
                begin = i
        elif ev[0] == 'E':
            if level == 2:
                out.append(tuple(events[begin:i + 1]))
            level -= 1
    return out


def flat_names(events, schema, listy):
    """(attribute, written value, name) of every style-reference site in an event list"""
    out = []
    for ev in events:
        if ev[0] == 'S':
            for k, v in ev[2]:
                if k in schema and v:
                    for name in ([x for x in XML_SPACE.split(v) if x] if k in listy else [v]):
                        out.append((k, v, name))
    return out


def flat_style_name(events):
    for k, v in events[0][2]:
        if k == STYLE_NAME:
            return v
    return None


def oracle_deep(doc, c, T):
    """the property on ONE save of a deeply nested document.  returns (failures, sites, outcome);
    outcome = 'saved' | 'refused:<exception>' (a save that raises wrote nothing the property speaks about)"""
    import sys
    schema = set(T['schema']); listy = set(T['listTyped'])
    _quiet_abandoned_zipfiles()
    buf = io.BytesIO()
    old_limit = sys.getrecursionlimit()
    try:
        if c.get('limit'):
            sys.setrecursionlimit(c['limit'])
        try:
            _do_save(doc, c.get('entry', 'save'), buf)
        except RecursionError as ex:
            return [], 0, 'refused:' + type(ex).__name__
    finally:
        sys.setrecursionlimit(old_limit)
    fails = list(getattr(doc, 'c10_problems', []))
    sites = 0
    try:
        z = zipfile.ZipFile(io.BytesIO(buf.getvalue()))
        parts = {'content.xml': flat_part(z.read('content.xml')), 'styles.xml': flat_part(z.read('styles.xml'))}
    except (zipfile.BadZipFile, KeyError, xml.parsers.expat.ExpatError) as ex:
        return fails + [('deep-nesting:package-unreadable', 'save() returned normally; reading content.xml / styles.xml of what it '
                         'wrote fails with %r' % (ex,))], 0, 'saved'
    mem_auto = [(u'%s' % (e.attributes.get(STYLE_NAME),), tuple(flat_mem(e)), e.qname[1])
                for e in doc.automaticstyles.childNodes if e.nodeType == 1 and e.attributes.get(STYLE_NAME) is not None]
    mem_auto_names = set(nm for nm, _e, _q in mem_auto)
    common_names = set(flat_style_name(s) for s in flat_children(parts['styles.xml'].get((NS['office'], 'styles'), [])))
    for pname, q, node, what in (('content.xml', (NS['office'], 'body'), doc.body, 'body'),
                                 ('styles.xml', (NS['office'], 'master-styles'), doc.masterstyles, 'master styles')):
        got = parts[pname].get(q, [])
        want = flat_mem(node)
        if got != want and (got or node.childNodes):
            at = 0
            while at < min(len(got), len(want)) and got[at] == want[at]:
                at += 1
            fails.append(('deep-nesting:part-of-wrong-document:' + pname, '%s: <office:%s> is not the one of the document (%d events written, '
                          '%d in memory, first difference at event %d)' % (pname, q[1], len(got), len(want), at)))
        written = flat_children(parts[pname].get((NS['office'], 'automatic-styles'), []))
        wnames = [flat_style_name(w) for w in written]
        # the automatic styles the in-memory section refers to, directly or through automatic styles (least fixpoint)
        def closure(seed_events):
            reach = set(n for _k, _v, n in flat_names(seed_events, schema, listy))
            taken, grown = [], True
            while grown:
                grown = False
                for i, (nm, ev, _q) in enumerate(mem_auto):
                    if i not in taken and nm in reach:
                        taken.append(i); reach.update(n for _k, _v, n in flat_names(ev, schema, listy)); grown = True
            return taken
        expected = closure(want)
        for i in expected:
            nm, ev, qn = mem_auto[i]
            if ev not in written:
                fails.append(('deep-nesting:referenced-style-missing:' + pname,
                              '%s lacks the automatic style <%s style:name=%r> which the %s of the document refers to (nesting: %s x %d, %s)'
                              % (pname, qn, nm, what, c['shape'], c['depth'],
                                 'recursion limit %s' % (c.get('limit') or 'as found'))))
        allowed = closure(want + (flat_mem(doc.styles) if pname == 'content.xml' else []))
        for w, nm in zip(written, wnames):
            cands = [ev for n2, ev, _q in mem_auto if n2 == nm]
            if not cands:
                fails.append(('deep-nesting:phantom-style', '%s writes automatic style %r that the document does not have' % (pname, nm)))
            elif w not in cands:
                fails.append(('deep-nesting:definition-changed', '%s writes automatic style %r with a different definition' % (pname, nm)))
            else:
                if written.count(w) > cands.count(w):
                    fails.append(('deep-nesting:written-twice', '%s writes the definition of %r more often than the document has it' % (pname, nm)))
                if not any(mem_auto[i][1] == w for i in allowed):
                    fails.append(('deep-nesting:unreferenced-style-written', '%s writes automatic style %r although nothing in this '
                                  'part refers to it' % (pname, nm)))
        # every reference site of the WRITTEN section (and of the written automatic styles) resolves in its own part
        wset = set(wnames)
        for where, events in [(q[1], got)] + [('automatic-styles', list(w)) for w in written]:
            for k, v, name in flat_names(events, schema, listy):
                sites += 1
                if name in mem_auto_names and name not in wset and name not in common_names:
                    fails.append(('deep-nesting:dangling:' + pname, '%s: %s="%s" below <office:%s> refers to automatic style %r of the '
                                  'document, which is not written to this part' % (pname, k[1], v, where, name)))
    return fails, sites, 'saved'


def correspond_deep(chk, doc, c, T, drv_lines, pending, cases, case):
    """the real selection at the two call sites (elements kept, as flags over automaticstyles.childNodes) vs the model on the
    dumped tree.  Only `_used_auto_styles` is observed (no extra frames inside the scan); a scan that the interpreter refuses
    (RecursionError) selects nothing: it is run again with a recursion limit that is high enough and that result is compared."""
    import sys
    coder = Coder(T)
    toks = []
    for top in (doc.styles, doc.automaticstyles, doc.masterstyles, doc.body):
        dump_node(top, coder, toks)
    kids = list(doc.automaticstyles.childNodes)
    old_limit = sys.getrecursionlimit()
    try:
        if c.get('limit'):
            sys.setrecursionlimit(c['limit'])
        try:
            kept_c = doc._used_auto_styles([doc.styles, doc.body])
            kept_s = doc._used_auto_styles([doc.masterstyles])
        except RecursionError:
            # the interpreter refused the scan under the limit of the case: the model (which has no such limit) is compared
            # with what the same function selects when it is given the stack it needs
            chk.count('deep_scan_refused_under_the_limit_of_the_case')
            sys.setrecursionlimit(max(old_limit, 4 * c['depth'] + 1000))
            try:
                kept_c = doc._used_auto_styles([doc.styles, doc.body])
                kept_s = doc._used_auto_styles([doc.masterstyles])
            except RecursionError:
                chk.count('deep_scan_refused_by_the_interpreter')
                return
    finally:
        sys.setrecursionlimit(old_limit)
    bits = lambda kept: ''.join('1' if any(k is e for k in kept) else '0' for e in kids) or '~'
    impl = '%s | %s | %d %d' % (bits(kept_c), bits(kept_s), len(kept_c), len(kept_s))
    drv_lines.append('kept ' + ' '.join(toks))
    pending.append((('deep', impl), True))
    cases.append(case)
    chk.count('deep_documents_sent_to_the_model')


def deep_cases(tier, rng):
    """few documents: depths below, around and beyond the recursion limit x the shapes, the far-end reference from the body and
    from a master page, directly and through another automatic style; two with a recursion limit set by the application"""
    shapes = sorted(DEEP_SHAPES)
    refs = {'span': 'text', 'list': 'class', 'group': 'draw', 'table': 'text', 'section': 'text'}
    out = []
    depths = [400, 495, 600, 900, 1200]
    k = 0
    for i, depth in enumerate(depths):
        for side in ('body', 'master'):
            k += 1
            shape = shapes[k % len(shapes)]
            out.append({'shape': shape, 'depth': depth, 'side': side, 'ref': refs[shape], 'chain': k % 3 == 0, 'limit': None,
                        'entry': ['save', 'write'][k % 2]})
    out.append({'shape': 'span', 'depth': 1500, 'side': 'body', 'ref': 'text', 'chain': True, 'limit': 2500, 'entry': 'save'})
    out.append({'shape': 'table', 'depth': 250, 'side': 'master', 'ref': 'table', 'chain': False, 'limit': 400, 'entry': 'save'})
    n = 40 if tier == 'thorough' else 6
    for _ in range(n):
        shape = rng.choice(shapes)
        limit = rng.choice([None, None, 400, 1500, 3000])
        base = limit or 1000
        out.append({'shape': shape, 'depth': int(base * rng.choice([0.3, 0.45, 0.5, 0.55, 0.7, 0.9, 0.97, 1.2])) + rng.randint(-5, 5),
                    'side': rng.choice(['body', 'master']), 'ref': rng.choice([refs[shape], refs[shape], 'class']),
                    'chain': rng.random() < 0.5, 'limit': limit, 'entry': rng.choice(['save', 'write'])})
    return out


def run_deep(chk, c, T, lines, pend, cases):
    case = {'deep': c}
    doc = realise_deep(c)
    fails, sites, outcome = oracle_deep(doc, c, T)
    chk.case(json.dumps(case, sort_keys=True), nontrivial=True,
             sample={'deep': c, 'outcome': outcome, 'sites': sites, 'failures': sorted(set(f[0] for f in fails))})
    chk.count('gen_deep')
    chk.count('deep_' + outcome.replace(':', '_'))
    chk.count('deep_%s_%s' % (c['side'], outcome.split(':')[0]))
    chk.count('deep_reference_sites_checked', sites)
    seen = set()
    for sig, detail in fails:
        if sig not in seen:
            seen.add(sig)
            chk.fail(sig, case, detail)
    correspond_deep(chk, realise_deep(c), c, T, lines, pend, cases, case)
    return fails


def run(chk, replay=None):
    from odf import opendocument
    chk.rule = ('structured: every schema style-reference attribute x {body, master page} x {direct, through an automatic style}; '
                'shared: 2..4 automatic styles of different kinds under one name, referenced from body / master page / both, directly and through a style; '
                'random: style graphs with 1..9 automatic styles of 11 kinds (40% with a name shared across kinds), chains up to 6, references from body trees, '
                'master pages (header/footer/shapes/notes), other automatic styles, common styles; '
                'embedded: documents with 1-2 embedded objects (also nested) with style graphs of their own, every folder checked against its own document; '
                'about half of the references are handed to the library as style OBJECTS (stored value checked); '
                'histories: a save()/write() to a file object (seekable / write-only) whose write() raises part-way (ENOSPC, EPIPE, EIO, '
                'an application exception, KeyboardInterrupt) so that the fault lands in each member of the package in turn, or a node that '
                'cannot be rendered in the body / master styles of a (sub)document; the application keeps the document, adds new automatic '
                'styles referenced from the body / a new footer / a new master page (also chains, redefinitions, removals; in embedded '
                'objects too) and saves again: the final package is judged by the same oracle and against the first save of a never '
                'saved twin; the tree after the history is sent to the model; '
                'deep: a few documents nested 400..1200 levels (text:span / list / draw:g / table in cell / section; also 0.3..1.2 x a recursion '
                'limit the application set) whose only reference to an automatic style (also through a second one, also in a list-typed '
                'attribute) sits at the far end, in the body / a master page: save() raises or the package keeps the style (flat, iterative '
                'oracle); the real selection is compared with the model on the dumped tree; '
                'non-trivial = at least one reference site and one automatic style')
    T = translate_styles.tables()
    if replay is not None and 'deep' in replay['input']:
        c = replay['input']['deep']
        fails, sites, outcome = oracle_deep(realise_deep(c), c, T)
        print('replay: nesting %s x %d in the %s, recursion limit %s: save() %s' % (c['shape'], c['depth'], c['side'], c.get('limit') or 'as found', outcome))
        for sig, detail in fails:
            print('replay: %s: %s' % (sig, detail))
        want = replay.get('signature')
        hit = [f for f in fails if want is None or f[0] == want]
        print('replay: %d reference sites, %d failures (%d with the recorded signature)' % (sites, len(fails), len(hit)))
        return 1 if hit else 0
    if replay is not None and 'history' in replay['input']:
        recipe, history = replay['input']['recipe'], replay['input']['history']
        fails0, new, sites, trace = judge_history(recipe, history, T)
        for t in trace:
            print('replay: step %s' % json.dumps(t, sort_keys=True))
        fails = fails0 + new
        for sig, detail in fails:
            print('replay: %s: %s' % (sig, detail))
        want = replay.get('signature')
        hit = [f for f in fails if want is None or f[0] == want]
        print('replay: history of %d steps, %d reference sites in the final package, %d failures (%d with the recorded signature)'
              % (len(history), sites, len(fails), len(hit)))
        return 1 if hit else 0
    if replay is not None:
        recipe = replay['input']['recipe']
        fails, sites = oracle(realise(recipe), T)
        for sig, detail in fails:
            print('replay: %s: %s' % (sig, detail))
        want = replay.get('signature')
        hit = [f for f in fails if want is None or f[0] == want]
        print('replay: %d reference sites, %d failures (%d with the recorded signature)' % (sites, len(fails), len(hit)))
        return 1 if hit else 0
    # 1 translate
    T = translate_styles.translate(chk)
    chk.extra_cov['tables'] = {'schemaStyleRefAttrs': len(T['schema']), 'schemaListTyped': len(T['listTyped']),
                               'followedAttrs': len(T['followed']), 'followedListAttrs': len(T['followedList']),
                               'pySpaceTable': len(T['pySpace']),
                               'candidates_probed': T['candidates']}
    # 2 prove
    chk.prove(modules=['OdfModel.Props.C10', 'OdfModel.Props.C10Hist', 'OdfModel.Props.C10Deep'], drivers=['drv_styles'])
    drv = chk.driver('drv_styles')
    ans = drv.ask('tables')
    chk.obligation('driver tables = translator tables',
                   ans == 'ok %d %d %d %d' % (len(T['schema']), len(T['followed']), len(T['followedList']), len(T['pySpace'])), ans)
    # 3+4 correspondence and oracle
    lines, pend, recipes = [], [], []
    for recipe, info in gen_structured(T):
        run_doc(chk, recipe, info, T, lines, pend, recipes)
    for recipe, info in gen_shared(T):
        run_doc(chk, recipe, info, T, lines, pend, recipes)
    for recipe, info in gen_embedded(T):
        run_doc(chk, recipe, info, T, lines, pend, recipes)
    nrand = 5000 if chk.tier == 'thorough' else 600
    for _ in range(nrand):
        recipe, info = gen_random(chk.rng, T)
        run_doc(chk, recipe, info, T, lines, pend, recipes)
    # histories (failed saves, edits, retry)
    for k, (recipe, history, info) in enumerate(gen_histories_structured(T)):
        run_history(chk, recipe, history, info, T, lines, pend, recipes, with_model=True)
    nhist = 2500 if chk.tier == 'thorough' else 220
    for k in range(nhist):
        recipe, history, info = gen_history_random(chk.rng, T)
        run_history(chk, recipe, history, info, T, lines, pend, recipes, with_model=(k % 2 == 0))
    # nesting depths around and beyond the interpreter's limits
    for c in deep_cases(chk.tier, chk.rng):
        run_deep(chk, c, T, lines, pend, recipes)
    answers = drv.batch(lines)
    for (impl, ordered), model, case in zip(pend, answers, recipes):
        chk.corr()
        if isinstance(impl, tuple):
            # deep documents: flags and counts only (the scan is not instrumented there)
            f = [x.strip() for x in model.strip().split('|')]
            got = '%s | %s | %s' % (f[1], f[3], f[4]) if len(f) == 5 and f[0].startswith('ok') else model.strip()
            if impl[1] != got:
                chk.corr_diff(case, impl[1], got, 'kept flags (content.xml) | kept flags (styles.xml) | counts, deeply nested document')
            continue
        if impl != model.strip():
            chk.corr_diff(case, impl, model, 'final name list | kept flags (content.xml) | names | flags (styles.xml) | counts')
        if not ordered:
            chk.corr_diff(case, 'kept list is not an ordered sub-list of automaticstyles.childNodes', model, 'order')

    def deep():
        for _ in range(4000):
            recipe, info = gen_random(chk.rng, T)
            doc = realise(recipe)
            fails, _ = oracle(doc, T)
            for sig, detail in fails:
                if chk.fail(sig, {'recipe': recipe, 'info': info}, detail) == 'violation':
                    return
        for _ in range(1500):
            recipe, history, info = gen_history_random(chk.rng, T)
            fails0, new, _s, _t = judge_history(recipe, history, T)
            for sig, detail in fails0 + new:
                if chk.fail(sig, {'recipe': recipe, 'history': history, 'info': info}, detail) == 'violation':
                    return
    chk.deep_search = deep
    return chk.finish()

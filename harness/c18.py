# -*- coding: utf-8 -*-
"""C18 - the XHTML and MoinMoin converters are total, complete and escape everything.

proof:          lean/OdfModel/Props/C18.lean about the models lean/OdfModel/Xhtml.lean (SAX-event transducer of
                odf/odf2xhtml.py) and lean/OdfModel/Moin.lean (recursive functions of odf/odf2moinmoin.py)
translator:     harness/translate_xhtml.py -> lean/OdfModel/Generated/XhtmlDispatch.lean (dispatch dict of a live ODF2XHTML(),
                which handlers escape, special_styles, MoinMoin's elements dict and IGNORED/INLINE lists)
correspondence: every generated document is SAVED with odfpy, converted from the file by the real converters, and the
                loaded tree is sent to drv_xhtml: rendered model output == real XHTML string (CSS text cut out), model tokens
                == expat tokens of the real output, model MoinMoin string == real MoinMoin string
routes:         A = the document built and saved with odfpy; B (corpus + every third document) = the package written by the
                harness's own serialiser (c18gen.Ser: indented between block elements, other namespace prefixes), so that load()
                and the converters see XML the library did not write
oracle:         (independent of the model; c18gen.visible reads the DESCRIPTION of the document, not odfpy's tree)
                no exception (XHTML css on/off, MoinMoin for text documents); output parses with expat; every visible text
                run occurs completely and in document order (note bodies may move to the end); text:s/tab/line-break still
                separate their neighbours and the number of non-breaking spaces equals the sum of text:c; the sequence of
                element names of the output equals that of the same document with all adversarial strings neutralised
containers:     block-level containers are part of the vocabulary: draw:frame (text box / image) and drawing shapes with
                paragraphs as CHILDREN of office:text, sections, cells, text boxes, note bodies and pages; text:table-of-content
                and the other six indexes (index title + body); text:numbered-paragraph.  The visible text inside them is
                demanded like any other.  A loss there has a signature of its own (c18gen.M_LOST, X_LOST: the classes
                repaired by af61005 / e7e9e0f); the corpus keeps their minimal documents as regression inputs.
"""
import os, io, json, shutil, tempfile, time, re, xml.parsers.expat
from common import enc_str, dec_str
import c18gen

UNIQ = re.compile(u'k[0-9]+z')

# Signatures that are COUNTED (evidence: pending_<signature>) instead of failing the run: classes of losses found on the
# unchanged tree and reported to the integrator, until they are repaired or registered as known findings.
# The eight classes of the block-level containers (the other entries of c18gen.M_LOST, X_LOST: frames / shapes / indexes /
# numbered paragraphs that the MoinMoin converter dropped, paragraph text in front of a drawing shape that the XHTML
# converter purged) were repaired in /repo by af61005 and e7e9e0f and are ordinary failing signatures now.
# Still open after af61005: draw:line and draw:g (a group of shapes) hold text too, but are not in odf2moinmoin's
# CONTAINER_TAGS - a child of office:text is skipped, inside running text draw:g becomes ' {draw:g} ' and draw:line nothing.
# Round 7 (histories: one converter object for several documents): ODF2XHTML.load() does not reset the object, so the
# notes of the documents converted before are listed again behind the notes of the current one - their text:s blanks make
# the output hold MORE non-breaking spaces than the current document asks for (reuse-/repeat-x-space-foreign) and the output
# holds words of another document (…-x-foreign-text); ODF2MoinMoin.load() keeps self.footnotes likewise (…-m-foreign-text).
# The text of the current document is complete; reported to the integrator, counted until decided.
PENDING = set(['reuse-x-space-foreign', 'repeat-x-space-foreign', 'reuse-x-foreign-text', 'repeat-x-foreign-text',
               'reuse-m-foreign-text', 'repeat-m-foreign-text'])      # (round 6: ten loss classes were pending here until the repairs af61005, e7e9e0f and the draw:line / draw:g follow-up)


# ---------------------------------------------------------------- reading the converters' output (expat only)
def xhtml_events(x):
    ev = []
    p = xml.parsers.expat.ParserCreate()
    p.buffer_text = True
    p.ordered_attributes = True
    p.StartElementHandler = lambda n, a: ev.append(('s', n, tuple(a)))
    p.EndElementHandler = lambda n: ev.append(('e', n))
    p.CharacterDataHandler = lambda d: ev.append(('c', d))
    p.Parse(x.encode('utf-8'), True)
    return ev


def body_text(ev):
    out, depth = [], 0
    for e in ev:
        if e[0] == 's' and (e[1] == 'body' or depth):
            depth += 1
        elif e[0] == 'e' and depth:
            depth -= 1
        elif e[0] == 'c' and depth:
            out.append(e[1])
    return u''.join(out)


def names(ev):
    return [(e[0], e[1]) for e in ev if e[0] != 'c']


def strip_map(s):
    chars, idx = [], []
    for i, c in enumerate(s):
        if not c.isspace():
            chars.append(c); idx.append(i)
    return u''.join(chars), idx


def collapse_map(s):
    """runs of white space collapsed to one blank; idx[i] = position in `s` of collapsed character i"""
    chars, idx = [], []
    inws = False
    for i, c in enumerate(s):
        if c.isspace():
            if not inws:
                chars.append(u' '); idx.append(i)
            inws = True
        else:
            chars.append(c); idx.append(i); inws = False
    return u''.join(chars), idx


def match_runs(out, main, notes, skip, target):
    """greedy left-most matching of the runs as substrings, in order, after collapsing every run of white space to one
       blank on both sides ("alpha beta" is not "alphabeta").  Between two neighbouring runs of one paragraph that the
       source separates - by white space at the edge of a run, a white-space-only text node, text:s / tab / line-break - the
       output must have white space too (for MoinMoin: or [[BR]]).
       returns (problem list).  `skip`: flags whose runs are left out (classes of former findings, to name a failure)."""
    seq = list(main)
    for nb in notes:
        seq.append(('x',)); seq.extend(nb)
    coll, idx = collapse_map(out)
    pos = 0
    prev = None                  # (end index in `out`, par, ends-with-white-space) of the last matched run with a unique word
    seps, clean = [], True       # separators since `prev`; clean = nothing but separators / inline boundaries since
    problems = []
    for ev in seq:
        if ev[0] == 'r':
            t = u' '.join(ev[1].split())
            if ev[3] & skip:
                prev = None; continue
            if t == u'':
                continue
            j = coll.find(t, pos)
            if j < 0:
                problems.append(('missing', ev[1], sorted(ev[3])))
                prev = None
                continue
            st, en = idx[j], idx[j + len(t) - 1] + 1
            if prev is not None and prev[1] == ev[2] and UNIQ.search(t):
                sp = list(seps)
                if prev[2] or ev[1][:1].isspace():
                    sp.append(('sep', 'edge', 0, False, False))
                if sp:
                    gap = out[prev[0]:st]
                    nws = sum(1 for c in gap if c.isspace())
                    need_br = sum(1 for s in sp if s[1] == 'br')
                    if target == 'x':
                        if nws == 0:
                            problems.append(('gap', sp, gap))
                    else:
                        hard = [s for s in sp if s[1] in ('s', 'tab')]
                        need = sum((s[2] if s[1] == 's' else 4) for s in hard) if clean else 0
                        if any(s[1] in ('ws', 'edge') for s in sp):
                            need = max(need, 1)
                        if nws < need or (clean and gap.count(u'[[BR]]') < need_br) or (nws == 0 and u'[[BR]]' not in gap):
                            problems.append(('gap', sp, gap))
            pos = j + len(t)
            prev = (en, ev[2], ev[1][-1:].isspace()) if UNIQ.search(t) else None
            seps, clean = [], True
        elif ev[0] == 'sep':
            seps.append(ev)
        elif ev[0] == 'io':
            clean = False
        else:
            prev = None; seps = []
    return problems


def attribute(out, main, notes, target, lost, former):
    """NAME the failures of a document whose runs are not all found in order: [(signature, run)] and the problem list of
       the matching that leaves the runs of all known classes out (its 'gap' entries are reported by the caller).
       `lost`: classes of block-level containers a converter may lose as a whole (c18gen.M_LOST / X_LOST); `former`: classes of
       repaired findings.  A run that is missing although the classes are left out is `<target>-text-missing`.  Otherwise
       the loss belongs to a class: that of the missing runs that carry a flag - or, when the greedy matching found a lost
       flagged run in a LATER occurrence of the same string and so ran past unflagged ones, that of the flagged runs of
       the document.  The `lost` classes are tried first: what remains missing when only they are left out is `former`."""
    miss = lambda ps: [p for p in ps if p[0] == 'missing']
    named = []
    probs2 = match_runs(out, main, notes, set(lost) | set(former), target)
    if miss(probs2):
        return [(target + '-text-missing', miss(probs2)[0][1])], probs2
    docflags = set()
    for ev in list(main) + [e for nb in notes for e in nb]:
        if ev[0] == 'r':
            docflags |= set(ev[3])

    def name(ps, classes):
        seen = []
        for p in ps:
            fl = [f for f in classes if f in p[2]]
            if fl and fl[0] not in seen:
                seen.append(fl[0]); named.append((fl[0], p[1]))
        if ps and not seen:
            fl = [f for f in classes if f in docflags]
            named.append((fl[0] if fl else target + '-text-missing', ps[0][1]))
    miss1 = miss(match_runs(out, main, notes, set(), target))
    miss3 = miss(match_runs(out, main, notes, set(lost), target)) if (docflags & set(lost)) else miss1
    if miss3:
        name(miss3, list(former))
    if miss1 and (docflags & set(lost)) and (not miss3 or any(set(p[2]) & set(lost) for p in miss1)):
        name([p for p in miss1 if set(p[2]) & set(lost)] or miss1, list(lost))
    return named, probs2


# ---------------------------------------------------------------- correspondence: inputs of the model, views of the output
def wire_loaded(path):
    """the tree ODF2XHTML walks (odf.opendocument.load(path).topnode) in the driver's prefix form"""
    from odf.opendocument import load
    from odf.namespaces import nsdict
    doc = load(path)
    out = []

    def qn(q):
        return enc_str(nsdict.get(q[0], u'?' + q[0]) + u':' + q[1])

    def walk(n):
        if n.nodeType == 1:
            attrs = n.attributes or {}
            out.append('E'); out.append(qn(n.qname)); out.append(str(len(attrs)))
            for k, v in attrs.items():
                out.append(qn(k)); out.append(enc_str(v))
            out.append(str(len(n.childNodes)))
            for c in n.childNodes:
                walk(c)
        else:
            out.append('T'); out.append(enc_str(n.data))
    walk(doc.topnode)
    return ' '.join(out)


def wire_member(data):
    """a package member as minidom shows it to ODF2MoinMoin: tagName / qualified attribute names / text nodes (read with expat)"""
    root = [None, None, [], []]
    stack = [root]
    p = xml.parsers.expat.ParserCreate()
    p.buffer_text = True
    p.ordered_attributes = True

    def start(name, attrs):
        a = [(attrs[i], attrs[i + 1]) for i in range(0, len(attrs), 2) if not attrs[i].startswith('xmlns')]
        node = ['E', name, a, []]
        stack[-1][3].append(node); stack.append(node)
    p.StartElementHandler = start
    p.EndElementHandler = lambda name: stack.pop()
    p.CharacterDataHandler = lambda d: stack[-1][3].append(['T', d])
    p.Parse(data, True)
    out = []

    def walk(n):
        if n[0] == 'E':
            out.append('E'); out.append(enc_str(n[1])); out.append(str(len(n[2])))
            for k, v in n[2]:
                out.append(enc_str(k)); out.append(enc_str(v))
            out.append(str(len(n[3])))
            for c in n[3]:
                walk(c)
        else:
            out.append('T'); out.append(enc_str(n[1]))
    walk(root[3][0])
    return ' '.join(out)


CDO, CDC = u'/*<![CDATA[*/\n', u'/*]]>*/\n</style>\n'


def split_css(x, default_styles):
    """the opaque part of the style sheet: what generate_stylesheet wrote after default_styles"""
    i, j = x.find(CDO), x.rfind(CDC)
    if i < 0 or j < i:
        return None
    css = x[i + len(CDO):j]
    if not css.startswith(default_styles):
        return None
    return css[len(default_styles):]


def model_events(answer, default_styles):
    """the model's token list as the event sequence an XML parser reports for its rendering"""
    ev = []

    def chars(s):
        if s:
            ev.append(('c', s))

    def attrs(parts):
        a = []
        for kv in parts:
            k, v = kv.split(',')
            a.append(dec_str(k)); a.append(dec_str(v))
        return tuple(a)
    for tok in answer.split(' ')[2:]:
        f = tok.split('|')
        if f[0] == 'o':
            ev.append(('s', dec_str(f[1]), attrs(f[3:])))
            if f[2] == '1': chars(u'\n')
        elif f[0] == 'c':
            ev.append(('e', dec_str(f[1])))
            if f[2] == '1': chars(u'\n')
        elif f[0] == 'e':
            ev.append(('s', dec_str(f[1]), attrs(f[2:]))); ev.append(('e', dec_str(f[1]))); chars(u'\n')
        elif f[0] == 't':
            chars(dec_str(f[1]))
        elif f[0] == 'r':
            k = f[1]
            if k == 'doctype': pass
            elif k == 'nbsp': chars(u'\xa0')
            elif k == 'sp': chars(u' ')
            elif k == 'num': chars(f[2])
            elif k == 'titleOpen': ev.append(('s', u'title', ()))
            elif k == 'titleClose': ev.append(('e', u'title')); chars(u'\n')
            elif k == 'cdataOpen': chars(u'/*' + u'*/\n')
            elif k == 'cdataClose': chars(u'/*' + u'*/\n')
            elif k == 'defaultStyles': chars(default_styles)
            elif k == 'css': chars(dec_str(f[2]).replace(u']]]]><![CDATA[>', u']]>'))   # what a parser reads from the split sections
            else: ev.append(('?', tok))
        else:
            ev.append(('?', tok))
    return merge_chars(ev)


def merge_chars(ev):
    out = []
    for e in ev:
        if e[0] == 'c' and out and out[-1][0] == 'c':
            out[-1] = ('c', out[-1][1] + e[1])
        else:
            out.append(e)
    return [(('c', e[1].replace(u'\r\n', u'\n').replace(u'\r', u'\n')) if e[0] == 'c' else e) for e in out]


class Workdir(object):
    def __init__(self):
        self.d = tempfile.mkdtemp(prefix='c18-')
        self.n = 0

    def path(self, ext):
        self.n += 1
        return os.path.join(self.d, 'd%d.%s' % (self.n, ext))

    def close(self):
        shutil.rmtree(self.d, ignore_errors=True)


EXT = {'text': 'odt', 'sheet': 'ods', 'pres': 'odp'}


def convert_paths(xpath, mpath):
    """run the real converters on package files"""
    from odf.odf2xhtml import ODF2XHTML
    from odf.odf2moinmoin import ODF2MoinMoin
    res = {'path': xpath}
    for css in (True, False):
        key = 'x1' if css else 'x0'
        try:
            res[key] = ('ok', ODF2XHTML(generate_css=css).odf2xhtml(xpath))
        except Exception as e:
            res[key] = ('exc', type(e).__name__, str(e)[:120])
    if mpath is not None:
        res['mpath'] = mpath
        try:
            res['m'] = ('ok', ODF2MoinMoin(mpath).toString())
        except Exception as e:
            res['m'] = ('exc', type(e).__name__, str(e)[:120])
    return res


def convert_all(spec, wd):
    """route A: build the document with odfpy, save it, run the real converters on the FILE"""
    doc = c18gen.build(spec)
    path = wd.path(EXT[spec['kind']])
    doc.save(path)
    return convert_paths(path, path if spec['kind'] == 'text' else None)


def convert_own(spec, wd, pretty_moin=False):
    """route B: the package written by the harness's own serialiser - pretty-printed between block elements, other
       namespace prefixes (XHTML; ODF2MoinMoin looks elements up by the usual prefixes and gets those, indented if pretty_moin)"""
    xpath = wd.path(EXT[spec['kind']])
    c18gen.write_package(spec, xpath, alt=True, pretty=True)
    mpath = None
    if spec['kind'] == 'text':
        mpath = wd.path(EXT[spec['kind']])
        c18gen.write_package(spec, mpath, alt=False, pretty=pretty_moin)
    return convert_paths(xpath, mpath)


def oracle(spec, res, neutral_res, foreign=False):
    """the property evaluated on the real outputs; returns [(signature, detail)].  foreign=True (histories): MORE non-breaking
       spaces than the document's text:s elements ask for are reported as x-space-foreign (blanks of another document)"""
    fails = []
    feats = c18gen.features(spec)
    main, notes = c18gen.visible(spec)
    total_c = sum(e[2] for e in main if e[0] == 'sep' and e[1] == 's') + sum(e[2] for nb in notes for e in nb if e[0] == 'sep' and e[1] == 's')
    for key in ('x1', 'x0'):
        if key not in res:
            continue                     # a history judges one converter at a time
        r = res[key]
        tag = 'css' if key == 'x1' else 'nocss'
        if r[0] == 'exc':
            if r[1] == 'KeyError' and 'h-nolevel' in feats and 'outline-level' in r[2]:
                fails.append(('x-heading-without-level', '%s: %s %s' % (tag, r[1], r[2])))
            else:
                fails.append(('x-exception:' + r[1], '%s: %s' % (tag, r[2])))
            continue
        x = r[1]
        if not isinstance(x, str):
            fails.append(('x-not-a-string', tag)); continue
        try:
            ev = xhtml_events(x)
        except xml.parsers.expat.ExpatError as e:
            if key == 'x1' and 'css-cdata-end' in feats:
                fails.append(('x-css-cdata-end', '%s: output is not well-formed: %s' % (tag, e)))
            else:
                fails.append(('x-illformed', '%s: %s' % (tag, e)))
            continue
        # structure: the element sequence does not depend on the markup characters in the document's strings
        nr = neutral_res.get(key)
        if nr is not None and nr[0] == 'ok':
            try:
                nev = xhtml_events(nr[1])
            except xml.parsers.expat.ExpatError as e:
                nev = None
                fails.append(('x-illformed', '%s: neutralised document: %s' % (tag, e)))
            if nev is not None and names(ev) != names(nev):
                if key == 'x1' and 'css-cdata-end' in feats:
                    fails.append(('x-css-cdata-end', '%s: element sequence differs from the neutralised document' % tag))
                else:
                    a, b = names(ev), names(nev)
                    k = 0
                    while k < min(len(a), len(b)) and a[k] == b[k]:
                        k += 1
                    fails.append(('x-structure-changed', '%s: element %d is %r, neutralised document has %r' % (tag, k, a[k:k + 2], b[k:k + 2])))
        # completeness and order
        out = body_text(ev)
        probs = match_runs(out, main, notes, set(), 'x')
        if probs:
            named, probs2 = attribute(out, main, notes, 'x', c18gen.X_LOST, ('x-pending-before-textbox',))
            for sig, run in named:
                fails.append((sig, '%s: run %r %s' % (tag, run, 'not found in order' if sig == 'x-text-missing' else 'lost')))
            for p in probs2:
                if p[0] == 'gap':
                    if p[1] and all(s[1] == 's' and s[3] for s in p[1]):
                        fails.append(('x-space-before-pending-text', '%s: nothing between the neighbours of text:s: %r' % (tag, p[2])))
                    else:
                        fails.append(('x-separator-lost', '%s: %r left no whitespace: %r' % (tag, [s[1] for s in p[1]], p[2])))
        if out.count(u'\xa0') != total_c:
            fails.append(('x-space-foreign' if (foreign and out.count(u'\xa0') > total_c) else 'x-space-count', '%s: %d non-breaking spaces for text:c summing to %d' % (tag, out.count(u'\xa0'), total_c)))
    if 'm' in res:
        r = res['m']
        if r[0] == 'exc':
            if r[1] == 'IndexError' and 'note-empty-citation' in feats:
                fails.append(('m-note-empty-citation', '%s %s' % (r[1], r[2])))
            else:
                fails.append(('m-exception:' + r[1], r[2]))
        elif not isinstance(r[1], str):
            fails.append(('m-not-a-string', ''))
        else:
            out = r[1]
            probs = match_runs(out, main, notes, set(), 'm')
            if probs:
                named, probs2 = attribute(out, main, notes, 'm', c18gen.M_LOST, ('m-nested-section', 'm-nested-table', 'm-note-tail'))
                for sig, run in named:
                    fails.append((sig, 'run %r %s' % (run, 'not found in order' if sig == 'm-text-missing' else 'lost')))
                for p in probs2:
                    if p[0] == 'gap':
                        if p[1] and all(s[4] for s in p[1]):
                            fails.append(('m-whitespace-only-inline', '%r inside a span/link of white space only gave %r' % ([(s[1], s[2]) for s in p[1]], p[2])))
                        else:
                            fails.append(('m-separator-lost', '%r gave %r' % ([(s[1], s[2]) for s in p[1]], p[2])))
    return fails


def check_spec(spec, wd):
    res = convert_all(spec, wd)
    nres = {}
    nspec = c18gen.neutral(spec)
    if nspec != spec:
        try:
            nres = convert_all(nspec, wd)
        except Exception as e:
            nres = {}
    else:
        nres = res
    return res, nres, oracle(spec, res, nres)


def check_own(spec, wd, pretty_moin=False):
    """route B for one description: [(signature, detail)] and the conversion results"""
    res = convert_own(spec, wd, pretty_moin)
    fails = []
    for sig, detail in oracle(spec, res, {}):
        fails.append((sig, 'own serialiser%s: %s' % (' (indented for MoinMoin)' if pretty_moin else '', detail)))
    return res, fails


# ---------------------------------------------------------------- histories: ONE converter object, several documents / calls
# A history is plain JSON data:
#   {'target': 'x', 'css': bool, 'docs': [spec], 'ops': [['odf2xhtml', i] | ['load', i] | ['xhtml']]}
#        ODF2XHTML(generate_css=css), then per op  .odf2xhtml(file i) / .load(file i) / .xhtml()
#   {'target': 'm', 'docs': [spec], 'ops': [['load', i] | ['toString']]}
#        ODF2MoinMoin(file 0), then per op  .load(file i) / .toString()
# Every string a conversion call returns is judged by oracle() against the description of the document that is loaded at
# that moment.  A call is 'fresh' (first conversion on a new object: judged by the main loop already), 'repeat' (the same
# document converted again without another document in between) or 'reuse' (another document was converted / loaded by
# this object before): the class of the failure is part of the signature.  Failures the fresh conversion of the same
# document shows too are not repeated here.
def gen_history(rng, pool, text_pool):
    r = rng
    target = 'm' if (text_pool and r.random() < 0.5) else 'x'
    src = text_pool if target == 'm' else pool
    k = r.choice([2, 2, 2, 3])
    docs = [r.choice(src) for _ in range(k)]
    ops = []
    if target == 'm':
        for i in range(1, k + 1):
            if r.random() < 0.75:
                ops.append(['toString'])
                if r.random() < 0.2:
                    ops.append(['toString'])
            if i < k:
                ops.append(['load', i])
        if ops[-1] != ['toString']:
            ops.append(['toString'])
        return {'target': 'm', 'docs': docs, 'ops': ops}
    for i in range(k):
        if r.random() < 0.6:
            ops.append(['odf2xhtml', i])
        else:
            ops.append(['load', i])
            if i == k - 1 or r.random() < 0.8:
                ops.append(['xhtml'])
        if r.random() < 0.15:
            ops.append(['xhtml'])
    return {'target': 'x', 'css': r.random() < 0.5, 'docs': docs, 'ops': ops}


def run_history(hist, paths):
    """the calls of a history on the real converters: [(op index, document index, class, result)] for the calls that return a
       conversion; stops at the first exception (the state of a converter after an exception is not part of the property)"""
    from odf.odf2xhtml import ODF2XHTML
    from odf.odf2moinmoin import ODF2MoinMoin
    blobs = [json.dumps(d, sort_keys=True) for d in hist['docs']]
    out = []
    cur, seen_other, converted = None, False, False      # loaded document; another document before it; converted since loaded
    try:
        if hist['target'] == 'm':
            conv = ODF2MoinMoin(paths[0]); cur = 0
        else:
            conv = ODF2XHTML(generate_css=hist['css'])
    except Exception as e:
        return [(-1, 0, 'fresh', ('exc', type(e).__name__, str(e)[:120]))]
    for n, op in enumerate(hist['ops']):
        gives = op[0] in ('toString', 'xhtml', 'odf2xhtml')
        try:
            if op[0] in ('load', 'odf2xhtml'):
                if cur is not None and blobs[op[1]] != blobs[cur]:
                    seen_other = True
                if cur is None or blobs[op[1]] != blobs[cur]:
                    converted = False
                cur = op[1]
            if op[0] == 'load':
                conv.load(paths[op[1]]); continue
            if cur is None:
                continue                       # xhtml() before anything was loaded: not a conversion of a document
            if op[0] == 'odf2xhtml':
                val = conv.odf2xhtml(paths[op[1]])
            elif op[0] == 'xhtml':
                val = conv.xhtml()
            else:
                val = conv.toString()
            r = ('ok', val)
        except Exception as e:
            r = ('exc', type(e).__name__, str(e)[:120])
        if gives or r[0] == 'exc':
            cls = 'repeat' if converted else ('reuse' if seen_other else 'fresh')
            out.append((n, cur if cur is not None else op[1], cls, r))
            converted = True
        if r[0] == 'exc':
            break
    return out


def judge_history(hist, wd, cache, fresh):
    """[(signature, detail)] of a history.  cache: description blob -> saved file; fresh: blob -> signatures of the fresh conversion"""
    paths = []
    for d in hist['docs']:
        b = json.dumps(d, sort_keys=True)
        if b not in cache:
            p = wd.path(EXT[d['kind']]); c18gen.build(d).save(p); cache[b] = p
        paths.append(cache[b])
    fails = []
    key = 'm' if hist['target'] == 'm' else ('x1' if hist['css'] else 'x0')
    for n, di, cls, r in run_history(hist, paths):
        if cls == 'fresh':
            continue
        d = hist['docs'][di]
        b = json.dumps(d, sort_keys=True)
        if b not in fresh:
            fresh[b] = set(f[0] for f in check_spec(d, wd)[2])
        found = [(sig, detail) for sig, detail in oracle(d, {key: r}, {}, foreign=True) if sig not in fresh[b]]
        # text or blanks of ANOTHER document in this output (counted, see PENDING) shift the positions the separator clause reads
        # the output at: with foreign material present that clause cannot be judged (a thorough run with seed 11 reported
        # reuse-x-separator-lost for a document whose output carried three foot notes of the document converted before: false alarm)
        foreign_here = any(sig.endswith('-foreign') for sig, _ in found)
        what = ('call %d %r on document %d %s' % (n, hist['ops'][n] if n >= 0 else 'constructor', di,
                'again' if cls == 'repeat' else 'after this object converted / loaded another document'))
        held_back = []
        for sig, detail in found:
            if sig == 'x-separator-lost':
                held_back.append((sig, detail)); continue
            fails.append(('%s-%s' % (cls, sig), '%s: %s' % (what, detail)))
        n_before = len(fails)
        # text of ANOTHER document of the history in this conversion (unique words that the loaded document does not have)
        if r[0] == 'ok' and isinstance(r[1], str):
            try:
                txt = r[1] if key == 'm' else body_text(xhtml_events(r[1]))
            except xml.parsers.expat.ExpatError:
                txt = u''
            others = u' '.join(json.dumps(o, sort_keys=True) for o in hist['docs'])
            alien = [w for w in UNIQ.findall(txt) if (u'"%s' % w) not in b and w not in b and w in others]
            if alien:
                fails.append(('%s-%s-foreign-text' % (cls, key[0]), 'call %d %r on document %d: the output holds %r of another document this object '
                              'converted before' % (n, hist['ops'][n], di, alien[:3])))
        if held_back and not foreign_here and len(fails) == n_before:
            for sig, detail in held_back:
                fails.append(('%s-%s' % (cls, sig), '%s: %s' % (what, detail)))
    return fails


def run(chk, replay=None):
    chk.rule = ('seeded documents over the supported vocabulary (p, h with/without level, span, a, nested lists, tables with spans, '
                'frames with text boxes / images, notes, s/tab/line-break, bookmarks, sections, dc/meta; block-level containers: frames / '
                'drawing shapes as children of office:text, sections, cells, text boxes, note bodies; tables of content and the other '
                'indexes with index title; numbered paragraphs), depth <= 5, as text, spreadsheet '
                'and presentation documents, adversarial strings in text, metadata, link targets, style and bookmark names; each SAVED '
                'with odfpy and converted from the file; non-trivial = document with at least one adversarial string and one nested element')
    wd = Workdir()
    try:
        if replay is not None and 'history' in replay.get('input', {}):
            hist = replay['input']['history']
            fails = judge_history(hist, wd, {}, {})
            known = set(k['sig'] for k in chk.known)
            for f in fails:
                print('replay: %s %s: %s' % ('KNOWN' if f[0] in known else 'PENDING' if f[0] in PENDING else 'FAIL', f[0], f[1]))
            return 1 if [f for f in fails if (f[0] not in known and f[0] not in PENDING) or f[0] == replay.get('signature')] else 0
        if replay is not None:
            spec = replay['input']['spec'] if 'spec' in replay.get('input', {}) else replay['input']
            res, nres, fails = check_spec(spec, wd)
            for k in ('x1', 'x0', 'm'):
                if k in res:
                    print('replay %s: %s' % (k, (res[k][1][:3000] if res[k][0] == 'ok' else res[k])))
            for pm in (False, True):
                resb, failsb = check_own(spec, wd, pm)
                fails = fails + failsb
            known = set(k['sig'] for k in chk.known)
            bad = [f for f in fails if (f[0] not in known and f[0] not in PENDING) or f[0] == replay.get('signature')]
            for f in fails:
                print('replay: %s %s: %s' % ('KNOWN' if f[0] in known else 'PENDING' if f[0] in PENDING else 'FAIL', f[0], f[1]))
            return 1 if bad else 0
        return run_main(chk, wd)
    finally:
        wd.close()


def gen_specs(chk):
    n = 1500 if chk.tier == 'thorough' else 260
    g = None
    for i in range(n):
        g = c18gen.Gen(chk.rng, maxdepth=5)
        kind = None
        if i < 6:
            kind = ['text', 'sheet', 'pres'][i % 3]
        yield g.doc(kind), g


def corr_lines(res, default_styles):
    """driver requests for one converted file: [(key, line)]"""
    out = []
    tree = wire_loaded(res['path'])
    for key in ('x1', 'x0'):
        r = res[key]
        css = u''
        if key == 'x1' and r[0] == 'ok':
            css = split_css(r[1], default_styles)
            if css is None:
                out.append((key, None)); continue
        out.append((key, 'xhtml %s %s %s' % ('1' if key == 'x1' else '0', enc_str(css), tree)))
    if 'm' in res:
        import zipfile
        z = zipfile.ZipFile(res.get('mpath') or res['path'])
        out.append(('m', 'moin %s %s' % (wire_member(z.read('styles.xml')), wire_member(z.read('content.xml')))))
        z.close()
    return out


def compare(chk, spec, res, key, answer, default_styles):
    """one correspondence case: real converter vs model answer"""
    chk.corr()
    r = res[key]
    case = {'spec': spec, 'which': key}
    if answer is None:
        chk.corr_diff(case, r[1][:300] if r[0] == 'ok' else r, None, 'style sheet not found between the CDATA markers / does not start with default_styles')
        return
    if r[0] == 'exc':
        if answer != 'err ' + r[1]:
            chk.corr_diff(case, 'exception ' + r[1], answer[:200], 'exception class of the converter vs model')
        chk.count('corr_exc_' + r[1])
        return
    if not answer.startswith('ok '):
        chk.corr_diff(case, 'ok …' + r[1][-200:], answer[:200], 'converter returned a string, model an error')
        return
    rendered = dec_str(answer.split(' ', 2)[1])
    if rendered != r[1]:
        k = 0
        while k < min(len(rendered), len(r[1])) and rendered[k] == r[1][k]:
            k += 1
        chk.corr_diff(case, r[1][max(0, k - 60):k + 60], rendered[max(0, k - 60):k + 60], '%s output string, first difference at %d' % (key, k))
        return
    if key != 'm':
        try:
            ev = merge_chars(xhtml_events(r[1]))
        except xml.parsers.expat.ExpatError:
            chk.count('corr_tokens_skipped_illformed')
            return
        mev = model_events(answer, default_styles)
        if mev and mev[-1][0] == 'c' and mev[-1][1].strip() == u'':
            mev.pop()                  # white space after the root element is not reported by expat
        if ev != mev:
            k = 0
            while k < min(len(ev), len(mev)) and ev[k] == mev[k]:
                k += 1
            chk.corr_diff(case, repr(ev[k:k + 2])[:300], repr(mev[k:k + 2])[:300], '%s expat events of the output vs model tokens, first difference at %d' % (key, k))
        chk.count('corr_tokens', len(mev))


def run_main(chk, wd):
    import translate_xhtml
    from common import REPO, InfraError
    t0 = time.time()
    # 1 translate
    try:
        m = translate_xhtml.measure(REPO)
    except RuntimeError as e:
        raise InfraError(str(e))
    chk.write_generated('XhtmlDispatch', translate_xhtml.to_lean(m))
    chk.obligation('translator: nsdict is injective (prefix:local identifies the qualified name)', m['nsdict_injective'])
    default_styles = m['default_styles']
    # 2 prove
    chk.prove(modules=['OdfModel.Props.C18', 'OdfModel.XhtmlLemmas', 'OdfModel.XhtmlText', 'OdfModel.XhtmlEscape', 'OdfModel.MoinLemmas', 'OdfModel.Props.C18Moin', 'OdfModel.Props.C18Spell'],
              drivers=['drv_xhtml'])
    chk.notes.append('translate+prove %.1fs' % (time.time() - t0))
    t0 = time.time()
    drv = chk.driver('drv_xhtml')
    specs = []
    # hand-written minimal witnesses first (corpus), then the seeded documents
    for name, spec in CORPUS:
        specs.append((spec, None, name))
    for spec, g in gen_specs(chk):
        specs.append((spec, g, None))
    pending = []
    pending_seen = {}
    cache, fresh, pool = {}, {}, []       # for the histories: saved file / signatures of the fresh conversion per description

    def report(sig, case, detail, name=None):
        """a failure of the oracle: a violation, unless its class is one of the PENDING ones (counted, first witness noted)"""
        if sig in PENDING:
            chk.count('pending_' + sig)
            if sig not in pending_seen or (name is not None and pending_seen[sig][0] is None):
                pending_seen[sig] = (name, detail)
            return 'pending'
        return chk.fail(sig, case, detail)
    for ndoc, (spec, g, name) in enumerate(specs):
        res, nres, fails = check_spec(spec, wd)
        blob = json.dumps(spec, sort_keys=True)
        adv = any(c in blob for c in (u'<', u'&', u']]>'))
        chk.case(blob, nontrivial=adv and (u'"span"' in blob or u'"list"' in blob or u'"table"' in blob or u'"frame"' in blob),
                 sample=({'kind': spec['kind'], 'xhtml_len': len(res['x1'][1]) if res['x1'][0] == 'ok' else res['x1'][1],
                          'spec_head': blob[:300]} if g is not None else None))
        chk.count('doc_' + spec['kind'])
        if g is not None:
            for f in sorted(g.feat):
                chk.count('feat_' + f)
        for k in ('x1', 'x0', 'm'):
            if k in res:
                chk.count('conv_%s_%s' % (k, res[k][0]))
        for sig, detail in fails:
            report(sig, {'spec': spec}, detail, name)
        cache[blob] = res['path']; fresh[blob] = set(f[0] for f in fails); pool.append(spec)
        routes = ((spec, res),) + (((c18gen.neutral(spec), nres),) if (nres is not res and 'path' in nres) else ())
        # route B: every third document (and the whole corpus) also goes through the harness's own serialiser
        if g is None or ndoc % 3 == 0:
            pm = g is None or chk.rng.random() < 0.7        # MoinMoin gets the indented package too (repair 2b96491)
            resb, failsb = check_own(spec, wd, pm)
            chk.count('own_serialiser_docs'); chk.count('own_serialiser_moin_indented', 1 if pm else 0)
            for sig, detail in failsb:
                report(sig, {'spec': spec, 'route': 'own-serialiser'}, detail, name)
            routes = routes + ((spec, resb),)
        # 3 correspondence requests (the adversarial document, its neutralised twin, the own-serialiser package)
        for sp, r in routes:
            for key, line in corr_lines(r, default_styles):
                pending.append((sp, r, key, line))
    # histories: one converter object for several documents / several calls
    th = time.time()
    text_pool = [d for d in pool if d['kind'] == 'text']
    hists = [(h, n) for n, h in HISTORIES]
    for i in range(400 if chk.tier == 'thorough' else 70):
        hists.append((gen_history(chk.rng, pool, text_pool), None))
    for hist, name in hists:
        hfails = judge_history(hist, wd, cache, fresh)
        chk.case('history ' + json.dumps(hist, sort_keys=True), nontrivial=len(hist['docs']) > 1)
        chk.count('history_' + hist['target']); chk.count('history_calls', len(hist['ops']))
        for sig, detail in hfails:
            report(sig, {'history': hist}, detail, name)
    chk.notes.append('histories %.1fs' % (time.time() - th))
    chk.notes.append('oracle phase %.1fs' % (time.time() - t0))
    for sig in sorted(pending_seen):
        chk.notes.append('PENDING finding %s (not failing the run): corpus document %r: %s' % (sig, pending_seen[sig][0], pending_seen[sig][1][:160]))

    def deep_search():
        """a proof or the correspondence broke and the oracle saw nothing yet: look at more documents (oracle only)"""
        for i in range(1500 if chk.tier == 'thorough' else 600):
            g = c18gen.Gen(chk.rng, maxdepth=5)
            spec = g.doc()
            res, nres, fails = check_spec(spec, wd)
            chk.count('deep_search_docs')
            for sig, detail in fails:
                if report(sig, {'spec': spec}, detail) == 'violation':
                    return
    chk.deep_search = deep_search
    t0 = time.time()
    answers = drv.batch([p[3] for p in pending if p[3] is not None])
    it = iter(answers)
    for sp, r, key, line in pending:
        compare(chk, sp, r, key, next(it) if line is not None else None, default_styles)
    chk.notes.append('correspondence phase %.1fs' % (time.time() - t0))
    return chk.finish()


def T(s): return ['t', s]
def P(*inl): return ['p', None, list(inl)]
def D(body, kind='text', **kw):
    d = {'kind': kind, 'meta': {}, 'styles': [], 'liststyles': [], 'body': body}
    d.update(kw)
    return d


CORPUS = [
    ('plain', D([P(T(u'a<b>&"c'))])),
    ('heading-without-level', D([['h', None, None, [T(u'k1z')]]])),
    ('text-before-textbox', D([P(T(u'k1z'), ['frame', 'char', None, ['textbox', [P(T(u'k2z'))]]], T(u'k3z'))])),
    ('space-after-text', D([P(T(u'k1z'), ['s', 3], T(u'k2z'))])),
    ('css-cdata-end', D([['p', u'a]]><b>&', [T(u'k1z')]]], styles=[{'fam': 'paragraph', 'name': u'a]]><b>&', 'auto': False, 'parent': None,
                                                                  'bold': True, 'italic': False, 'color': None, 'margin': None}])),
    ('css-cdata-end-2', D([['p', u'n]]]>x', [T(u'k1z')]], ['p', u']]>]]>', [T(u'k2z')]]],
                          styles=[{'fam': 'paragraph', 'name': u'n]]]>x', 'auto': False, 'parent': None, 'bold': True, 'italic': False, 'color': u']]>]]><b>', 'margin': None},
                                  {'fam': 'paragraph', 'name': u']]>]]>', 'auto': True, 'parent': None, 'bold': False, 'italic': True, 'color': u'a]]]>', 'margin': None}])),
    ('ws-between-inline-lf', D([P(['span', None, [T(u'k1z')]], T(u'\n'), ['span', None, [T(u'k2z')]], T(u'\n'), ['a', u'http://example.org/', [T(u'k3z')]])])),
    ('ws-between-inline-mixed', D([P(T(u'\n  '), ['span', None, [T(u'k1z')]], T(u'\r\n'), ['span', None, [T(u'k2z')]], T(u'\t'), T(u'k3z'), T(u' '),
                                   ['bmref', u'b', u'k4z'], T(u'\n\n'), ['span', None, [T(u'k5z')]], T(u'\n')),
                                 ['h', 2, None, [T(u'k6z'), T(u'\n'), ['span', None, [T(u'k7z')]], T(u'\n\t\n'), T(u'k8z')]]])),
    ('list-header', D([['list', None, [[P(T(u'k2z'))], [P(T(u'k3z')), ['list', None, [[P(T(u'k5z'))]], [P(T(u'k4z'))]]]], [P(T(u'k1z')), ['h', 2, None, [T(u'k1bz')]]]],
                       ['table', u't', None, [[None, None]], [[None, [['cell', {'rs': None, 'cs': None, 'style': None},
                           [['list', None, [[P(T(u'k7z'))]], [P(T(u'k6z'))]]]]]]], 0]])),
    ('table-header-rows', D([['table', u't', None, [[None, 2]], [[None, [['cell', {'rs': None, 'cs': None, 'rep': 2, 'style': None}, [P(T(u'k1z'))]]], 2],
                                                                  [None, [['cell', {'rs': None, 'cs': None, 'style': None}, [P(T(u'k2z'))]]], None]], 1]])),
    ('frame-image-and-textbox', D([P(T(u'k1z'), ['frame', 'as-char', None, ['both', [P(T(u'k2z'))]]], T(u'k3z'), ['s', 0], T(u'k4z'), ['spb'], T(u'k5z'),
                                     ['a', u'#x', [['span', None, [T(u'k6z'), ['tab'], T(u'k7z'), ['br']]]]], ['s', 40], T(u'k8z')),
                                   ['spb'], ['h', 11, None, [['a', u'http://x/', [T(u'k9z')]]]], ['h', 25, None, [T(u'k10z')]]])),
    ('moin-note-second-paragraph', D([P(T(u'k1z'), ['note', 'footnote', u'1', [P(T(u'k2z')), P(T(u'k3z'))]], T(u'k4z'))])),
    ('moin-table-in-cell', D([['table', u't', None, [[None, None]], [[None, [['cell', {'rs': None, 'cs': None, 'style': None},
        [['table', u'u', None, [[None, None]], [[None, [['cell', {'rs': None, 'cs': None, 'style': None}, [P(T(u'k1z'))]]]]]]]]]]]]])),
    ('moin-section-in-section', D([['section', u's1', [['section', u's2', [P(T(u'k1z'))]]]]])),
    ('moin-empty-citation', D([P(T(u'k1z'), ['note', 'footnote', u'', [P(T(u'k2z'))]])])),
    ('moin-whitespace-span', D([P(T(u'k1z'), ['span', None, [['s', 2]]], T(u'k2z'))])),
    ('footnote', D([P(T(u'see'), ['note', 'footnote', u'1', [P(T(u'k2z'))]])])),
    ('empty-href', D([P(['a', u'', [T(u'k1z')]])])),
    ('meta-markup', D([P(T(u'x'))], meta={'title': u'T<&>', 'creator': u'A "q" <b>', 'language': u'e"n\'', 'userdef': [[u'n<', u'v&']]})),
    # block-level containers: a frame with a text box as a CHILD of a section, a cell, a text box, a note body (converted by
    # both converters) ...
    ('block-frame-in-section-cell-box-note', D([
        ['section', u's1', [P(T(u'k1z')), ['frame', 'paragraph', None, ['textbox', [P(T(u'k2z')), ['frame', None, None, ['textbox', [P(T(u'k3z'))]]]]]], P(T(u'k4z'))]],
        ['table', u't', None, [[None, None]], [[None, [['cell', {'rs': None, 'cs': None, 'style': None},
            [P(T(u'k5z')), ['frame', 'page', None, ['both', [P(T(u'k6z'))]]], P(T(u'k7z'))]]]]], 0],
        P(T(u'k8z'), ['note', 'footnote', u'1', [P(T(u'k9z')), ['frame', 'char', None, ['textbox', [P(T(u'k10z'))]]], P(T(u'k11z'))]])])),
    ('block-frame-in-sheet-cell', D([['table', u't', None, [[None, None]], [[None, [['cell', {'rs': None, 'cs': None, 'style': None},
        [P(T(u'k1z')), ['frame', None, None, ['textbox', [P(T(u'k2z'))]]], P(T(u'k3z'))]]]]], 0]], kind='sheet')),
    # ... and the minimal witnesses of the classes M_LOST / X_LOST (before af61005 / e7e9e0f each lost k2z, or k1z in front of the shape)
    ('moin-top-frame', D([P(T(u'k1z')), ['frame', 'page', None, ['textbox', [P(T(u'k2z'))]]], P(T(u'k3z'))])),
    ('moin-top-shape', D([P(T(u'k1z')), ['shape', 'rect', 'page', None, [P(T(u'k2z'))]], P(T(u'k3z'))])),
    ('shape-in-paragraph', D([P(T(u'k1z'), ['shape', 'ellipse', 'char', None, [P(T(u'k2z'))]], T(u'k3z'))])),
    ('custom-shape-in-paragraph', D([P(T(u'k1z'), ['shape', 'custom', 'as-char', u'gr.1', [P(T(u'k2z'))]], T(u'k3z'))])),
    ('moin-top-index', D([P(T(u'k1z')), ['index', 'toc', u'Toc1', [P(T(u'k2z'))], [P(T(u'k3z'))]], P(T(u'k4z'))])),
    ('moin-index-in-section', D([['section', u's1', [P(T(u'k1z')), ['index', 'alpha', u'Ix', None, [P(T(u'k2z'))]], P(T(u'k3z'))]]])),
    ('moin-top-numbered-paragraph', D([P(T(u'k1z')), ['numpar', u'L1', None, P(T(u'k2z'))], P(T(u'k3z'))])),
    ('moin-numbered-paragraph-in-cell', D([['table', u't', None, [[None, None]], [[None, [['cell', {'rs': None, 'cs': None, 'style': None},
        [P(T(u'k1z')), ['numpar', u'L1', 2, ['h', 2, None, [T(u'k2z')]]], P(T(u'k3z'))]]]]], 0]])),
    ('moin-line-and-group', D([P(T(u'k1z'), ['shape', 'line', 'char', None, [P(T(u'k2z'))]], T(u'k3z')), ['shape', 'g', None, None, [P(T(u'k4z'))]],
                               P(T(u'k5z'), ['shape', 'g', 'as-char', None, [P(T(u'k6z'))]], T(u'k7z')), ['shape', 'line', 'page', None, [P(T(u'k8z'))]],
                               ['shape', 'circle', None, None, [P(T(u'k9z'))]]])),
    ('shapes-on-a-page', D([['page', u'pg', [['shape', 'custom', None, None, [P(T(u'k1z'))]], ['frame', None, None, ['textbox', [P(T(u'k2z'))]]],
                                              ['shape', 'rect', None, None, [P(T(u'k3z'))]]]]], kind='pres')),
]


def spelling_sweep():
    """the style names of the producers' default templates in every spelling (c18gen.spellings) on paragraphs, headings and
       spans - referenced only, and declared (common / automatic, with properties so that a rule is written)"""
    n = [0]

    def w():
        n[0] += 1
        return u'k%dz' % n[0]
    ps = [nm for d in c18gen.DISPLAY_P for nm in c18gen.spellings(d)]
    ss = [nm for d in c18gen.DISPLAY_S for nm in c18gen.spellings(d)]

    def decl(names, fam):
        out, seen = [], set()
        for i, nm in enumerate(names):
            if u' ' in nm or nm in seen:
                continue
            seen.add(nm)
            out.append({'fam': fam, 'name': nm, 'auto': i % 2 == 1, 'parent': None, 'bold': True, 'italic': i % 3 == 0, 'color': None, 'margin': None})
        return out
    docs = []
    for tag, styles in (('referenced', []), ('declared', decl(ps, 'paragraph') + decl(ss, 'text'))):
        docs.append(('spellings-p-' + tag, D([['p', nm, [T(w())]] for nm in ps], styles=styles)))
        docs.append(('spellings-h-' + tag, D([['h', 1 + i % 7, nm, [T(w())]] for i, nm in enumerate(ps)], styles=styles)))
        docs.append(('spellings-span-' + tag, D([P(T(w()), ['span', nm, [T(w())]], T(w())) for nm in ss], styles=styles)))
    docs.append(('spellings-in-cells-and-items', D([['list', None, [[['p', nm, [T(w())]]] for nm in ps[:40]], None],
        ['table', u't', None, [[None, None]], [[None, [['cell', {'rs': None, 'cs': None, 'style': None}, [['p', nm, [T(w())]]]]]] for nm in ps[40:80]], 0]])))
    return docs


CORPUS += spelling_sweep()

_A = D([['h', 1, None, [T(u'k1z')]], P(T(u'k2z'), ['note', 'footnote', u'1', [P(T(u'k3z'))]], T(u'k4z')), ['list', None, [[P(T(u'k5z'))]], None]], meta={'title': u'k6z'})
_B = D([P(T(u'k11z')), ['table', u't', None, [[None, None]], [[None, [['cell', {'rs': None, 'cs': None, 'style': None}, [P(T(u'k12z'))]]]]], 0],
        ['h', 2, None, [T(u'k13z')]], P(T(u'k14z'), ['note', 'endnote', u'i', [P(T(u'k15z'))]])])
_C = D([['table', u't', None, [[None, None]], [[None, [['cell', {'rs': None, 'cs': None, 'style': None}, [P(T(u'k21z'))]]]]], 0]], kind='sheet')
HISTORIES = [
    ('moin-two-documents', {'target': 'm', 'docs': [_A, _B], 'ops': [['toString'], ['load', 1], ['toString']]}),
    ('moin-load-without-converting-first', {'target': 'm', 'docs': [_A, _B], 'ops': [['load', 1], ['toString']]}),
    ('moin-back-to-the-first', {'target': 'm', 'docs': [_A, _B], 'ops': [['toString'], ['load', 1], ['toString'], ['load', 0], ['toString']]}),
    ('moin-twice', {'target': 'm', 'docs': [_A], 'ops': [['toString'], ['toString']]}),
    ('xhtml-two-documents-css', {'target': 'x', 'css': True, 'docs': [_A, _B, _C], 'ops': [['odf2xhtml', 0], ['odf2xhtml', 1], ['odf2xhtml', 2], ['odf2xhtml', 0]]}),
    ('xhtml-two-documents-nocss', {'target': 'x', 'css': False, 'docs': [_B, _A], 'ops': [['odf2xhtml', 0], ['odf2xhtml', 1]]}),
    ('xhtml-load-and-xhtml', {'target': 'x', 'css': True, 'docs': [_A, _B], 'ops': [['load', 0], ['xhtml'], ['load', 1], ['xhtml'], ['xhtml']]}),
    ('xhtml-twice', {'target': 'x', 'css': False, 'docs': [_A], 'ops': [['odf2xhtml', 0], ['odf2xhtml', 0], ['xhtml']]}),
]

# -*- coding: utf-8 -*-
"""C16 - references to embedded sub-documents resolve to where they are stored.

proof:          lean/OdfModel/Props/C16.lean (ref_names_folder_partial, reload_keeps_refs_partial, finding_*)
                lean/OdfModel/Props/C16Names.lean (objectName_free, attach_folder_fresh, setFolderKids_folder, descending_then_default, path_name_inside_out,
                path_name_equals_nested_folder_refused, finding_later_attach_shares_folder)
                about lean/OdfModel/Pkg.lean (`step`/`run` = addObject, `save`, `load`)
correspondence: (A) attachment histories (2-7 documents, default and explicit names, nesting, any attach order, objects
                with pictures) run on the real library and through `drv_pkg hist`: returned references, the saved
                archive entry by entry, the bit "history is well ordered", and for every reference the bit "resolves";
                (B) load() of each saved package and (C) of hand-made packages whose object folders are numbered
                non-contiguously / listed in any manifest order, through `drv_pkg load`: loaded state and re-saved archive.
oracle:         every reference returned by addObject names a folder that is in the zip with that object's content.xml and
                styles.xml and in the manifest with that object's media type; after load+save every draw:object
                xlink:href found in a content.xml still resolves to a folder holding that object's parts; the pictures
                and other files of a sub-document are still below its folder.  The loaded document is saved three times (the
                same in-memory document: a backup, then the real file ...) and the statements are evaluated on each package;
                a built document is saved twice and its references must resolve in both packages.
                A reference handed out while the holder was not yet part of the saved document is read below the folder in which
                the top of the holder's tree (at that time) is stored: there it names the object's folder (explicit names that are
                paths, "Charts/Sales", inside-out and outside-in; explicit numbered names followed by default names).
"""
import io, json
import pkgcommon as pk
import c03
from common import enc_str

OBJECT_SIGS = set(x + y for x in ('object-not-stored-once', 'object-styles-missing', 'object-mediatype', 'picture-missing', 'picture-mediatype')
                  for y in ('', '-after-load'))
# entry points for the second and third save of a loaded document (the first goes through save(file object))
RESAVE_VIAS = [('fileobj', 'fileobj'), ('write', 'name'), ('name+suffix', 'write'), ('name', 'fileobj')]
NAMES = [u'/MyObj', u'MyObj', u'/Object 9', u'/Object 1', u'Object 2', u'/Obj/x', u'//Sub obj', u'\xe9\u6f22']
# explicit names that are paths of their own ("Charts/Sales": a folder below the holder's folder), with blanks, dots, non-ASCII;
# pairs with the same last component, pairs where one is the first component of the other
PATH_NAMES = [u'Charts/Sales', u'Tables/Sales', u'/Charts/Sales', u'a/b/c', u'a/b/d', u'x/b/c', u'a b/c d', u'My Charts/Sales 2024', u'v1.2/x.y',
              u'.hidden/obj', u'obj.d/1', u'\xe9t\xe9/\u6f22', u'\u6f22/Sales', u'Sales', u'c', u'Object 1/Object 1', u'Objects/Object 1',
              u'Object 1/x', u'deep/er/and/deeper/obj', u'Charts/Sales/Q1']


# ------------------------------------------------------------------------------------------------ generation
def gen_paths(rng):
    """holders assembled inside-out and outside-in: chains and small trees of 3-6 documents in which most objects get an explicit
    name from PATH_NAMES, and the order of the addObject calls is any order (a holder gets its objects before or after it is
    attached itself, also two levels deep)"""
    n = rng.choice([3, 3, 4, 5, 6])
    docs = [{'kind': 'text' if (i == 0 or rng.random() < 0.6) else 'spreadsheet', 'settings': False,
             'pics': [c03.gen_pic(rng, j) for j in range(rng.choice([0, 0, 1]))]} for i in range(n)]
    # a tree over 0..n-1 rooted in 0 (depth <= 3), then the edges in a random order
    parent = {}
    depth = {0: 0}
    for c in range(1, n):
        p = rng.choice([x for x in range(c) if depth[x] < 3])
        parent[c] = p; depth[c] = depth[p] + 1
    edges = [[parent[c], c] for c in range(1, n)]
    order = rng.choice(['inside-out', 'inside-out', 'any', 'any', 'outside-in'])
    if order == 'inside-out':
        edges.sort(key=lambda e: -depth[e[1]])
    elif order == 'any':
        rng.shuffle(edges)
    pool = rng.sample(PATH_NAMES, 6)        # a small pool: two objects of one holder ask for the same name now and then
    ops = [[p, c, rng.choice(pool) if rng.random() < 0.75 else None] for p, c in edges]
    return {'mode': 'hist', 'docs': docs, 'ops': ops}


def gen_numbered_hist(rng):
    """one holder (the saved document, or an object of it that is attached before or after) gets objects under explicit numbered
    names (c03.numbered_nums: descending / with gaps / equal to the next default name), then under default names"""
    e = rng.choice([1, 2, 2, 3, 4])
    names = [u'Object %d' % k for k in c03.numbered_nums(rng, e)] + [None] * rng.choice([1, 1, 2, 3])
    if rng.random() < 0.25:
        names.insert(rng.randrange(e), None)
    names = names[:6]
    holder = rng.choice([0, 0, 1])
    n = len(names) + 1 + holder
    docs = [{'kind': 'text' if (i == 0 or rng.random() < 0.5) else 'spreadsheet', 'settings': False,
             'pics': [c03.gen_pic(rng, j) for j in range(rng.choice([0, 0, 1]))]} for i in range(n)]
    ops = [[holder, holder + 1 + i, nm] for i, nm in enumerate(names)]
    if holder:
        ops.insert(rng.choice([0, 0, len(ops)]), [0, 1, rng.choice([None, u'Holder'])])
    return {'mode': 'hist', 'docs': docs, 'ops': ops}


def gen_hist(rng, mode):
    n = rng.choice([2, 3, 3, 4, 5, 6, 7])
    docs = []
    for i in range(n):
        docs.append({'kind': 'text' if (i == 0 or rng.random() < 0.7) else 'spreadsheet',
                     'settings': rng.random() < 0.3,
                     'pics': [c03.gen_pic(rng, j) for j in range(rng.choice([0, 0, 1, 2]))]})
    ops = []
    parent = {}
    kids = {i: [] for i in range(n)}
    unattached = list(range(1, n))
    def under_root(x):
        while x in parent:
            x = parent[x]
        return x == 0
    def subtree(x):
        out = [x]
        for k in kids[x]:
            out += subtree(k)
        return out
    nops = rng.choice([n - 1, n - 1, n - 1, max(1, n - 2)])
    while unattached and len(ops) < nops:
        c = rng.choice(unattached)
        if mode == 'ordered':
            cands = [x for x in range(n) if under_root(x) or x == 0]
            depth_of = lambda x: 0 if x == 0 else 1 + depth_of(parent[x])
            cands = [x for x in cands if depth_of(x) < 3]
        else:
            st = set(subtree(c))
            cands = [x for x in range(n) if x not in st]
        p = rng.choice(cands)
        name = None
        if rng.random() < 0.3:
            name = rng.choice(NAMES)        # small pool: duplicates under one parent happen (-> ValueError, nothing attached)
        ops.append([p, c, name])
        parent[c] = p; kids[p].append(c); unattached.remove(c)
    if mode == 'twice' and ops:
        # the same document instance attached a second time, or to itself: refused since d51bb64 (ValueError, nothing changes)
        p0, c0, _ = rng.choice(ops)
        st = set(subtree(c0))
        ops.append([rng.choice([x for x in range(n) if x not in st] + [c0]), c0, None])
    return {'mode': 'hist', 'docs': docs, 'ops': ops}


# twelve different media types a sub-document folder can be declared with (the parts inside are text or spreadsheet parts)
MANY_MTS = [u'application/vnd.oasis.opendocument.' + x for x in (
    'text', 'spreadsheet', 'graphics', 'chart', 'presentation', 'formula', 'image', 'text-template', 'spreadsheet-template',
    'graphics-template', 'presentation-template', 'text-master')]


def many_objects(nums, rng=None):
    """objects with pairwise distinct content (marker 1000+N) and pairwise distinct media types, so that any permutation of the
    sub-documents by load()/save() is observable"""
    return [{'num': n, 'kind': 'text' if i % 2 == 0 else 'spreadsheet', 'mt': MANY_MTS[i % 12], 'settings': False,
             'pic': bool(rng and rng.random() < 0.3), 'file': False, 'nested': False, 'rich': bool(rng and rng.random() < 0.3)}
            for i, n in enumerate(nums)]


def gen_pkg(rng):
    x = rng.random()
    if x < 0.3:
        # 10-12 top-level objects ("Object 10/" sorts before "Object 2/"), listed in order or in permuted manifest order
        nums = list(range(1, rng.choice([10, 11, 12]) + 1))
        if rng.random() < 0.5:
            rng.shuffle(nums)
        return {'mode': 'pkg', 'nums': nums, 'objects': many_objects(nums, rng), 'root_first': rng.random() < 0.7, 'extras': rng.random() < 0.3}
    nums = rng.choice([[7], [2, 5], [1, 3], [2, 1], [1, 2], [1, 2, 3], [3, 1, 2], [1, 3, 2], [10, 1], [100], [1, 100], [12, 99]])
    return {'mode': 'pkg', 'nums': nums,
            'objects': [{'num': n, 'kind': rng.choice(['text', 'spreadsheet']), 'settings': rng.random() < 0.3,
                         'pic': rng.random() < 0.5, 'file': rng.random() < 0.3, 'nested': rng.random() < 0.25,
                         'rich': rng.random() < 0.5} for n in nums],
            'root_first': rng.random() < 0.7, 'extras': rng.random() < 0.3}


def py_parents_first(h, refused=()):
    """the hypothesis of ref_names_folder_partial, written from its wording: every parent hangs under the saved document
    (document 0) at the time it gets a child.  `refused` = indexes of the calls that raised ValueError (they attach nothing)"""
    parent = {}
    for i, (p, c, name) in enumerate(h['ops']):
        x = p
        while x in parent:
            x = parent[x]
        if x != 0:
            return False
        if i not in refused:
            parent[c] = p
    return True


# ------------------------------------------------------------------------------------------------ part A
def frame_for(doc, c, ref):
    from odf import draw, text
    p = text.P()
    fr = draw.Frame(name=u'REF%d' % c, anchortype=u'as-char', width=u'2cm', height=u'2cm')
    fr.addElement(draw.Object(href=ref))
    p.addElement(fr)
    doc.text.addElement(p)


def run_hist(chk, drv, h, oracle_only=False):
    from odf.opendocument import load
    ctx = c03.Ctx()
    fails = []
    try:
        ms = []
        for i, ds in enumerate(h['docs']):
            m = pk.MDoc(i, pk.KINDS[ds['kind']], ds['settings'])
            m.real = pk.new_real(ds['kind'], i, ds['settings'])
            c03.apply_pics(ctx, m, ds['pics'])
            ms.append(m)
        pre_tokens = [m.tokens() for m in ms]           # the documents before any attachment
        refs = []                                       # per op: the returned reference, or None if the call raised ValueError
        parents = {}                                    # child -> [parent, ...] of the successful calls
        refused = set()
        holder_now = {}                                 # child -> the document it hangs in, as the calls so far made it
        given_under = []                                # per op: the document that was the top of the holder's tree when the call was made
        for i, (p, c, name) in enumerate(h['ops']):
            before = (list(ms[p].real.childobjects), [m.real.folder for m in ms])
            t_ = p
            while t_ in holder_now:
                t_ = holder_now[t_]
            given_under.append(t_)
            try:
                r = ms[p].real.addObject(ms[c].real, name)
            except ValueError:
                refused.add(i); refs.append(None)
                chk.count('addobject_refused_duplicate_name')
                if (list(ms[p].real.childobjects), [m.real.folder for m in ms]) != before:
                    fails.append(('addobject-refusal-not-atomic', 'addObject(%d <- %d, %r) raised ValueError but changed the documents' % (p, c, name)))
                continue
            refs.append(r)
            parents.setdefault(c, []).append(p)
            holder_now.setdefault(c, p)
            if h['docs'][p]['kind'] == 'text':
                frame_for(ms[p].real, c, r)
        twice = any(len(v) > 1 for v in parents.values())
        raw, _ = pk.save_real(ms[0].real)
        arch = pk.read_archive(raw)
        files = {}
        for m in ms:
            files.update(m.files)
        marker_of = dict((i, i) for i in range(len(ms)))
        pfirst = py_parents_first(h, refused)

        def reachable(c, seen=()):
            return c == 0 or any(reachable(p, seen + (c,)) for p in parents.get(c, []) if p not in seen)
        # ---- oracle: every returned reference names the folder of its object
        res = []
        for (p, c, name), r in zip(h['ops'], refs):
            if r is None:
                res.append(None); continue
            why = pk.resolve_ref(arch, r, c, ms[c].mimetype)
            res.append(why is None)
            if not reachable(c):
                continue
            chk.count('refs_checked')
            if why is not None:
                sig = ('same-document-attached-twice' if twice else
                       'child-attached-before-parent' if not pfirst else 'reference-does-not-resolve')
                fails.append((sig, 'addObject(%d <- %d, %r) returned %r: %s' % (p, c, name, r, why)))
            else:
                chk.count('refs_resolved')
                if name is not None:
                    chk.count('explicit_name_refs_resolved')
        if twice:
            chk.count('outside_model_attached_twice')
            return fails, refs, arch
        # Two sub-documents in one folder.  An explicit name that is a path can be equal to the folder of an object nested in a sibling
        # ("Object 1/Object 1" given to the saved document whose "Object 1" holds an "Object 1" of its own).  Computed from the calls and
        # the returned references alone: the folder of a document = holder's folder + own name (own name = the explicit name without
        # leading "/", else the last component of the reference); class = two attached documents with equal folders, one of the own
        # names containing "/".
        #   (a) `path-name-equals-folder-of-nested-object` (was KF-C16-3, repaired: addObject compares the name with the folder of
        #       every object below the holder and raises ValueError - a refused call here as in the model): at the time of an ACCEPTED
        #       call the own name was already the folder, read below the holder, of an object below the holder.  An ordinary failing
        #       signature: the repaired code never produces it.
        #   (b) `object-attached-into-folder-of-path-named-object` (KF-C16-10, what that repair leaves): the two folders became equal
        #       through a call whose holder could not see the other document - an object attached to a holder DEEPER than the one holding
        #       the path-named object, or a document attached together with objects of its own.
        # The oracle's other reports about such a history are consequences of the two documents sharing one folder.
        own, hold = {}, {}
        seen_by_holder = []
        for (p, c, name), r in zip(h['ops'], refs):
            if r is None:
                continue
            n_ = name.lstrip(u'/') if name is not None else r.rsplit(u'/', 1)[1]
            def below(z):                   # folder of z read below p, if z hangs (so far) below p
                parts = []
                while z != p:
                    if z not in hold:
                        return None
                    parts.append(own[z]); z = hold[z]
                return u'/'.join(reversed(parts))
            taken = sorted(z for z in own if below(z) == n_)
            if taken:
                seen_by_holder.append((p, c, name, taken))
            own[c] = n_
            hold[c] = p
        def folder_of(c):
            return u'' if c == 0 else folder_of(hold[c]) + own[c] + u'/'
        at = {}
        for c in sorted(own):
            if reachable(c):
                at.setdefault(folder_of(c), []).append(c)
        if seen_by_holder:
            chk.count('accepted_name_that_is_the_folder_of_an_object_below_the_holder')
            return [('path-name-equals-folder-of-nested-object',
                     'addObject(%d <- %d, %r) accepted a name that is the folder of document(s) %r below the holder' % seen_by_holder[0])], refs, arch
        if any(len(v) > 1 and any(u'/' in own[c] for c in v) for v in at.values()):
            chk.count('known_object_attached_into_folder_of_path_named_object')
            chk.count('known_object_attached_into_folder_of_path_named_object_oracle_reports', len(fails))
            shared = sorted(f for f, v in at.items() if len(v) > 1)
            return [('object-attached-into-folder-of-path-named-object',
                     'two documents each are stored in %s: an object was attached (or moved with its holder) into the folder an explicit path name '
                     'had given to another object, which the holder of the call does not see' % shared)], refs, arch
        chk.count('names_compared_with_every_folder_below_the_holder', len(own))
        # ---- oracle: a reference handed out while the holder was not yet part of the saved document (the holder, or a document
        # the holder hangs in, was attached afterwards) was returned for the package whose root was the top of the holder's tree at
        # that time.  That document is stored in exactly one folder T of the saved package (found by its marker): the reference,
        # read below T, names the folder with the object's content.xml and styles.xml, declared with its media type.  (Read from
        # the root of the saved package the same string is stale: that is KF-C16-2 above.)  Two references of one such tree are
        # two different folders.
        where = pk.folder_of_objects(arch)
        for i, ((p, c, name), r) in enumerate(zip(h['ops'], refs)):
            t_ = given_under[i]
            if r is None or t_ == 0 or not reachable(c) or not r.startswith('./'):
                continue
            T = where.get(t_, [])
            if len(T) != 1:
                continue                    # the holder's tree is not stored once: object-not-stored-once reports it below
            chk.count('refs_checked_below_the_document_they_were_given_under')
            why = pk.resolve_ref(arch, u'./' + T[0] + r[2:], c, ms[c].mimetype)
            if why is not None:
                fails.append(('reference-does-not-resolve-below-its-holder', 'addObject(%d <- %d, %r) returned %r while document %d was the top of '
                              'its tree; document %d is stored in %r of the saved package: %s' % (p, c, name, r, t_, t_, T[0], why)))
        # the rest of the archive must be truthful too (pictures of objects under their folder ...)
        top = ms[0]
        def link(m, i):
            m.kids = [link(ms[c], c) for k, (p, c, _n) in enumerate(h['ops']) if p == i and k not in refused]
            return m
        link(top, 0)
        for sig, d in pk.oracle_c03(arch, top):
            if sig in OBJECT_SIGS:          # what C16 says about where an object and its own files are
                fails.append((sig, d))
        # the same document saved a second time (through write()): the references were handed out once, they name the folders of
        # every package this document is saved to
        raw_b, _ = pk.save_real(ms[0].real, 'write')
        arch_b = pk.read_archive(raw_b)
        chk.count('built_document_saved_twice')
        for (p, c, name), r, ok in zip(h['ops'], refs, res):
            if r is None or not ok or not reachable(c):
                continue
            why = pk.resolve_ref(arch_b, r, c, ms[c].mimetype)
            if why is not None:
                fails.append(('reference-does-not-resolve-on-second-save', 'addObject(%d <- %d, %r) returned %r, it resolved in the first '
                              'saved package; in the second: %s' % (p, c, name, r, why)))
        for sig, d in pk.oracle_c03(arch_b, top):
            if sig in OBJECT_SIGS:
                fails.append((sig + '-on-second-save', d))
        # ---- correspondence with the model
        if not oracle_only:
            t = ['hist'] + pre_tokens[0] + [str(len(ms) - 1)]
            for x in pre_tokens[1:]:
                t += x
            t.append(str(len(h['ops'])))
            for p, c, name in h['ops']:
                t += [str(p), str(c), pk.opt_str(name)]
            ans = drv.ask(' '.join(t))
            chk.corr()
            if not ans.startswith('ok '):
                chk.corr_diff(h, 'refs %r' % refs, ans, 'driver refused the history')
            else:
                head, listing = ans[3:].split(' ; ', 1)
                impl = 'parentsFirst=%d R %s' % (pfirst, ' '.join('E' if r is None else '%d %s %d' % (c, enc_str(r), ok)
                                                                     for (p, c, n), r, ok in zip(h['ops'], refs, res)))
                if impl.strip() != head.strip():
                    chk.corr_diff(h, impl, head, 'references returned by addObject (E = ValueError) / parentsFirst / resolves')
                pk.compare_listing(chk, h, listing, arch, files, marker_of, 'archive saved after the attachment history')
                pk.compare_listing(chk, h, listing, arch_b, files, marker_of, 'archive of the second save after the attachment history')
        # ---- part B: load + save
        fails += reload_checks(chk, drv, h, raw, arch, dict((i, m.mimetype) for i, m in enumerate(ms)), oracle_only)
        return fails, refs, arch
    finally:
        ctx.close()


# ------------------------------------------------------------------------------------------------ parts B and C
def travel_checks(arch1, arch2):
    """sub-documents of arch1 (found by marker) must be in arch2, with everything below their folder"""
    out = []
    chk_count = [0]
    travel_checks.compared = chk_count
    w1, w2 = pk.folder_of_objects(arch1), pk.folder_of_objects(arch2)
    data2 = dict((n, d) for n, _, _, d in arch2.members)
    import re
    for mk, fs in sorted(w1.items()):
        if len(fs) != 1:
            continue
        G1 = fs[0]
        depth = G1.count('/')
        if mk not in w2:
            if depth >= 2:
                out.append(('nested-object-not-loaded', 'object %d stored in %r is gone after load+save' % (mk, G1)))
            elif depth == 1 and len(G1) >= 11:
                out.append(('long-object-name-not-loaded', 'object %d stored in %r is gone after load+save' % (mk, G1)))
            else:
                out.append(('object-lost-after-reload', 'object %d stored in %r is gone after load+save' % (mk, G1)))
            continue
        if G1 == '' or len(w2[mk]) != 1:
            continue
        G2 = w2[mk][0]
        if G2 != G1:
            out.append(('object-folder-renamed-after-reload', 'object %d stored in %r is in %r after load+save' % (mk, G1, G2)))
        for n, _, _, d in arch1.members:
            if not n.startswith(G1) or n.endswith('/'):
                continue
            rel = n[len(G1):]
            if rel in ('content.xml', 'styles.xml', 'settings.xml') or re.match(r'Object \d+/', rel):
                continue            # re-generated from the parsed document / a sub-document of its own (has its own turn)
            chk_count[0] += 1
            if [t for p_, t in (arch2.manifest or []) if p_ == G2 + rel] != [t for p_, t in (arch1.manifest or []) if p_ == n]:
                out.append(('object-files-not-loaded', 'manifest entry of %r (object %d) is not carried to %r after load+save' % (n, mk, G2 + rel)))
            if data2.get(G2 + rel) != d:
                out.append(('object-pictures-not-loaded' if rel.startswith('Pictures/') else 'object-files-not-loaded',
                            '%r of object %d is not at %r after load+save' % (n, mk, G2 + rel)))
    return out


def ref_checks(arch1, arch2, mimetypes, contiguous=True, permuted=False):
    """every draw:object href that resolved in arch1 must, as found in arch2's content, resolve in arch2"""
    out = []
    def refs_of(arch):
        r = []
        for n, _, _, d in arch.members:
            if n == 'content.xml' or n.endswith('/content.xml'):
                for name, href in pk.object_refs(d):
                    if name and name.startswith('REF') and href:
                        r.append((int(name[3:]), href))
        return r
    r1 = [(c, href) for c, href in refs_of(arch1) if pk.resolve_ref(arch1, href, c, mimetypes[c]) is None]
    r2 = refs_of(arch2)
    w1 = pk.folder_of_objects(arch1)
    for c, href in r1:
        G1 = (w1.get(c) or ['?'])[0]
        if G1.count('/') >= 2:
            sig = 'nested-object-not-loaded'
        elif len(G1) >= 11:
            sig = 'long-object-name-not-loaded'
        elif permuted:
            sig = 'permuted-manifest-order'
        elif not contiguous:
            sig = 'noncontiguous-object-numbering'
        else:
            sig = 'reference-lost-after-reload'
        if (c, href) not in r2:
            out.append((sig, 'the content that referred to object %d as %r is gone after load+save' % (c, href)))
            continue
        why = pk.resolve_ref(arch2, href, c, mimetypes[c])
        if why is not None:
            out.append((sig, 'after load+save the content still says %r for object %d: %s' % (href, c, why)))
    return out, len(r1)


def reload_checks(chk, drv, case, raw, arch, mimetypes, oracle_only, contiguous=True, pspec=None, nonempty=None, permuted=False):
    from odf.opendocument import load
    fails = []
    try:
        d2 = load(io.BytesIO(raw))
    except Exception as e:
        # a package that save() wrote (or a well-formed hand-made one) must load
        return [('package-does-not-load', 'load() raised %r' % (e,))]
    m2 = c03.mirror_of_loaded(d2, pk.dedup_keys(pspec['manifest'] if pspec is not None else arch.manifest))
    raw2, _ = pk.save_real(d2)
    arch2 = pk.read_archive(raw2)
    r, n = ref_checks(arch, arch2, mimetypes, contiguous, permuted)
    chk.count('reload_refs_checked', n)
    fails += r
    fails += travel_checks(arch, arch2)
    chk.count('files_below_object_folders_compared', travel_checks.compared[0])
    for sig, d in pk.oracle_c03(arch2, m2, loaded=True):
        if sig in OBJECT_SIGS:
            fails.append((sig, d))
    # "after load and save": the loaded document is an object one keeps working with - it is saved again (a backup, then the
    # real file; through another entry point), and again.  Every one of these packages is "the package after load and save":
    # the same reference / travel / object-folder statements are evaluated on each of them, against the package that was loaded.
    later = []
    vias = RESAVE_VIAS[(len(arch.names) + len(raw)) % len(RESAVE_VIAS)]
    for k, word in ((0, 'second'), (1, 'third')):
        ctx = c03.Ctx()
        try:
            raw_k, _ = pk.save_real(d2, vias[k], ctx.tmp)
        finally:
            ctx.close()
        arch_k = pk.read_archive(raw_k)
        later.append(arch_k)
        chk.count('loaded_document_saved_again'); chk.count('loaded_document_saved_again_via_' + vias[k])
        r, n = ref_checks(arch, arch_k, mimetypes, contiguous, permuted)
        chk.count('resave_refs_checked', n)
        again = r + travel_checks(arch, arch_k)
        chk.count('files_below_object_folders_compared_on_later_saves', travel_checks.compared[0])
        again += [(sig, d) for sig, d in pk.oracle_c03(arch_k, m2, loaded=True) if sig in OBJECT_SIGS]
        fails += [('%s-on-%s-save-after-load' % (sig, word), '%s save of the loaded document (%s): %s' % (word, vias[k], d)) for sig, d in again]
    if not oracle_only:
        if pspec is None:
            pspec = {'mimetype': arch.members[0][3].decode('utf-8') if arch.names[:1] == ['mimetype'] else None,
                     'manifest': arch.manifest,
                     'members': [(n_, d_) for n_, _, _, d_ in arch.members if n_ not in ('mimetype', 'META-INF/manifest.xml')]}
            nonempty = [n_ for n_ in arch.names if n_.endswith('settings.xml')]
            req = pk.load_request(pspec, nonempty)
            # the real manifest bytes differ from a re-serialisation; nothing reads them here
        else:
            req = pk.load_request(pspec, nonempty)
        ans = drv.ask(req)
        chk.corr()
        if not ans.startswith('ok '):
            chk.corr_diff(case, 'loaded', ans, 'driver: load')
        else:
            state, listing = ans[3:].split(' ; ', 1)
            impl = ' '.join(m2.tokens())
            if impl != state:
                chk.corr_diff(case, *(pk.diff_window(impl, state) + ('document state after load()',)))
            marker_of = dict((x.id, x.marker) for x in m2.walk())
            pk.compare_listing(chk, case, listing, arch2, {}, marker_of, 'archive saved after load()')
            # the model's save is a function of the document: the second and third save are the same listing
            for arch_k, word in zip(later, ('second', 'third')):
                pk.compare_listing(chk, case, listing, arch_k, {}, marker_of, 'archive of the %s save after load()' % word)
    return fails


def build_pkg(ps):
    """hand-made package: a text document whose content refers to ./Object N for every object folder"""
    top = pk.new_real('text', 0, False)
    for o in ps['objects']:
        frame_for(top, 1000 + o['num'], u'./Object %d' % o['num'])
    members = [(u'content.xml', top.contentxml()), (u'styles.xml', top.stylesxml().encode('utf-8')),
               (u'meta.xml', top.metaxml().encode('utf-8'))]
    man = [(u'content.xml', u'text/xml'), (u'styles.xml', u'text/xml'), (u'meta.xml', u'text/xml')]
    if ps['root_first']:
        man.insert(0, (u'/', pk.KINDS['text']))
    nonempty = []
    mimetypes = {0: pk.KINDS['text']}
    for o in ps['objects']:
        F = u'Object %d/' % o['num']
        mk = 1000 + o['num']
        mimetypes[mk] = o.get('mt') or pk.KINDS[o['kind']]
        man.append((F, mimetypes[mk]))
        parts = pk.parts_of(o['kind'], mk, o['settings'])
        for n in ('content.xml', 'styles.xml', 'settings.xml'):
            if n in parts:
                members.append((F + n, parts[n])); man.append((F + n, u'text/xml'))
        if o['settings']:
            nonempty.append(F + u'settings.xml')
        if o['pic']:
            members.append((F + u'Pictures/p%d.png' % o['num'], bytes([o['num'] % 256, 7])))
            man.append((F + u'Pictures/p%d.png' % o['num'], u'image/png'))
        if o['file'] and not o.get('rich'):
            members.append((F + u'extra.bin', b'x' + bytes([o['num'] % 256])))
            man.append((F + u'extra.bin', u''))
        if o.get('rich'):
            # everything an office suite (or anyone) may put below an object folder (pk.own_files), plus a childless settings.xml
            fs, ds = pk.own_files(F, mk, o['kind'])
            for path, mt_, data in fs:
                members.append((path, data)); man.append((path, mt_))
            man += ds
            if not o['settings']:
                members.append((F + u'settings.xml', pk.new_real(o['kind'], mk, False).settingsxml().encode('utf-8')))
                man.append((F + u'settings.xml', u'text/xml'))
        if o['nested']:
            G = F + u'Object 1/'
            mimetypes[2000 + o['num']] = pk.KINDS['text']
            np_ = pk.parts_of('text', 2000 + o['num'], False)
            man.append((G, pk.KINDS['text']))
            for n in ('content.xml', 'styles.xml'):
                members.append((G + n, np_[n])); man.append((G + n, u'text/xml'))
            if o.get('rich'):
                # the nested object has files of its own under the same relative names, and an object of its own (depth 3) with the same
                fs, ds = pk.own_files(G, 2000 + o['num'], 'text')
                H = G + u'Object 3/'
                mimetypes[3000 + o['num']] = pk.KINDS['spreadsheet']
                man.append((H, pk.KINDS['spreadsheet']))
                hp = pk.parts_of('spreadsheet', 3000 + o['num'], False)
                fs2, ds2 = pk.own_files(H, 3000 + o['num'], 'spreadsheet')
                for n in ('content.xml', 'styles.xml'):
                    members.append((H + n, hp[n])); man.append((H + n, u'text/xml'))
                for path, mt_, data in fs + fs2:
                    members.append((path, data)); man.append((path, mt_))
                man += ds + ds2
    if ps['extras']:
        members.append((u'layout-cache', b'lc')); man.append((u'layout-cache', u'application/binary'))
        man.append((u'Configurations2/', u''))
    if not ps['root_first']:
        man.append((u'/', pk.KINDS['text']))
    return {'mimetype': pk.KINDS['text'], 'manifest': man, 'members': members}, nonempty, mimetypes


def run_pkg(chk, drv, ps, oracle_only=False):
    pspec, nonempty, mimetypes = build_pkg(ps)
    raw = pk.make_package(pspec)
    arch = pk.read_archive(raw)
    names = [p for p, _ in pspec['manifest'] if p.startswith('Object ') and p.endswith('/') and p.count('/') == 1]
    inorder = [u'Object %d/' % (i + 1) for i in range(len(names))]
    contiguous = names == inorder
    # the folders ARE numbered 1..n (all short names) and only their order in the manifest differs
    permuted = (not contiguous) and sorted(names) == sorted(inorder)
    chk.count('pkg_contiguous' if contiguous else 'pkg_permuted_manifest_order' if permuted else 'pkg_noncontiguous')
    chk.count('pkg_objects_%s' % ('10plus' if len(names) >= 10 else 'lt10'))
    return reload_checks(chk, drv, ps, raw, arch, mimetypes, oracle_only, contiguous, pspec, nonempty, permuted), None, arch


# ------------------------------------------------------------------------------------------------ cases
FIXED = [
    # explicit names: relative to the parent, leading "/" ignored, a duplicate is refused; the default number skips "Object 2"
    {'mode': 'hist', 'docs': [{'kind': 'text', 'settings': False, 'pics': []}] + [{'kind': 'spreadsheet', 'settings': False, 'pics': []}] * 6,
     'ops': [[0, 1, u'Object 2'], [0, 2, None], [0, 3, u'/MyObj'], [0, 4, u'MyObj'], [3, 5, u'//Sub obj'], [0, 6, u'/Object 2']]},
    # the same document attached twice, and a document attached to itself: refused (was KF-C16-9, repaired in d51bb64)
    {'mode': 'hist', 'docs': [{'kind': 'text', 'settings': False, 'pics': []}, {'kind': 'spreadsheet', 'settings': False, 'pics': []},
                              {'kind': 'text', 'settings': False, 'pics': []}],
     'ops': [[0, 1, None], [0, 1, None], [2, 1, None], [2, 2, None], [0, 2, None]]},
    # bottom-up with a picture in the grandchild, then the parent gets an explicit name
    {'mode': 'hist', 'docs': [{'kind': 'text', 'settings': False, 'pics': []}, {'kind': 'text', 'settings': False, 'pics': []},
                              {'kind': 'text', 'settings': False, 'pics': [{'how': 'string', 'data': '0102', 'mt': u'image/png'}]}],
     'ops': [[1, 2, None], [0, 1, u'Outer']]},
    # the three proved counter-examples of Props/C16.lean, replayed on the real code
    {'mode': 'hist', 'docs': [{'kind': 'text', 'settings': False, 'pics': []}, {'kind': 'spreadsheet', 'settings': False, 'pics': []},
                              {'kind': 'spreadsheet', 'settings': False, 'pics': []}], 'ops': [[0, 1, None], [0, 2, u'MyObj']]},
    {'mode': 'hist', 'docs': [{'kind': 'text', 'settings': False, 'pics': []}, {'kind': 'text', 'settings': False, 'pics': []},
                              {'kind': 'text', 'settings': False, 'pics': []}], 'ops': [[1, 2, None], [0, 1, None]]},
    {'mode': 'pkg', 'nums': [7], 'objects': [{'num': 7, 'kind': 'spreadsheet', 'settings': False, 'pic': True, 'file': False, 'nested': False}],
     'root_first': True, 'extras': False},
    # object folders with everything below them: own meta.xml, settings.xml, Thumbnails/, ObjectReplacements, Pictures/sub/, mimetype, META-INF/manifest.xml
    {'mode': 'pkg', 'nums': [1, 12], 'objects': [{'num': 1, 'kind': 'text', 'settings': False, 'pic': True, 'file': True, 'nested': True, 'rich': True},
                                                  {'num': 12, 'kind': 'spreadsheet', 'settings': True, 'pic': False, 'file': False, 'nested': False, 'rich': True}],
     'root_first': False, 'extras': True},
    # an object whose picture comes from a file with an abnormal tail after its last '.' (regression input of fix 31ca861)
    {'mode': 'hist', 'docs': [{'kind': 'text', 'settings': False, 'pics': []},
                              {'kind': 'text', 'settings': False, 'pics': [{'how': 'file', 'data': '616263', 'mt': None, 'ext': '', 'relpath': u'd.//a'}]}],
     'ops': [[0, 1, None]]},
    # twelve top-level objects with distinct content and distinct media types: in order, in permuted manifest order; two swapped
    {'mode': 'pkg', 'nums': list(range(1, 13)), 'objects': many_objects(list(range(1, 13))), 'root_first': True, 'extras': False},
    {'mode': 'pkg', 'nums': [10, 2, 11, 1, 12, 3, 9, 4, 8, 5, 7, 6], 'objects': many_objects([10, 2, 11, 1, 12, 3, 9, 4, 8, 5, 7, 6]),
     'root_first': False, 'extras': False},
    {'mode': 'pkg', 'nums': [2, 1], 'objects': many_objects([2, 1]), 'root_first': True, 'extras': False},
    # (was KF-C16-3) a path name equal to the folder of an object nested in a sibling: refused (ValueError); "Object 1/x" is accepted
    {'mode': 'hist', 'docs': [{'kind': 'text', 'settings': False, 'pics': []}] * 5,
     'ops': [[1, 3, None], [0, 1, None], [0, 2, u'Object 1/Object 1'], [0, 2, u'/Object 1/Object 1'], [0, 2, u'Object 1/x'], [0, 4, u'Object 1/x']]},
    {'mode': 'hist', 'docs': [{'kind': 'text', 'settings': False, 'pics': []}] * 5,
     'ops': [[0, 1, None], [1, 2, u'a/b'], [2, 3, u'c'], [0, 4, u'Object 1/a/b/c'], [1, 4, u'a/b/c'], [1, 4, u'a/b'], [1, 4, u'a']]},
    # KF-C16-10: the holder of the third call is deeper than the holder of the path-named object and cannot see it
    {'mode': 'hist', 'docs': [{'kind': 'text', 'settings': False, 'pics': []}] * 4,
     'ops': [[0, 1, None], [0, 2, u'Object 1/Object 1'], [1, 3, None]]},
    # ordered, three levels, pictures in the objects
    {'mode': 'hist', 'docs': [{'kind': 'text', 'settings': True, 'pics': []},
                              {'kind': 'text', 'settings': False, 'pics': [{'how': 'string', 'data': '0102', 'mt': u'image/png'}]},
                              {'kind': 'text', 'settings': False, 'pics': [{'how': 'file', 'data': '03', 'mt': None, 'ext': '.png'}]},
                              {'kind': 'spreadsheet', 'settings': True, 'pics': [{'how': 'named', 'data': '04', 'mt': u'image/gif', 'name': u'Pictures/n.gif'}]}],
     'ops': [[0, 1, None], [1, 2, None], [2, 3, None]]},
]


def all_histories(nobj, maxdepth=3):
    """every attachment history that attaches all of `nobj` objects (default names), in every order and under every
    admissible parent (not inside the child), nesting <= maxdepth levels"""
    docs = [{'kind': 'text', 'settings': False, 'pics': []} for _ in range(nobj + 1)]
    def rec(parent, kids, ops, left):
        if not left:
            yield {'mode': 'hist', 'docs': docs, 'ops': [list(o) for o in ops]}
            return
        def subtree(x):
            out = [x]
            for k in kids.get(x, []):
                out += subtree(k)
            return out
        def height(x):
            return 1 + max([height(k) for k in kids.get(x, [])] or [0])
        def depth(x):
            return 0 if x not in parent else 1 + depth(parent[x])
        for c in left:
            st = set(subtree(c))
            for p in range(nobj + 1):
                if p in st or depth(p) + height(c) > maxdepth:
                    continue
                parent2 = dict(parent); parent2[c] = p
                kids2 = dict((k, list(v)) for k, v in kids.items()); kids2.setdefault(p, []).append(c)
                for h in rec(parent2, kids2, ops + [(p, c, None)], [x for x in left if x != c]):
                    yield h
    return rec({}, {}, [], list(range(1, nobj + 1)))


def gen_cases(chk, n):
    rng = chk.rng
    for c in FIXED:
        yield c
    for k in ((1, 2, 3, 4) if chk.tier == 'thorough' else (1, 2, 3)):
        for h in all_histories(k):
            yield h
    for i in range(n // 7):
        yield gen_paths(rng)
    for i in range(n // 14):
        yield gen_numbered_hist(rng)
    for i in range(n):
        x = rng.random()
        if x < 0.45:
            yield gen_hist(rng, 'ordered')
        elif x < 0.75:
            yield gen_hist(rng, 'any')
        elif x < 0.8:
            yield gen_hist(rng, 'twice')
        else:
            yield gen_pkg(rng)


def run_case(chk, drv, case, oracle_only=False):
    if case['mode'] == 'hist':
        return run_hist(chk, drv, case, oracle_only)
    return run_pkg(chk, drv, case, oracle_only)


def run(chk, replay=None):
    chk.rule = ('attachment histories over 2-7 documents: 45% parents first (the hypothesis of the theorem), 30% any order, 5% with one '
                'document attached twice or to itself (refused); 30% explicit names from a small pool (duplicates -> ValueError, checked to be atomic); each document with 0-2 pictures, references written into the parent '
                'as draw:object; every built document is saved twice, every saved package is loaded and the loaded document saved three times (second and third time through write() / save(name) / save(name, addsuffix)), references, object folders and the objects\' own files checked against the loaded package each time; 20% hand-made packages with object folders '
                'numbered 7 / 2,5 / 2,1 / 100 ... with pictures, other files and nested objects, 30% of them with 10-12 objects of distinct content and media type, half of those in permuted manifest order; plus ALL histories that attach 1..3 (thorough: 4) '
                'objects in every order under every admissible parent, nesting <= 3; plus n/7 trees of 3-6 documents attached inside-out / in any order / outside-in with 75% explicit path names ("Charts/Sales", "a/b/c", blanks, dots, non-ASCII, same last component) and n/14 holders with explicit numbered names (descending, with gaps, equal to the next default) followed by default names; non-trivial = at least one reference')
    if replay is not None:
        fails, refs, arch = run_case(chk, None, replay['input'], oracle_only=True)
        print('replay: refs=%r' % (refs,))
        print('replay: members=%r' % (arch.names,))
        for sig, d in fails:
            print('replay: %s: %s' % (sig, d))
        return 1 if any(sig == replay.get('signature') for sig, d in fails) else 0
    chk.assumptions.append('attaching the saved document below another one, or a parent into its own subtree, is outside the model (not generated)')
    chk.prove(modules=['OdfModel.Props.C16', 'OdfModel.Props.C16Xml', 'OdfModel.Props.C16Names'], drivers=['drv_pkg'])
    drv = chk.driver('drv_pkg')
    n = 5000 if chk.tier == 'thorough' else 700

    def sweep(cases, oracle_only=False):
        for case in cases:
            fails, refs, arch = run_case(chk, drv, case, oracle_only)
            chk.case(json.dumps(case, sort_keys=True, default=repr)[:4000], nontrivial=bool(refs) or case['mode'] == 'pkg',
                     sample={'mode': case['mode'], 'ops': case.get('ops'), 'nums': case.get('nums'), 'refs': refs, 'members': arch.names[:10]})
            chk.count(case['mode'])
            if case['mode'] == 'hist':
                chk.count('hist_parents_first' if py_parents_first(case) else 'hist_bottom_up')
                chk.count('ops_total', len(case['ops']))
                chk.count('explicit_names', sum(1 for o in case['ops'] if o[2] is not None))
            for sig, d in fails:
                chk.fail(sig, case, d)
            if len(chk.failures) >= 50:
                # the run has failed and no further failing input is recorded (common.fail keeps 50): stop here - a fault that makes
                # every save slower than the one before (state that grows from save to save) must not keep the check from answering
                chk.count('sweep_stopped_after_50_failing_inputs')
                break

    sweep(gen_cases(chk, n))
    chk.deep_search = lambda: sweep(gen_cases(chk, 2 * n), oracle_only=True)
    return chk.finish()

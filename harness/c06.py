# -*- coding: utf-8 -*-
"""C06 - with checks on, the API accepts exactly what the ODF 1.2 schema permits.

translate:      harness/translate_grammar.py: the two .rng files -> Lean `P` term (syntactic), odf/grammar.py dumped,
                factory inventory, name tables  -> lean/OdfModel/Generated/Grammar*.lean
proof:          lean/OdfModel/Props/C06.lean (+ slices Props/C06/S*.lean): for every row of the regenerated tables the
                API model's decision (OdfModel/GrammarApi.lean) equals the schema's (OdfModel/Grammar.lean) or the row
                is in Exceptions / KnownFindings (OdfModel/GrammarExceptions.lean); kernel-evaluated (`decide +kernel`).
correspondence: EXHAUSTIVE sweep of the real API against the model (drv_grammar): every ordered (parent, child) pair
                through addElement (empty parent, filled parent, check_grammar on/off), every (element, keyword)
                through setAttribute, every element x {addText, addCDATA}, every constructor with each required
                attribute left out and with keyword arguments (also on elements without attribute table), every factory.  Decision *and* exception class are compared.
                Histories on ONE parent instance (model: OdfModel/GrammarHist.lean, theorems Props/C06/History.lean, driver `hist`/`histrow`):
                for every (parent, child X) pair the checked addElement is asked while the parent already holds X unchecked (only / first /
                last child; put there by check_grammar=False, appendChild, insertBefore, or by load() from a written package), after a
                legal sibling, after a text node, after a removal; outcomes and childNodes are compared with the model, the decisions with
                the schema, and the content.xml written afterwards is read back with expat.
                The VALUE and the TEXT as dimensions (attr_values / text_strings): every refused keyword again with None, '', 0, False,
                numbers, bytes, a list, an element (setAttribute, **kwargs, attributes=, factory): AttributeError whatever the value;
                every element x ~50 strings (empty, XML white space, every Unicode space/separator, invisible characters, mixtures)
                x {addText, addCDATA, text=, cdata=, unchecked}: a string with a character that is not XML white space is character
                data - accepted and kept iff the schema gives the element character data, else IllegalText and nothing added.
                The model decides from (check, element[, keyword]) alone, so its answer is the expected one for every value / string.
oracle:         the same observed decisions against the schema's answer (Lean semantics via the driver, cross-checked
                by an independent Python reading of the .rng files in this file): a difference that is neither an
                Exception nor a known finding is a violation, named by its row.
"""
import os, sys, re, time, importlib
import common
import translate_grammar as tg

KINDS = ('children', 'text', 'attrs', 'required', 'factory')
VALUE_CANDIDATES = [u'1', u'true', u'a', u'1cm', u'#000000', u'simple', u'0 0 1 1', u'1,1', u'PT1S', u'2000-01-01',
                    u'10%', u'(1 1 1)', u'en', u'a:b', u'0.5', u'1 1', u'none', u'string', u'left', u'text', u'onRequest',
                    u'new', u'embed', u'start', u'page', u'auto', u'normal', u'solid', u'float', u'row', u'ascending']


def sig_of(kind, e, x=None):
    if kind == 'children':
        return 'children:%s>%s' % (e, x)
    if kind in ('attrs', 'required'):
        return '%s:%s@%s' % (kind, e, x)
    return '%s:%s' % (kind, e)


# ---------------------------------------------------------------------------------------------------------------------
# independent reading of the schemas (second opinion on the Lean semantics; shares no code with it: works on the DOM,
# with names as strings, memoised per <define>, no fuel)
# ---------------------------------------------------------------------------------------------------------------------
class SecondOpinion(object):
    def __init__(self, G):
        self.docs = []
        for rel, root, nsmap in G.rng_docs:
            defs = {}
            for d in tg.kids(root):
                if d.localName == 'define':
                    defs.setdefault(d.getAttribute('name'), []).append(d)
            self.docs.append((root, nsmap, defs))
        self.memo = {}
        self.decls = {}          # (ns, local) -> list of (doc index, element node)
        self.any_decls = []
        for di, (root, nsmap, defs) in enumerate(self.docs):
            for el in root.getElementsByTagNameNS(tg.RNGNS, 'element'):
                for q in self.nc_names(di, el)[0]:
                    if q != '*':
                        self.decls.setdefault(q, []).append((di, el))
                    else:
                        self.any_decls.append((di, el))       # <anyName/>: the islands

    def qn(self, di, s):
        p, l = s.strip().split(':', 1)
        return (self.docs[di][1][p], l)

    def nc_names(self, di, e):
        """names of the name class of an <element>/<attribute>, and the content children"""
        if e.hasAttribute('name'):
            return [self.qn(di, e.getAttribute('name'))], tg.kids(e)
        ks = tg.kids(e)
        def ncn(nc):
            if nc.localName == 'name':
                return [self.qn(di, nc.firstChild.data)]
            if nc.localName == 'anyName':
                return ['*']
            if nc.localName == 'choice':
                return [x for k in tg.kids(nc) for x in ncn(k)]
            raise ValueError(nc.localName)
        return ncn(ks[0]), ks[1:]

    def sem(self, di, node):
        """(mayElems, mayText, mayAttrs, mustAttrs) of one pattern node, as (set, bool, set, set)"""
        t = node.localName
        if t == 'ref':
            key = (di, node.getAttribute('name'))
            if key not in self.memo:
                parts = self.docs[di][2][key[1]]
                comb = [p.getAttribute('combine') for p in parts if p.getAttribute('combine')]
                rs = [self.seq(di, tg.kids(p)) for p in parts]
                self.memo[key] = self.join(rs, choice=(len(parts) > 1 and comb[0] == 'choice'))
            return self.memo[key]
        if t == 'element':
            return (set(self.nc_names(di, node)[0]), False, set(), set())
        if t == 'attribute':
            ns = self.nc_names(di, node)[0]
            return (set(), False, set(ns), set(ns) if (len(ns) == 1 and ns[0] != '*') else set())
        if t in ('group', 'interleave'):
            return self.seq(di, tg.kids(node))
        if t == 'choice':
            return self.join([self.sem(di, k) for k in tg.kids(node)], choice=True)
        if t in ('optional', 'zeroOrMore'):
            a = self.seq(di, tg.kids(node))
            return (a[0], a[1], a[2], set())
        if t == 'oneOrMore':
            return self.seq(di, tg.kids(node))
        if t == 'mixed':
            a = self.seq(di, tg.kids(node))
            return (a[0], True, a[2], a[3])
        if t in ('text', 'data', 'value', 'list'):
            return (set(), True, set(), set())
        if t in ('empty', 'notAllowed'):
            return (set(), False, set(), set())
        raise ValueError(t)

    def seq(self, di, nodes):
        return self.join([self.sem(di, k) for k in nodes], choice=False)

    @staticmethod
    def join(rs, choice):
        if not rs:
            return (set(), False, set(), set())
        me = set().union(*[r[0] for r in rs]); mt = any(r[1] for r in rs); ma = set().union(*[r[2] for r in rs])
        if choice:
            must = set(rs[0][3])
            for r in rs[1:]:
                must &= r[3]
        else:
            must = set().union(*[r[3] for r in rs])
        return (me, mt, ma, must)

    def element(self, q):
        ds = self.decls.get(q, [])
        if not ds:
            ds = self.any_decls      # a name no declaration lists is judged by the <anyName/> declarations
        if not ds:
            return None
        rs = [self.seq(di, self.nc_names(di, el)[1]) for di, el in ds]
        must = set(rs[0][3])
        for r in rs[1:]:
            must &= r[3]
        return (set().union(*[r[0] for r in rs]), any(r[1] for r in rs), set().union(*[r[2] for r in rs]), must)


# ---------------------------------------------------------------------------------------------------------------------
class Vocabulary(object):
    """ids <-> names, the Lean-derived schema tables, the exception lists"""
    pass


def parse_ids(s):
    return [] if s == '-' else [(-1 if x == '*' else int(x)) for x in s.split(',')]


def load_model(chk, G, drv):
    V = Vocabulary()
    V.G = G
    V.n = len(G.elems); V.na = len(G.attrs); V.nk = len(G.kws)
    V.EN = G.elem_names; V.AN = G.attr_names; V.KN = G.kws.items
    info = drv.ask('info').split()
    ok = info[:1] == ['ok'] and [int(x) for x in info[1:]] == [V.n, G.n_schema_elems, V.na, G.n_schema_attrs, V.nk, len(G.defnames), G.n_decls]
    chk.obligation('driver tables are the ones just generated (sizes)', ok, ' '.join(info))
    names_ok = (drv.batch('ename %d' % i for i in range(V.n)) == ['ok ' + x for x in V.EN] and
                drv.batch('aname %d' % i for i in range(V.na)) == ['ok ' + x for x in V.AN] and
                drv.batch('kname %d' % i for i in range(V.nk)) == ['ok ' + x for x in V.KN])
    chk.obligation('Lean name tables decode to the translator\'s names', names_ok, '%d+%d+%d names' % (V.n, V.na, V.nk))
    V.S = []
    for a in drv.batch('schema %d' % i for i in range(V.n)):
        p = a.split()
        V.S.append({'elem': p[1] == '1', 'text': p[2] == '1', 'ch': set(parse_ids(p[3])), 'at': set(parse_ids(p[4])),
                    'must': set(parse_ids(p[5]))})
    def rows(op):
        out = []
        for w in drv.ask(op).split()[1:]:
            k, e, x = w.split('|')
            out.append((k, e, x))
        return out
    V.exceptions = rows('exceptions'); V.known_rows = rows('known'); V.prefixes = drv.ask('prefixes').split()[1:]
    return V


def excepted(V, kind, e, x=''):
    """documented exception (Exceptions list / excepted namespace prefix of GrammarExceptions.lean)"""
    if any(e.startswith(p) for p in V.prefixes):
        return True
    return any(k == kind and en == e and (it == x or it == '*') for k, en, it in V.exceptions)


def check_second_opinion(chk, V):
    G = V.G
    so = SecondOpinion(G)
    V.so = so
    bad = []
    for i in range(V.n):
        r = so.element(G.elems.items[i])
        s = V.S[i]
        if r is None:
            if s['elem']:
                bad.append(V.EN[i] + ': Lean says declared')
            continue
        if s['elem'] != (G.elems.items[i] in so.decls):
            bad.append(V.EN[i] + ': declared-by-name differs')
            continue
        conv_e = lambda st: set(-1 if q == '*' else G.elems.ids[q] for q in st)
        conv_a = lambda st: set(-1 if q == '*' else G.attrs.ids[q] for q in st)
        if conv_e(r[0]) != s['ch'] or r[1] != s['text'] or conv_a(r[2]) != s['at'] or conv_a(r[3]) != s['must']:
            bad.append(V.EN[i])
    chk.obligation('Lean RELAX-NG semantics agrees with an independent Python reading of the .rng files on every element',
                   not bad, '%d elements compared; differing: %s' % (V.n, ', '.join(bad[:8]) or 'none'), kind='cross-check')


# ---------------------------------------------------------------------------------------------------------------------
def classify(exc):
    """exception -> the enum of the line protocol"""
    from odf.element import IllegalChild, IllegalText
    if exc is None:
        return 'ok'
    if isinstance(exc, IllegalChild):
        return 'IllegalChild'
    if isinstance(exc, IllegalText):
        return 'IllegalText'
    if isinstance(exc, AttributeError):
        return 'AttributeError'
    if isinstance(exc, ValueError):
        return 'ValueError'
    return 'Other:' + type(exc).__name__


# ---------------------------------------------------------------------------------------------------------------------
# the value handed to setAttribute / the string handed to addText as dimensions of the sweeps
# ---------------------------------------------------------------------------------------------------------------------
XML_WS = u' \t\r\n'          # the four characters XML (and RELAX NG, between elements) treats as white space


def odd_values(Element, Q, EN):
    """(label, value) - what a caller may hand over instead of a string"""
    sty = [i for i, n in enumerate(EN) if n == 'style:style']
    q = Q[sty[0]] if sty else Q[0]
    return [('None', None), ("u''", u''), ('0', 0), ('False', False), ('True', True), ('1', 1), ('2.5', 2.5), ("b''", b''),
            ("b'1'", b'1'), ('[]', []), ('an element <%s>' % (EN[sty[0]] if sty else EN[0]), Element(qname=q, check_grammar=False))]


def attr_value_call(Element, qname, route, kw, value, factory=None):
    """-> (outcome, attributes left behind): outcome A = AttributeError, ok = returned, X<class> = another exception"""
    el = None
    try:
        if route == 'setAttribute':
            el = Element(qname=qname, check_grammar=False)
            el.setAttribute(kw, value)
        elif route == '**kwargs':
            el = Element(qname=qname, check_grammar=False, **{kw: value})
        elif route == 'attributes=':
            el = Element(qname=qname, check_grammar=False, attributes={kw: value})
        elif route == 'factory':
            el = factory(check_grammar=False, **{kw: value})
        o = 'ok'
    except AttributeError:
        o = 'A'
    except Exception as ex:
        o = 'X' + type(ex).__name__
    left = sorted(el.attributes) if (el is not None and route == 'setAttribute') else []
    return o, left


def text_strings(rng):
    """(label, string): empty, XML white space, every other Unicode space / separator / str.isspace() character, invisible
    format characters, mixtures (fixed and drawn), strings with a letter"""
    import unicodedata
    lab = lambda s: ' '.join('U+%04X' % ord(c) for c in s) or 'the empty string'
    out = [u'', u' ', u'\t', u'\n', u'\r', u' \t\r\n ', u'\n  ']
    singles = []
    for cp in range(0x10000):
        if 0xD800 <= cp <= 0xDFFF:
            continue
        ch = chr(cp)
        if ch in XML_WS:
            continue
        if ch.isspace() or unicodedata.category(ch) in ('Zs', 'Zl', 'Zp'):
            singles.append(ch)
    singles += [u'\u200b', u'\u2060', u'\ufeff', u'\u180e', u'\u00ad', u'\u200e']       # invisible, not spaces to anybody
    out += singles
    out += [u' \u00a0 ', u'\n\u3000\t', u'\u2003\u2003', u'\u2009\u200a\u202f', u'\u001c\u001d\u001e\u001f', u'\u0085\n', u'\u00a0\u00a0\u00a0',
            u'x', u' x ', u'\u00a0x', u'0']
    for _ in range(4):
        n = rng.randint(2, 6)
        s = u''.join(rng.choice(singles[:-6] + list(XML_WS)) for _ in range(n))
        if all(c in XML_WS for c in s):
            s += rng.choice(singles[:-6])
        out.append(s)
    seen, res = set(), []
    for s in out:
        if s not in seen:
            seen.add(s); res.append((lab(s), s))
    return res


def text_string_call(Element, qname, route, check, s):
    """-> (outcome, [(nodeType, data) of the children afterwards])"""
    el = None
    try:
        if route in ('text=', 'cdata='):
            el = Element(qname=qname, check_grammar=False, **{route[:-1]: s})
        else:
            el = Element(qname=qname, check_grammar=False)
            if check:
                getattr(el, route)(s)
            else:
                getattr(el, route)(s, check_grammar=False)
        o = 'ok'
    except Exception as ex:
        o = 'err ' + classify(ex)
    nodes = [(k.nodeType, getattr(k, 'data', None)) for k in el.childNodes] if el is not None else []
    return o, nodes


class Sweep(object):
    def __init__(self, chk, V, drv):
        self.chk, self.V, self.drv = chk, V, drv
        from odf import element
        self.element = element
        self.Element = element.Element
        self.values = {}
        self.reported = {}
        self.first_children = []
        self.first_text = []
        self.first_ctor = {}
        self.first_attrs = []
        self.by_kw = None
        self.unresolved = []
        self.loaded = None

    # ---- schema decisions, by id
    def schema_child(self, p, c):
        s = self.V.S[p]['ch']
        return (-1 in s) or (c in s)

    def report(self, kind, e, x, detail, case):
        """the real API differs from the schema on this row"""
        V = self.V
        en = V.EN[e]
        xn = '' if x is None else ('*' if x == '*' else (V.EN[x] if kind == 'children' else V.AN[x]))
        self.chk.count('schema_diff_' + kind)
        self.reported[kind] = self.reported.get(kind, 0)
        if excepted(V, kind, en, xn):
            self.chk.count('excepted_' + kind)
            return
        # a wildcard known finding covers the whole row
        star = sig_of(kind, en, '*')
        if xn != '*' and kind in ('children', 'attrs') and any(k['sig'] == star for k in self.chk.known):
            self.chk.fail(star, case, detail)
            return
        sig = sig_of(kind, en, xn)
        if not any(k['sig'] == sig for k in self.chk.known):
            # an unlisted row: a violation.  Keep the report readable when a logic change makes thousands of rows differ
            self.reported[kind] += 1
            if self.reported[kind] > 8:
                self.chk.count('further_unlisted_rows_' + kind)
                return
        self.chk.fail(sig, case, detail)

    def constructible(self):
        """every element must at least be constructible with check_grammar=False (what load() and the factories' bare call
        do); one that is not (a table row of a shape __init__ chokes on) is reported with that call and left out of the
        sweeps, which would otherwise stop at it"""
        chk, V, Element = self.chk, self.V, self.Element
        self.dead = set()
        for e in range(V.n):
            try:
                Element(qname=V.G.elems.items[e], check_grammar=False)
            except Exception as ex:
                self.dead.add(e)
                chk.count('elements_not_constructible')
                if len(self.dead) <= 8:
                    chk.fail('construct:%s' % V.EN[e], {'op': 'Element()', 'element': V.EN[e], 'given': [], 'check_grammar': False},
                             'Element(qname=<%s>, check_grammar=False) raises %s: %s' % (V.EN[e], type(ex).__name__, str(ex)[:80]))
        self.live = [e for e in range(V.n) if e not in self.dead]

    def cap(self, key, limit=8):
        self.reported[key] = self.reported.get(key, 0) + 1
        return self.reported[key] <= limit

    def history_fail(self, what, calls, detail):
        """the outcome of a call depended on earlier calls: a violation whose replay is the call history"""
        self.reported['history'] = self.reported.get('history', 0) + 1
        self.chk.count('history_dependent_decisions')
        if self.reported['history'] > 8:
            return
        self.chk.fail('history:' + what, {'op': 'history', 'calls': calls}, detail)

    # ---- addElement
    def children(self):
        chk, V, drv, Element = self.chk, self.V, self.drv, self.Element
        IllegalChild = self.element.IllegalChild
        Q = V.G.elems.items
        n = V.n
        model_on = drv.batch('addrow 1 %d' % p for p in range(n))
        model_off = drv.batch('addrow 0 %d' % p for p in range(n))
        for p in range(n):
            if p in self.dead:
                self.first_children.append('X' * n); continue
            qp = Q[p]
            mo = model_on[p].split()[1]; mf = model_off[p].split()[1]
            filled = Element(qname=qp, check_grammar=False)
            sany = -1 in V.S[p]['ch']; sch = V.S[p]['ch']
            row_diff = []
            first = []
            for c in range(n):
                if c in self.dead:
                    first.append('X'); continue
                qc = Q[c]
                # one history per pair, fresh elements for every call (only `filled` is shared along the row):
                #   checked on an empty parent, checked on a filled parent, UNCHECKED, checked again, checked through parent=
                # The decision must be a function of (tables, arguments): the two last calls must repeat the first.
                obs = []
                for step in range(5):
                    parent = filled if step == 1 else Element(qname=qp, check_grammar=False)
                    try:
                        if step == 4:
                            child = Element(qname=qc, check_grammar=False, parent=parent)
                        else:
                            child = Element(qname=qc, check_grammar=False)
                            if step == 2:
                                parent.addElement(child, check_grammar=False)
                            else:
                                parent.addElement(child)
                        r = '.' if child.parentNode is parent else '?'
                    except IllegalChild:
                        r = 'C'
                    except Exception as e:
                        r = 'X' + type(e).__name__
                    obs.append(r)
                first.append(obs[0] if len(obs[0]) == 1 else 'X')
                if c == 0 and not filled.childNodes:
                    filled.addElement(Element(qname=qc, check_grammar=False), check_grammar=False)
                chk.corr(5)
                want_model = [mo[c], mo[c], mf[c], mo[c], mo[c]]
                if obs != want_model:
                    chk.corr_diff({'op': 'addElement', 'parent': V.EN[p], 'child': V.EN[c]}, obs, want_model,
                                  'addElement: checked on an empty parent / checked on a filled parent / check_grammar=False / checked again / through parent= '
                                  '(. accepted, C IllegalChild)')
                if obs[3] != obs[0] or obs[4] != obs[0]:
                    self.history_fail('children:%s>%s' % (V.EN[p], V.EN[c]),
                                      [{'op': 'addElement', 'parent': V.EN[p], 'child': V.EN[c], 'check_grammar': True, 'observed': obs[0]},
                                       {'op': 'addElement', 'parent': V.EN[p], 'child': V.EN[c], 'check_grammar': False, 'observed': obs[2]},
                                       {'op': 'addElement', 'parent': V.EN[p], 'child': V.EN[c], 'check_grammar': True, 'observed': obs[3]},
                                       {'op': 'addElement', 'parent': V.EN[p], 'child': V.EN[c], 'check_grammar': True, 'via': 'parent=', 'observed': obs[4]}],
                                      'the same checked addElement(%s) on a fresh <%s> gave %s before and %s / %s (parent=) after an unchecked call of the same pair'
                                      % (V.EN[c], V.EN[p], obs[0], obs[3], obs[4]))
                want = sany or (c in sch)
                for k, o in ((0, obs[0]), (1, obs[1]), (0, obs[3]), (0, obs[4])):
                    if (o == '.') != want or o not in '.C':
                        row_diff.append((c, o, want, k))
                        break
                if obs[2] != '.' and self.cap('unchecked'):
                    chk.fail('unchecked:children:%s>%s' % (V.EN[p], V.EN[c]), {'op': 'addElement', 'parent': V.EN[p], 'child': V.EN[c], 'check_grammar': False},
                             'addElement(check_grammar=False) did not accept the child: %s' % obs[2])
            self.first_children.append(''.join(first))
            chk.case(('children', p), nontrivial=V.S[p]['elem'], sample={'parent': V.EN[p], 'accepted': mo.count('.'), 'of': n} if p % 97 == 0 else None)
            chk.count('addElement_calls', 5 * n)
            if (mo.count('.') == n) != sany and [d for d in row_diff if d[0] < n]:
                # one side has no list at all (anything goes): a difference of the whole row, not of single pairs
                c, o, want, k = row_diff[0]
                self.report('children', p, '*',
                            ('<%s> accepts every child (no allowed_children row), the schema lists %d' % (V.EN[p], len(sch))) if not sany else
                            ('the schema permits any child in <%s>, the table lists some' % V.EN[p]),
                            {'op': 'addElement', 'parent': V.EN[p], 'child': V.EN[c], 'filled': bool(k)})
                row_diff = []
            for c, o, want, k in row_diff:
                self.report('children', p, c,
                            'addElement(%s) on <%s>%s: %s; schema %s' % (V.EN[c], V.EN[p], ' (parent already has a child)' if k else '',
                                                                      'accepted' if o == '.' else ('IllegalChild' if o == 'C' else o),
                                                                      'permits' if want else 'does not permit'),
                            {'op': 'addElement', 'parent': V.EN[p], 'child': V.EN[c], 'filled': bool(k)})

    # ---- addText / addCDATA
    def text(self):
        chk, V, drv, Element = self.chk, self.V, self.drv, self.Element
        Q = V.G.elems.items
        lines = []
        for e in range(V.n):
            lines += ['text 1 %d' % e, 'cdata 1 %d' % e, 'text 0 %d' % e, 'cdata 0 %d' % e]
        ans = drv.batch(lines)
        self.model_text = ans
        for e in range(V.n):
            if e in self.dead:
                self.first_text.append(None); continue
            obs = []
            for op, check in (('addText', True), ('addCDATA', True), ('addText', False), ('addCDATA', False)):
                el = Element(qname=Q[e], check_grammar=False)
                try:
                    if check:
                        getattr(el, op)(u'x')
                    else:
                        getattr(el, op)(u'x', check_grammar=False)
                    r = 'ok' if (len(el.childNodes) == 1 and el.childNodes[0].nodeType == (3 if op == 'addText' else 4)) else 'err NoNode'
                except Exception as ex:
                    r = 'err ' + classify(ex)
                obs.append(r)
            # history: the checked calls again after the unchecked ones, and through the text= / cdata= constructor arguments
            for op in ('addText', 'addCDATA', 'text=', 'cdata='):
                try:
                    if op.endswith('='):
                        el = Element(qname=Q[e], check_grammar=False, **{op[:-1]: u'x'})
                    else:
                        el = Element(qname=Q[e], check_grammar=False)
                        getattr(el, op)(u'x')
                    r = 'ok' if (len(el.childNodes) == 1 and el.childNodes[0].nodeType == (3 if op in ('addText', 'text=') else 4)) else 'err NoNode'
                except Exception as ex:
                    r = 'err ' + classify(ex)
                obs.append(r)
            self.first_text.append(tuple(obs[:2]))
            chk.corr(8)
            m4 = ans[4 * e:4 * e + 4]
            if obs != m4 + m4[:2] + m4[:2]:
                chk.corr_diff({'op': 'addText/addCDATA', 'element': V.EN[e]}, obs, m4 + m4[:2] + m4[:2],
                              'addText, addCDATA, both with check_grammar=False, both checked again, text= and cdata= of the constructor')
            if obs[4:6] != obs[0:2] or obs[6:8] != obs[0:2]:
                self.history_fail('text:%s' % V.EN[e],
                                  [{'op': o_, 'element': V.EN[e], 'check_grammar': c_, 'observed': r_} for o_, c_, r_ in
                                   zip(('addText', 'addCDATA', 'addText', 'addCDATA', 'addText', 'addCDATA', 'text=', 'cdata='),
                                       (True, True, False, False, True, True, True, True), obs)],
                                  'checked addText/addCDATA on a fresh <%s>: %s before, %s / %s after the unchecked calls' % (V.EN[e], obs[0:2], obs[4:6], obs[6:8]))
            chk.case(('text', e), nontrivial=V.S[e]['elem'])
            want = V.S[e]['text']
            for op, o in zip(('addText', 'addCDATA', 'addText', 'addCDATA', 'text=', 'cdata='), obs[:2] + obs[4:]):
                if (o == 'ok') != want or o not in ('ok', 'err IllegalText'):
                    self.report('text', e, None, '%s on <%s>: %s; schema %s text' % (op, V.EN[e], o, 'permits' if want else 'does not permit'),
                                {'op': op, 'element': V.EN[e]})
                    break
            for op, o in zip(('addText', 'addCDATA'), obs[2:]):
                if o != 'ok':
                    chk.fail('unchecked:text:%s' % V.EN[e], {'op': op, 'element': V.EN[e], 'check_grammar': False}, '%s(check_grammar=False): %s' % (op, o))
        chk.count('text_calls', 8 * V.n)

    def resolve_by_get(self, e, kw):
        """which attribute does the keyword stand for on element e, as the library itself resolves it in getAttribute()"""
        V = self.V
        if self.by_kw is None:
            self.by_kw = {}
            for a, q in enumerate(V.G.attrs.items):
                self.by_kw.setdefault(tg.kw_of(q[1]), []).append(a)
        hits = []
        for a in self.by_kw.get(kw, []):
            el = self.Element(qname=V.G.elems.items[e], check_grammar=False)
            el.attributes[V.G.attrs.items[a]] = u'probe-c06'
            try:
                if el.getAttribute(kw) == u'probe-c06':
                    hits.append(a)
            except Exception:
                pass
        return str(hits[0]) if len(hits) == 1 else 'value-refused'

    # ---- setAttribute by keyword
    def good_value(self, attr_q, el):
        key = (attr_q, el.qname)
        if key not in self.values:
            from odf.attrconverters import AttrConverters
            c = AttrConverters()
            found = None
            for v in VALUE_CANDIDATES:
                try:
                    c.convert(attr_q, v, el)
                    found = v
                    break
                except Exception:
                    continue
            self.values[key] = found
        return self.values[key]

    def attributes(self):
        chk, V, drv, Element = self.chk, self.V, self.drv, self.Element
        Q = V.G.elems.items; AQ = V.G.attrs.items; KN = V.KN
        aid = V.G.attrs.ids
        kw_of_attr = V.G.attr_kw
        model = drv.batch('setrow 1 %d' % e for e in range(V.n))
        thorough = chk.tier == 'thorough'
        model_off = drv.batch('setrow 0 %d' % e for e in range(V.n))
        self.model_attrs = model
        for e in range(V.n):
            if e in self.dead:
                self.first_attrs.append([]); continue
            m = model[e].split()[1:]
            mf = model_off[e].split()[1:]
            el = Element(qname=Q[e], check_grammar=False)
            sat = V.S[e]['at']
            accepted_kw = {}
            first_row = []
            for k in range(V.nk):
                kw = KN[k]
                # the value must suit whatever attribute the keyword resolves to; the model says which (tie checked below)
                val = u'1'
                if m[k] not in ('A', 'V'):
                    val = self.good_value(AQ[int(m[k])], el) or u'1'
                before = set(el.attributes)
                try:
                    el.setAttribute(kw, val)
                    new = [a for a in el.attributes if a not in before]
                    if len(new) == 1 and new[0] in aid:
                        r = str(aid[new[0]])
                    elif not new:
                        # overwritten an attribute set through an earlier keyword?  cannot happen: keywords are distinct
                        r = 'ok-nothing-new'
                    else:
                        r = 'ok-unknown:%r' % (new,)
                    for a in new:
                        del el.attributes[a]
                except AttributeError as ex:
                    r = 'A'           # the class is the protocol, not the message (value converters raise ValueError only)
                except ValueError as ex:
                    # the name was accepted, the value refused (C15's business); which attribute it was cannot be observed
                    # Observed through a keyword-free route: store a probe under each qualified name whose local name gives this
                    # keyword and ask the library which one getAttribute(keyword) reads - its own resolution, no model involved.
                    chk.count('setAttribute_value_refused')
                    r = self.resolve_by_get(e, kw)
                    if r == 'value-refused':
                        self.unresolved.append('%s@%s' % (V.EN[e], kw))
                except Exception as ex:
                    r = 'X' + type(ex).__name__
                chk.corr()
                first_row.append(r)
                if r != m[k]:
                    chk.corr_diff({'op': 'setAttribute', 'element': V.EN[e], 'keyword': kw}, r, m[k],
                                  'attribute id stored by setAttribute(keyword) / A = AttributeError')
                if r not in ('A',):
                    accepted_kw[k] = r
                # history: the unchecked call (resolves the same way, or ValueError from list.index), then the checked call again
                try:
                    b2 = set(el.attributes)
                    el.setAttribute(kw, val, check_grammar=False)
                    new = [a for a in el.attributes if a not in b2]
                    r2 = str(aid[new[0]]) if len(new) == 1 and new[0] in aid else 'ok-?'
                    for a in new:
                        del el.attributes[a]
                except AttributeError:
                    r2 = 'A'
                except ValueError as ex:
                    # ValueError: either the keyword is not listed (list.index / an explicit raise) or the value was refused;
                    # the checked call above OBSERVED whether the keyword is listed: then the value was refused, else list.index raised
                    r2 = r if r.isdigit() else ('V' if r == 'A' else 'value-refused')
                except Exception as ex:
                    r2 = 'X' + type(ex).__name__
                try:
                    b3 = set(el.attributes)
                    el.setAttribute(kw, val)
                    new = [a for a in el.attributes if a not in b3]
                    r3 = str(aid[new[0]]) if len(new) == 1 and new[0] in aid else 'ok-?'
                    for a in new:
                        del el.attributes[a]
                except AttributeError:
                    r3 = 'A'
                except ValueError:
                    r3 = self.resolve_by_get(e, kw)
                except Exception as ex:
                    r3 = 'X' + type(ex).__name__
                chk.corr(2)
                if r2 != mf[k] or r3 != m[k]:
                    chk.corr_diff({'op': 'setAttribute', 'element': V.EN[e], 'keyword': kw, 'history': 'checked, check_grammar=False, checked'}, [r, r2, r3], [m[k], mf[k], m[k]],
                                  'setAttribute(keyword): checked / check_grammar=False / checked again')
                if r3 != r:
                    self.history_fail('attrs:%s@%s' % (V.EN[e], kw),
                                      [{'op': 'setAttribute', 'element': V.EN[e], 'keyword': kw, 'check_grammar': c_, 'observed': o_}
                                       for c_, o_ in ((True, r), (False, r2), (True, r3))],
                                      'checked setAttribute(%r) on <%s>: %s before and %s after the unchecked call' % (kw, V.EN[e], r, r3))
            self.first_attrs.append(first_row)
            chk.count('setAttribute_calls', 3 * V.nk)
            chk.case(('attrs', e), nontrivial=V.S[e]['elem'], sample={'element': V.EN[e], 'keywords_accepted': len(accepted_kw)} if e % 101 == 0 else None)
            # sound: an accepted keyword lands on an attribute the schema permits
            for k, r in sorted(accepted_kw.items()):
                if r.isdigit():
                    a = int(r)
                    if not ((-1 in sat) or (a in sat)):
                        self.report('attrs', e, a, 'setAttribute(%r) on <%s> stored %s, which the schema does not permit there' % (KN[k], V.EN[e], V.AN[a]),
                                    {'op': 'setAttribute', 'element': V.EN[e], 'keyword': KN[k]})
                else:
                    chk.fail('setattr-odd:%s@%s' % (V.EN[e], KN[k]), {'op': 'setAttribute', 'element': V.EN[e], 'keyword': KN[k]}, 'unexpected outcome %s' % r)
            # complete: the keyword of every permitted attribute is accepted
            for a in sorted(sat):
                if a == -1:
                    if not accepted_kw:
                        self.report('attrs', e, '*', 'the schema permits any attribute on <%s>; no keyword is accepted' % V.EN[e],
                                    {'op': 'setAttribute', 'element': V.EN[e], 'keyword': '*'})
                    continue
                if kw_of_attr[a] not in accepted_kw:
                    self.report('attrs', e, a, 'the schema permits %s on <%s>; setAttribute(%r) raises AttributeError' % (V.AN[a], V.EN[e], KN[kw_of_attr[a]]),
                                {'op': 'setAttribute', 'element': V.EN[e], 'keyword': KN[kw_of_attr[a]]})
        chk.count('values_without_accepted_candidate', sum(1 for v in self.values.values() if v is None))
        if self.unresolved:
            chk.notes.append('setAttribute accepted the keyword but no probe value, and getAttribute() did not single out the attribute: %s' % ', '.join(self.unresolved[:20]))

    # ---- setAttribute: the VALUE as a dimension of the keyword sweep
    def attr_values(self):
        """`Setting an attribute by keyword succeeds iff the schema permits it for that element; a refusal raises AttributeError`
        speaks of the element and the keyword only: for a keyword that is refused, the refusal must not depend on the VALUE
        handed over.  For every element, a set of refused keywords (the made-up ones, keywords other elements have - drawn; in the
        thorough tier every keyword) is given again with each of odd_values() (None, '', 0, False, numbers, bytes, a list, an element)
        through setAttribute, the constructor's **kwargs and attributes= and the element's factory function.  Which keywords are
        refused is what the attributes() sweep OBSERVED with a string value (and judged against the schema, row by row); here every
        other value must be refused with AttributeError as well and leave no attribute behind.  Model: OdfModel.GrammarApi.setAttribute
        decides from (check, element, keyword) alone, so its answer `A` is the expected outcome for every value (correspondence)."""
        chk, V, Element = self.chk, self.V, self.Element
        Q = V.G.elems.items; KN = V.KN
        thorough = chk.tier == 'thorough'
        values = odd_values(Element, Q, V.EN)
        kidx = dict((k, i) for i, k in enumerate(KN))
        bogus = [kidx[b] for b in tg.BOGUS_KEYWORDS if b in kidx]
        factory_of = {}
        for mn, fn, q, note in V.G.factories:
            if q is not None and q not in factory_of:
                factory_of[q] = (mn, fn)
        ncalls = 0
        for e in self.live:
            row = self.first_attrs[e]
            if not row:
                continue
            m = self.model_attrs[e].split()[1:]
            sat = V.S[e]['at']
            permitted_kw = set(V.G.attr_kw[a] for a in sat if a != -1)
            refused = [k for k in range(V.nk) if row[k] == 'A' and KN[k] != 'parent']
            if not refused:
                continue
            if thorough:
                ks = [k for k in bogus if k in refused] + [k for k in refused if k not in bogus]
            else:
                rest = [k for k in refused if k not in bogus]
                ks = [k for k in bogus if k in refused] + chk.rng.sample(rest, min(9, len(rest)))
            fac = None
            if e in factory_of:
                try:
                    fac = getattr(importlib.import_module('odf.' + factory_of[e][0]), factory_of[e][1])
                except Exception:
                    fac = None
            for j, k in enumerate(ks):
                kw = KN[k]
                routes = ['setAttribute']
                if j < 4:
                    routes += ['**kwargs', 'attributes=']
                    # the factory is only a route when it refuses the keyword for an ordinary value itself
                    if fac is not None and attr_value_call(Element, Q[e], 'factory', kw, u'1', fac)[0] == 'A':
                        routes.append('factory')
                # thorough tier: every refused keyword with None, '' and 0; the full value list for the first 40 of them
                for label, v in (values if (not thorough or j < 40) else values[:3]):
                    for route in routes:
                        o, left = attr_value_call(Element, Q[e], route, kw, v, fac)
                        ncalls += 1
                        chk.corr()
                        if o != m[k]:
                            chk.corr_diff({'op': 'setAttribute-value', 'element': V.EN[e], 'keyword': kw, 'value': label, 'route': route}, o, m[k],
                                          'a keyword the model refuses (A = AttributeError), given with a value that is not a string')
                        if o != 'A' or left:
                            chk.count('refusal_depends_on_value')
                            if self.cap('attr-value'):
                                want = (-1 in sat) or (k in permitted_kw)
                                chk.fail('value:attrs:%s@%s' % (V.EN[e], kw),
                                         {'op': 'setAttribute-value', 'element': V.EN[e], 'keyword': kw, 'value': label, 'route': route},
                                         '%s on <%s> with keyword %r: refused with AttributeError for a string value, but with the value %s: %s%s; '
                                         'the schema %s an attribute of that keyword on <%s>, whatever its value' % (
                                             route, V.EN[e], kw, label, {'ok': 'accepted'}.get(o, o), ' (attributes left behind: %r)' % (left,) if left else '',
                                             'permits' if want else 'does not permit', V.EN[e]))
            chk.case(('attr-values', e), nontrivial=V.S[e]['elem'],
                     sample={'element': V.EN[e], 'refused_keywords_tried': [KN[k] for k in ks[:5]], 'values': [l for l, _ in values]} if e % 173 == 0 else None)
        chk.count('setAttribute_value_calls', ncalls)

    # ---- addText / addCDATA / text= / cdata=: the TEXT as a dimension of the text sweep
    def text_strings(self):
        """The schema's content models either have character data or have none; to the schema a NO-BREAK SPACE, an IDEOGRAPHIC SPACE,
        a LINE SEPARATOR or U+001C are characters like any other.  Only text made of the four XML white space characters (and the
        empty string) is `no character data` to a RELAX NG validator.  For every element and every string of text_strings()
        (empty, each XML white space character, every Unicode space/separator/str.isspace() character, invisible format characters,
        mixtures, drawn mixtures, strings with a letter): addText, addCDATA, text=, cdata= with checks on, addText/addCDATA with
        check_grammar=False.
        oracle: a string with at least one character that is not XML white space is character data: accepted (and kept, node data
        == the string) iff the schema gives the element character data, else IllegalText and no node; unchecked it goes through
        and is kept.  Strings of XML white space only / the empty string: either of the two outcomes is tolerated (refused with
        IllegalText and nothing added; or accepted), nothing else.
        correspondence: OdfModel.GrammarApi.addText/addCDATA decide from (check, element) alone: the same answer for every string."""
        chk, V, Element = self.chk, self.V, self.Element
        Q = V.G.elems.items
        strings = text_strings(chk.rng)
        ans = self.model_text
        ncalls = 0
        routes = (('addText', True), ('addCDATA', True), ('text=', True), ('cdata=', True), ('addText', False), ('addCDATA', False))
        for e in self.live:
            if self.first_text[e] is None:
                continue
            want = V.S[e]['text']
            base = dict(zip(('addText', 'addCDATA'), self.first_text[e]))
            m4 = ans[4 * e:4 * e + 4]
            model = {('addText', True): m4[0], ('addCDATA', True): m4[1], ('text=', True): m4[0], ('cdata=', True): m4[1],
                     ('addText', False): m4[2], ('addCDATA', False): m4[3]}
            for label, s in strings:
                ignorable = all(c in XML_WS for c in s)
                for route, check in routes:
                    o, nodes = text_string_call(Element, Q[e], route, check, s)
                    ncalls += 1
                    kind = 3 if route in ('addText', 'text=') else 4
                    kept = nodes == [(kind, s)] or (s == u'' and nodes == [])
                    # the protocol's answer: ok = returned and the string is what the element holds now
                    r = o if o != 'ok' else ('ok' if kept else 'err NoNode')
                    chk.corr()
                    if r != model[(route, check)]:
                        chk.corr_diff({'op': 'text-string', 'element': V.EN[e], 'route': route, 'check_grammar': check, 'codepoints': [ord(c) for c in s]},
                                      r, model[(route, check)], 'addText/addCDATA/text=/cdata= with the string %s' % label)
                    case = {'op': 'text-string', 'element': V.EN[e], 'route': route, 'check_grammar': check, 'codepoints': [ord(c) for c in s], 'string': label}
                    if not check:
                        if r != 'ok':
                            chk.count('text_string_unchecked_not_kept')
                            if self.cap('text-string-unchecked'):
                                chk.fail('unchecked:text-string:%s' % V.EN[e], case,
                                         '%s(%s, check_grammar=False) on <%s>: %s, the element holds %r afterwards' % (route, label, V.EN[e], o, nodes))
                        continue
                    if ignorable:
                        fine = (o == 'err IllegalText' and not nodes) or (o == 'ok' and (kept or not nodes)) if not want else (o == 'ok' and kept)
                    else:
                        fine = (o == 'ok' and kept) if want else (o == 'err IllegalText' and not nodes)
                    if fine:
                        continue
                    b = base[{'text=': 'addText', 'cdata=': 'addCDATA'}.get(route, route)]
                    if o == b and ((o == 'ok' and kept) or (o != 'ok' and not nodes)):
                        # the same outcome as for the string 'x': a difference of the element's row, judged by the text() sweep
                        chk.count('text_string_row_difference_judged_by_text_sweep')
                        continue
                    chk.count('text_decision_depends_on_string')
                    if self.cap('text-string'):
                        chk.fail('text-string:%s' % V.EN[e], case,
                                 '%s(%s) on <%s>: %s, the element holds %s afterwards; the schema gives <%s> %s, and %s; with the string \'x\' the same call: %s' % (
                                     route, label, V.EN[e], {'ok': 'accepted'}.get(o, o), nodes or 'nothing', V.EN[e],
                                     'character data' if want else 'no character data',
                                     'the string is XML white space only' if ignorable else 'the string has characters that are not XML white space (character data to the schema)', b))
            chk.case(('text-strings', e), nontrivial=V.S[e]['elem'],
                     sample={'element': V.EN[e], 'strings': len(strings), 'schema_text': want} if e % 191 == 0 else None)
        chk.count('text_string_calls', ncalls)
        chk.count('text_strings_per_element', len(strings))

    # ---- constructor
    def constructors(self):
        chk, V, drv, Element = self.chk, self.V, self.drv, self.Element
        Q = V.G.elems.items; AQ = V.G.attrs.items
        T = V.G.py_tables
        aid = V.G.attrs.ids
        cases = []
        for e in range(V.n):
            if e in self.dead:
                continue
            treq = [aid[a] for a in T['required_attributes'].get(Q[e], [])]
            R = list(treq) + sorted(a for a in V.S[e]['must'] if a not in treq)
            # history per case: checked, check_grammar=False, checked again (the repeat must give the first outcome)
            cases.append((e, None, R, True)); cases.append((e, None, [], True)); cases.append((e, None, [], False)); cases.append((e, None, [], True))
            for r in R:
                given = [a for a in R if a != r]
                cases.append((e, r, given, True)); cases.append((e, r, given, False)); cases.append((e, r, given, True))
        ans = drv.batch('ctor %d %d %s' % (1 if chk_on else 0, e, ','.join(map(str, given)) or '-') for e, r, given, chk_on in cases)
        for (e, r, given, chk_on), m in zip(cases, ans):
            probe = Element(qname=Q[e], check_grammar=False)
            qattrs = {}
            skip = False
            for a in given:
                v = self.good_value(AQ[a], probe)
                if v is None:
                    skip = True
                qattrs[AQ[a]] = v
            if skip:
                chk.count('ctor_skipped_no_value'); continue
            try:
                el = Element(qname=Q[e], qattributes=qattrs, check_grammar=chk_on)
                o = 'ok'
            except AttributeError as ex:
                mm = re.match(r'Required attribute missing: (\S+) in <', str(ex))
                o = 'err AttributeError ' + (mm.group(1) if mm else '?')
            except Exception as ex:
                o = 'err ' + classify(ex)
            mk = m
            if m.startswith('err AttributeError '):
                mk = 'err AttributeError ' + V.KN[V.G.attr_kw[int(m.split()[2])]]
            chk.corr()
            if o != mk:
                chk.corr_diff({'op': 'Element()', 'element': V.EN[e], 'given': [V.AN[a] for a in given], 'check_grammar': chk_on}, o, mk,
                              'constructor outcome and the attribute named in the message')
            chk.count('constructor_calls')
            key = (e, r, tuple(given))
            if chk_on:
                if key in self.first_ctor and self.first_ctor[key] != o:
                    self.history_fail('required:%s@%s' % (V.EN[e], V.AN[r] if r is not None else '-'),
                                      [{'op': 'Element()', 'element': V.EN[e], 'given': [V.AN[a] for a in given], 'check_grammar': c_} for c_ in (True, False, True)],
                                      'Element(<%s>) given %s: %s before and %s after the same call with check_grammar=False' % (V.EN[e], [V.AN[a] for a in given], self.first_ctor[key], o))
                self.first_ctor.setdefault(key, o)
            if not chk_on:
                if o != 'ok':
                    chk.fail('unchecked:required:%s' % V.EN[e], {'op': 'Element()', 'element': V.EN[e], 'given': [V.AN[a] for a in given], 'check_grammar': False},
                             'constructor with check_grammar=False raised: %s' % o)
                continue
            if r is not None:
                chk.case(('required', e, r), nontrivial=True, sample={'element': V.EN[e], 'left_out': V.AN[r], 'outcome': o} if (e + r) % 211 == 0 else None)
                want_fail = r in V.S[e]['must']
                if (o != 'ok') != want_fail or (o != 'ok' and not o.startswith('err AttributeError')):
                    self.report('required', e, r, 'Element(<%s>) without %s: %s; the schema %s it' % (V.EN[e], V.AN[r], o, 'requires' if want_fail else 'does not require'),
                                {'op': 'Element()', 'element': V.EN[e], 'left_out': V.AN[r]})
            elif given or not (set(V.S[e]['must']) | set(aid[a] for a in T['required_attributes'].get(Q[e], []))):
                # everything required (by table and schema) present: must construct
                if o != 'ok':
                    self.reported['allgiven'] = self.reported.get('allgiven', 0) + 1
                    chk.count('complete_element_refused')
                if o != 'ok' and self.reported['allgiven'] <= 8:
                    chk.fail('required-all-given:%s' % V.EN[e], {'op': 'Element()', 'element': V.EN[e], 'given': [V.AN[a] for a in given]},
                             'constructor refused although every required attribute was given: %s' % o)

    # ---- constructor with keyword arguments (since /repo 36c2235 every keyword goes through setAttribute,
    #      also on elements without an allowed_attributes row, and whatever check_grammar the constructor got)
    def constructor_keywords(self):
        chk, V, drv, Element = self.chk, self.V, self.drv, self.Element
        Q = V.G.elems.items; AQ = V.G.attrs.items; KN = V.KN
        T = V.G.py_tables
        aid = V.G.attrs.ids
        kidx = dict((k, i) for i, k in enumerate(KN))
        bogus = kidx[tg.BOGUS_KEYWORDS[0]]
        cases = []
        for e in range(V.n):
            if e in self.dead:
                continue
            row = T['allowed_attributes'].get(Q[e])
            treq = [aid[a] for a in T['required_attributes'].get(Q[e], [])]
            ks = [[bogus]]
            if row:
                k0 = V.G.attr_kw[aid[row[0]]]
                ks += [[k0], [k0, bogus], [V.G.attr_kw[aid[row[-1]]]]]
            for a in sorted(x for x in V.S[e]['at'] if x != -1)[:2]:
                if [V.G.attr_kw[a]] not in ks:
                    ks.append([V.G.attr_kw[a]])          # a keyword the schema permits (refused when the row is missing)
            for kws in ks:
                for chk_on in (True, False):
                    cases.append((e, treq, kws, chk_on))
        ans = drv.batch('ctorkw %d %d %s %s' % (1 if c else 0, e, ','.join(map(str, g)) or '-', ','.join(map(str, kws)))
                        for e, g, kws, c in cases)
        for (e, given, kws, chk_on), m in zip(cases, ans):
            probe = Element(qname=Q[e], check_grammar=False)
            qattrs = dict((AQ[a], self.good_value(AQ[a], probe)) for a in given)
            if any(v is None for v in qattrs.values()):
                chk.count('ctorkw_skipped_no_value'); continue
            # what setAttribute itself does with each keyword on the real code (the reference for the constructor)
            first_refused = None; value_trouble = False
            kwargs = {}
            for k in kws:
                el = Element(qname=Q[e], check_grammar=False)
                val = u'1'
                try:
                    el.setAttribute(KN[k], val)
                except AttributeError:
                    if first_refused is None:
                        first_refused = k
                except Exception:
                    # accepted name, unsuitable value: look for a suitable one
                    val = None
                    for v in VALUE_CANDIDATES:
                        try:
                            Element(qname=Q[e], check_grammar=False).setAttribute(KN[k], v); val = v; break
                        except Exception:
                            continue
                    if val is None:
                        value_trouble = True
                kwargs[KN[k]] = val
            if value_trouble:
                chk.count('ctorkw_skipped_no_value'); continue
            try:
                Element(qname=Q[e], qattributes=qattrs, check_grammar=chk_on, **kwargs)
                o = 'ok'
            except AttributeError as ex:
                msg = str(ex)
                mm = re.match(r'Required attribute missing: (\S+) in <', msg)
                if mm:
                    o = 'err AttributeError missing ' + mm.group(1)
                else:
                    mk = re.match(r'Attribute (\S+) is not allowed in', msg)
                    if mk:
                        o = 'err AttributeError kw ' + mk.group(1)
                    elif first_refused is not None or msg.startswith('Unable to'):
                        o = 'err AttributeError kw ' + KN[kws[0] if first_refused is None else first_refused]
                    else:
                        o = 'err AttributeError ? ' + msg[:40]
            except Exception as ex:
                o = 'err ' + classify(ex)
            mk = m
            p = m.split()
            if p[:3] == ['err', 'AttributeError', 'kw']:
                mk = 'err AttributeError kw ' + KN[int(p[3])]
            elif p[:3] == ['err', 'AttributeError', 'missing']:
                mk = 'err AttributeError missing ' + V.KN[V.G.attr_kw[int(p[3])]]
            chk.corr(); chk.count('constructor_keyword_calls')
            if o != mk:
                chk.corr_diff({'op': 'Element(**kw)', 'element': V.EN[e], 'keywords': [KN[k] for k in kws], 'check_grammar': chk_on}, o, mk,
                              'constructor with keyword arguments: outcome and the keyword / attribute named in the message')
            chk.case(('ctorkw', e, tuple(kws), chk_on), nontrivial=T['allowed_attributes'].get(Q[e]) is None,
                     sample={'element': V.EN[e], 'keywords': [KN[k] for k in kws], 'outcome': o} if (e % 151 == 0 and chk_on) else None)
            # oracle: the constructor refuses a keyword exactly when setAttribute refuses it (then the schema comparison of
            # the setAttribute sweep speaks for both), independent of check_grammar
            refused_by_ctor = o.startswith('err AttributeError kw')
            if refused_by_ctor != (first_refused is not None) or o.startswith('err AttributeError ?') or o.startswith('err Other'):
                chk.fail('ctor-keyword:%s@%s' % (V.EN[e], KN[kws[0]]), {'op': 'Element(**kw)', 'element': V.EN[e], 'keywords': [KN[k] for k in kws], 'check_grammar': chk_on},
                         'constructor: %s; setAttribute refuses %s' % (o, 'nothing' if first_refused is None else repr(KN[first_refused])))

    # ---- the islands: parents that have no table row at all
    def islands(self):
        """Elements that no schema declaration names (MathML content, XForms instance data, foreign namespaces) occur in the
        schema's <anyName/> islands, whose content is again `any element` (and text).  They have no table row; they are made
        with Element(qname=(namespace, name)).  Schema-side decision (Lean: schema <id outside the tables>; cross-checked with
        the Python reading): any child permitted, text permitted."""
        chk, V, drv, Element = self.chk, self.V, self.drv, self.Element
        IllegalChild, IllegalText = self.element.IllegalChild, self.element.IllegalText
        Q = V.G.elems.items
        FOREIGN = 900000                         # an id outside the tables: the Lean side judges it by the <anyName/> declarations
        a = drv.ask('schema %d' % FOREIGN).split()
        lean = {'elem': a[1] == '1', 'text': a[2] == '1', 'ch': set(parse_ids(a[3]))}
        py = V.so.element(('urn:x-c06:no-such-namespace', 'x'))
        agree = py is not None and (('*' in py[0]) == (-1 in lean['ch'])) and py[1] == lean['text'] and not lean['elem']
        chk.obligation('island semantics: Lean and the Python reading agree on what an undeclared element may contain', agree,
                       'Lean: any child %s, text %s; Python: %s' % (-1 in lean['ch'], lean['text'], None if py is None else ('*' in py[0], py[1])), kind='cross-check')
        if -1 not in lean['ch']:
            chk.notes.append('the schemas have no <anyName/> island that permits any child: island sweep skipped'); return
        uri = {}
        for rel, root, nsmap in V.G.rng_docs:
            for pfx, u in nsmap.items():
                uri.setdefault(pfx, u)
        foreign = [q for q in [(uri.get('math'), 'mrow'), (uri.get('math'), 'mi'), (uri.get('math'), 'msup'), (uri.get('xforms'), 'submission'),
                               (uri.get('xforms'), 'data'), ('urn:x-c06:foreign', 'item'), ('', 'unqualified')] if q[0] is not None and q not in V.G.elems.ids]
        name = lambda q: ('%s:%s' % ([p for p, u in uri.items() if u == q[0]][0], q[1])) if q[0] in uri.values() else '{%s}%s' % q
        children = [(V.EN[c], Q[c], c) for c in self.live] + [(name(q), q, FOREIGN + 1 + i) for i, q in enumerate(foreign)]
        for fi, fq in enumerate(foreign):
            pid = FOREIGN + 1 + fi
            model = drv.batch('add 1 %d %d' % (pid, cid) for _, _, cid in children)
            for (cn, cq, cid), m in zip(children, model):
                obs = []
                for step in range(3):            # checked, unchecked, checked again - fresh elements
                    try:
                        Element(qname=fq, check_grammar=False).addElement(Element(qname=cq, check_grammar=False), check_grammar=(step != 1)); obs.append('ok')
                    except IllegalChild:
                        obs.append('err IllegalChild')
                    except Exception as ex:
                        obs.append('err ' + classify(ex))
                chk.corr(); chk.count('island_addElement_calls', 3)
                if obs[0] != m or obs[2] != m:
                    chk.corr_diff({'op': 'addElement', 'parent': name(fq), 'child': cn}, obs, m, 'addElement on a parent without table row (foreign element)')
                if obs[0] != 'ok' or obs[2] != 'ok' or obs[1] != 'ok':
                    if self.cap('island'):
                        chk.fail('children:%s>%s' % (name(fq), cn), {'op': 'addElement', 'parent_qname': list(fq), 'child_qname': list(cq), 'parent': name(fq), 'child': cn},
                                 'addElement(%s) on <%s> (an element no declaration names; the schema\'s <anyName/> islands permit any child): %s' % (cn, name(fq), obs))
            chk.case(('island', fq), nontrivial=True, sample={'parent': name(fq), 'children_tried': len(children)})
            # text in an island element
            try:
                Element(qname=fq, check_grammar=False).addText(u'x'); o = 'ok'
            except IllegalText:
                o = 'err IllegalText'
            except Exception as ex:
                o = 'err ' + classify(ex)
            m = drv.ask('text 1 %d' % pid)
            chk.corr()
            if o != m:
                chk.corr_diff({'op': 'addText', 'element': name(fq)}, o, m, 'addText on an element without table rows')
            if (o == 'ok') != lean['text']:
                chk.fail('text:*', {'op': 'addText', 'element_qname': list(fq), 'element': name(fq)},
                         'addText on <%s> (an element no declaration names): %s; the <anyName/> islands permit text' % (name(fq), o))
        # a foreign child under every parent of the tables: permitted exactly where the schema says `any element`
        fq = foreign[-2] if len(foreign) > 1 else foreign[0]
        model = drv.batch('add 1 %d %d' % (p, FOREIGN + 50) for p in self.live)
        for p, m in zip(self.live, model):
            try:
                Element(qname=Q[p], check_grammar=False).addElement(Element(qname=fq, check_grammar=False)); o = 'ok'
            except IllegalChild:
                o = 'err IllegalChild'
            except Exception as ex:
                o = 'err ' + classify(ex)
            chk.corr(); chk.count('island_addElement_calls')
            if o != m:
                chk.corr_diff({'op': 'addElement', 'parent': V.EN[p], 'child': name(fq)}, o, m, 'a foreign child')
            want = -1 in V.S[p]['ch']
            if (o == 'ok') != want:
                en = V.EN[p]
                if not (excepted(V, 'children', en, '*') or excepted(V, 'children', en, name(fq))) and self.cap('island'):
                    sig = 'children:%s>*' % en if any(k['sig'] == 'children:%s>*' % en for k in chk.known) else 'children:%s>%s' % (en, name(fq))
                    chk.fail(sig, {'op': 'addElement', 'parent': en, 'child_qname': list(fq), 'child': name(fq)},
                             'addElement(<%s>, a foreign element) on <%s>: %s; the schema %s any element there' % (name(fq), en, o, 'permits' if want else 'does not permit'))

    # ---- the same decisions after a load() has run in this process
    def after_load(self):
        """load() attaches every node with check_grammar=False.  Afterwards every checked decision must be what it was."""
        chk, V, Element = self.chk, self.V, self.Element
        IllegalChild = self.element.IllegalChild
        Q = V.G.elems.items; AQ = V.G.attrs.items; KN = V.KN
        aid = V.G.attrs.ids
        desc = load_sample_packages()
        chk.count('packages_loaded', len(desc))
        hist0 = {'op': 'load', 'packages': desc}
        n = V.n
        for p in range(n):
            if p in self.dead:
                continue
            row = self.first_children[p]
            for c in range(n):
                if c in self.dead:
                    continue
                try:
                    Element(qname=Q[p], check_grammar=False).addElement(Element(qname=Q[c], check_grammar=False)); r = '.'
                except IllegalChild:
                    r = 'C'
                except Exception:
                    r = 'X'
                if r != row[c]:
                    self.history_fail('children:%s>%s' % (V.EN[p], V.EN[c]),
                                      [{'op': 'addElement', 'parent': V.EN[p], 'child': V.EN[c], 'check_grammar': True, 'observed': row[c]}, hist0,
                                       {'op': 'addElement', 'parent': V.EN[p], 'child': V.EN[c], 'check_grammar': True, 'observed': r}],
                                      'checked addElement(%s) on a fresh <%s>: %s before and %s after load()' % (V.EN[c], V.EN[p], row[c], r))
        chk.corr(n * n); chk.count('addElement_calls_after_load', n * n)
        for e in range(n):
            if e in self.dead:
                continue
            obs = []
            for op in ('addText', 'addCDATA'):
                try:
                    getattr(Element(qname=Q[e], check_grammar=False), op)(u'x'); obs.append('ok')
                except Exception as ex:
                    obs.append('err ' + classify(ex))
            if tuple(obs) != self.first_text[e]:
                self.history_fail('text:%s' % V.EN[e], [{'op': 'addText', 'element': V.EN[e], 'check_grammar': True, 'observed': self.first_text[e][0]}, hist0,
                                                        {'op': 'addText', 'element': V.EN[e], 'check_grammar': True, 'observed': obs[0]}],
                                  'checked addText/addCDATA on a fresh <%s>: %s before and %s after load()' % (V.EN[e], self.first_text[e], obs))
            el = Element(qname=Q[e], check_grammar=False)
            for k, r0 in enumerate(self.first_attrs[e]):
                try:
                    el.setAttribute(KN[k], self.good_value(AQ[int(r0)], el) if r0.isdigit() else u'1')
                    r = 'acc'
                    el.attributes.clear()
                except AttributeError:
                    r = 'A'
                except Exception:
                    r = 'acc'
                if (r == 'A') != (r0 == 'A'):
                    self.history_fail('attrs:%s@%s' % (V.EN[e], KN[k]), [{'op': 'setAttribute', 'element': V.EN[e], 'keyword': KN[k], 'check_grammar': True, 'observed': r0}, hist0,
                                                                       {'op': 'setAttribute', 'element': V.EN[e], 'keyword': KN[k], 'check_grammar': True, 'observed': r}],
                                      'checked setAttribute(%r) on <%s>: %s before and %s after load()' % (KN[k], V.EN[e], r0, r))
        chk.corr(2 * n + n * V.nk); chk.count('setAttribute_calls_after_load', n * V.nk)
        for (e, r, given), o0 in sorted(self.first_ctor.items(), key=lambda kv: (kv[0][0], -1 if kv[0][1] is None else kv[0][1], kv[0][2])):
            probe = Element(qname=Q[e], check_grammar=False)
            try:
                Element(qname=Q[e], qattributes=dict((AQ[a], self.good_value(AQ[a], probe)) for a in given)); o = 'ok'
            except AttributeError as ex:
                mm = re.match(r'Required attribute missing: (\S+) in <', str(ex))
                o = 'err AttributeError ' + (mm.group(1) if mm else '?')
            except Exception as ex:
                o = 'err ' + classify(ex)
            chk.corr()
            if o != o0:
                self.history_fail('required:%s@%s' % (V.EN[e], V.AN[r] if r is not None else '-'),
                                  [{'op': 'Element()', 'element': V.EN[e], 'given': [V.AN[a] for a in given], 'check_grammar': True}, hist0,
                                   {'op': 'Element()', 'element': V.EN[e], 'given': [V.AN[a] for a in given], 'check_grammar': True}],
                                  'Element(<%s>) given %s: %s before and %s after load()' % (V.EN[e], [V.AN[a] for a in given], o0, o))

    # ---- histories on ONE parent instance: the decision must not depend on what the parent already holds
    def parent_history_fail(self, p, c, route, case, detail):
        """case / detail may be callables: they are only worked out for the handful of witnesses that are reported"""
        key = 'phist-' + route                                # a handful of witnesses per route, the rest is counted
        self.reported[key] = self.reported.get(key, 0) + 1
        self.chk.count('history_dependent_decisions')
        self.chk.count('history_dependent_decisions_' + route)
        if self.reported[key] > (6 if route == 'api' else 3):
            return
        self.chk.fail('history:children:%s>%s' % (self.V.EN[p], self.V.EN[c]), case() if callable(case) else case, detail() if callable(detail) else detail)

    def judge_history(self, p, x, tpl, out, case_of, state_of, route='api'):
        """oracle for one history on one parent: every checked addElement is accepted iff the SCHEMA permits that child
        under that parent - whatever the parent held when the call was made; every unchecked call goes through.
        A difference that the same call shows on a fresh, empty parent as well is a difference of the table row, which the
        children() sweep has judged (exception / known finding / violation by its row); it is not repeated here."""
        V, chk = self.V, self.chk
        sch = V.S[p]['ch']; sany = -1 in sch
        row = self.first_children[p]
        for k, (code, a, b) in enumerate(tpl):
            o = out[k]
            c = x if a is None else a
            if code == 'c':
                want = sany or (c in sch)
                if (o == '.') == want and o in '.C':
                    continue
                if o == row[c]:
                    chk.count('history_row_difference_judged_by_children_sweep')
                    continue
                self.parent_history_fail(p, c, route, lambda: case_of(k),
                                         lambda: 'checked addElement(%s) on a <%s> that holds %s: %s; the schema %s it; on an empty <%s> the same call: %s' % (
                                             V.EN[c], V.EN[p], state_of(k), {'.': 'accepted', 'C': 'IllegalChild'}.get(o, o),
                                             'permits' if want else 'does not permit', V.EN[p], {'.': 'accepted', 'C': 'IllegalChild'}.get(row[c], row[c])))
                return
            elif o != '.':
                if self.cap('unchecked-history'):
                    chk.fail('unchecked:children:%s>%s' % (V.EN[p], V.EN[c] if code in 'uai' else '#node'), case_of(k),
                             'an unchecked call (%s) in a history on <%s> did not go through: %s' % (code, V.EN[p], o))
                return

    def run_ops(self, parent, tpl, x, spare=None):
        """apply a history to one parent of the real library.  tpl: (code, child id or None = x, index);
        codes: c checked addElement, u addElement(check_grammar=False), a appendChild, i insertBefore(new, childNodes[index] or None),
        t addText(check_grammar=False), r removeChild(childNodes[index]).  A child that was refused (and is still detached)
        is offered again by the next checked call of the same type - every other child is freshly made."""
        Element, IllegalChild, Q = self.Element, self.element.IllegalChild, self.V.G.elems.items
        out = []
        spare = {} if spare is None else spare
        i, N = 0, len(tpl)
        while i < N:
            # one try for the whole run; an exception other than IllegalChild marks its call with X and the run goes on behind it
            try:
                while i < N:
                    code, a, b = tpl[i]
                    c = x if a is None else a
                    if code == 'c':
                        ch = spare.pop(c, None) or Element(qname=Q[c], check_grammar=False)
                        try:
                            parent.addElement(ch)
                            out.append('.' if ch.parentNode is parent and parent.childNodes[-1] is ch else '?')
                        except IllegalChild:
                            if ch.parentNode is None:
                                spare[c] = ch; out.append('C')
                            else:
                                out.append('!')              # refused AND attached
                    elif code == 'u':
                        parent.addElement(Element(qname=Q[c], check_grammar=False), check_grammar=False); out.append('.')
                    elif code == 'a':
                        parent.appendChild(Element(qname=Q[c], check_grammar=False)); out.append('.')
                    elif code == 'i':
                        kids = parent.childNodes
                        parent.insertBefore(Element(qname=Q[c], check_grammar=False), kids[b] if b < len(kids) else None); out.append('.')
                    elif code == 't':
                        parent.addText(u'x', check_grammar=False); out.append('.')
                    elif code == 'r':
                        if b < len(parent.childNodes):
                            parent.removeChild(parent.childNodes[b])
                        out.append('.')
                    i += 1
            except Exception:
                out.append('X'); i += 1
        return ''.join(out)

    def kids_of(self, parent):
        ids = self.V.G.elems.ids
        return ','.join(str(ids.get(tuple(k.qname), '?')) if k.nodeType == 1 else 't' for k in parent.childNodes) or '-'

    @staticmethod
    def tpl_line(tpl):
        return ','.join(('i%d:%s' % (b, 'X' if a is None else a)) if code == 'i' else ('r%d' % b) if code == 'r' else 't' if code == 't'
                        else '%s%s' % (code, 'X' if a is None else a) for code, a, b in tpl)

    def calls_of(self, tpl, x, upto=None):
        V = self.V
        names = {'c': 'addElement', 'u': 'addElement', 'a': 'appendChild', 'i': 'insertBefore', 't': 'addText', 'r': 'removeChild'}
        calls = []
        for code, a, b in (tpl if upto is None else tpl[:upto + 1]):
            d = {'do': names[code]}
            if code in 'cuai':
                d['child'] = V.EN[x if a is None else a]
            if code in 'cu':
                d['check_grammar'] = (code == 'c')
            if code == 't':
                d['check_grammar'] = False
            if code in 'ir':
                d['index'] = b
            calls.append(d)
        return calls

    def same_parent(self):
        """For every ordered (parent, child X) pair, histories on ONE parent instance.  The states in which the checked
        addElement is asked - first history, every pair: X is the only child (put there with check_grammar=False) and X is asked again;
        then a different refused child Y.  Second history (every pair in the thorough tier and for parents with few refused children,
        a drawn quarter of the children otherwise): X first with a legal sibling L added after it; X last again (appendChild);
        a text node last; X first (insertBefore); X last (insertBefore(new, None)); after the first child was removed.
        L (permitted) and Y (refused) are drawn per parent."""
        chk, V, drv, Element = self.chk, self.V, self.drv, self.Element
        Q = V.G.elems.items; n = V.n
        thorough = chk.tier == 'thorough'
        plans = []
        for p in self.live:
            row = self.first_children[p]
            sch = V.S[p]['ch']; sany = -1 in sch
            legal = [c for c in self.live if row[c] == '.' and (sany or c in sch)]
            illegal = [c for c in self.live if row[c] == 'C' and not (sany or c in sch)]
            L = chk.rng.choice(legal) if legal else None
            Y = chk.rng.choice(illegal) if illegal else None
            t1 = [('u', None, 0), ('c', None, 0)] + ([('c', Y, 0)] if Y is not None else [])
            t2 = [('u', None, 0)] + ([('c', L, 0)] if L is not None else []) + \
                 [('c', None, 0), ('a', None, 0), ('c', None, 0), ('t', None, 0), ('c', None, 0), ('i', None, 0), ('c', None, 0),
                  ('i', None, 99), ('c', None, 0), ('r', None, 0), ('c', None, 0)]
            second = list(self.live) if (thorough or len(illegal) <= 60) else [c for c in self.live if chk.rng.random() < 0.25]
            plans.append((p, t1, t2, len(illegal), second))
        lines = []
        for p, t1, t2, _, second in plans:
            lines += ['histrow %d %s' % (p, self.tpl_line(t1)), 'histrow %d %s %s' % (p, self.tpl_line(t2), ','.join(map(str, second)) or '-')]
        ans = drv.batch(lines)
        ncalls = 0
        idstr = dict((q, str(i)) for q, i in V.G.elems.ids.items())
        live = self.live
        for j, (p, t1, t2, nill, second) in enumerate(plans):
            m1 = ans[2 * j].split()[1:]; m2 = dict(zip(second, ans[2 * j + 1].split()[1:]))
            qp = Q[p]
            sch = V.S[p]['ch']; sany = -1 in sch
            # what the SCHEMA says about every child of this parent, and from it the outcomes the property demands of a history
            wantrow = ''.join('.' if (sany or c in sch) else 'C' for c in range(n))
            nhist = 0
            for tpl, model, xs in ((t1, m1, live), (t2, m2, second)):
                fmt = ''.join(('#' if a is None else wantrow[a]) if code == 'c' else '.' for code, a, b in tpl)
                spare = {}
                for x in xs:
                    parent = Element(qname=qp, check_grammar=False)
                    out = self.run_ops(parent, tpl, x, spare)
                    got = out + '/' + (','.join([idstr.get(k.qname, '?') if k.nodeType == 1 else 't' for k in parent.childNodes]) or '-')
                    if got != model[x]:
                        if len(chk.corr_diffs) >= 20:
                            chk.count('corr_diffs_dropped')       # what corr_diff itself does then; the case is not spelled out
                        else:
                            chk.corr_diff({'op': 'parent-history', 'parent': V.EN[p], 'calls': self.calls_of(tpl, x)}, got, model[x],
                                          'a history of calls on ONE parent: outcome per call (. returned, C IllegalChild) / childNodes afterwards')
                    if out != fmt.replace('#', wantrow[x]):
                        self.judge_history(p, x, tpl, out,
                                           lambda k, tpl=tpl, x=x, p=p: {'op': 'parent-history', 'parent': V.EN[p], 'route': 'api', 'calls': self.calls_of(tpl, x, k)},
                                           lambda k, tpl=tpl, x=x, p=p: self.describe_state(p, tpl, x, k))
                nhist += len(xs); ncalls += len(xs) * len(tpl)
            chk.corr(nhist)
            chk.case(('parent-history', p), nontrivial=bool(V.S[p]['elem'] and nill),
                     sample={'parent': V.EN[p], 'history': self.tpl_line(t1), 'second': self.tpl_line(t2), 'children': len(live)} if p % 131 == 0 else None)
        chk.count('same_parent_history_calls', ncalls)

    def describe_state(self, p, tpl, x, k):
        """the child list of the parent just before call k of the history, by replaying the calls before it (names)"""
        parent = self.Element(qname=self.V.G.elems.items[p], check_grammar=False)
        self.run_ops(parent, tpl[:k], x)
        V = self.V
        ids = V.G.elems.ids
        return '[%s]' % ', '.join((V.EN[ids[tuple(c.qname)]] if tuple(c.qname) in ids else str(c.qname)) if c.nodeType == 1 else '#text' for c in parent.childNodes)

    # ---- the same question on parents that came with a loaded file
    def loaded_parents(self):
        """A text document is written that holds, for every parent element P, instances with children the schema refuses
        (X last after a legal sibling; X first before a legal sibling; X the only child), attached unchecked - as another producer
        might have written them.  After load() the checked addElement(X) is asked on the LOADED parent, a legal child is added,
        X is asked again; then content.xml is written and read with expat: the children of every such parent must be the loaded
        ones plus exactly the added ones the schema permits."""
        import io
        import xml.parsers.expat
        from odf.opendocument import OpenDocumentText, load
        chk, V, drv, Element = self.chk, self.V, self.drv, self.Element
        Q = V.G.elems.items; ids = V.G.elems.ids
        per_parent = 6 if chk.tier == 'thorough' else 2
        TEXT = ids.get((u'urn:oasis:names:tc:opendocument:xmlns:office:1.0', u'text'))
        plan = []
        for p in self.live:
            if Q[p][0].startswith('urn:oasis:names:tc:opendocument:xmlns:manifest') or p == TEXT:
                continue
            row = self.first_children[p]
            sch = V.S[p]['ch']; sany = -1 in sch
            legal = [c for c in self.live if row[c] == '.' and (sany or c in sch)]
            illegal = [c for c in self.live if row[c] == 'C' and not (sany or c in sch)]
            if not illegal:
                continue
            for x in chk.rng.sample(illegal, min(per_parent, len(illegal))):
                L = chk.rng.choice(legal) if legal else None
                for shape in ('last', 'first'):
                    init = ([L] if L is not None else []) + [x] if shape == 'last' else [x] + ([L] if L is not None else [])
                    tpl = [('c', x, 0)] + ([('c', L, 0)] if L is not None else []) + [('c', x, 0), ('t', None, 0), ('c', x, 0)]
                    plan.append((p, x, init, tpl))
        doc = OpenDocumentText()
        try:
            for p, x, init, tpl in plan:
                P = Element(qname=Q[p], check_grammar=False)
                for c in init:
                    P.addElement(Element(qname=Q[c], check_grammar=False), check_grammar=False)
                doc.text.addElement(P, check_grammar=False)
            buf = io.BytesIO(); doc.save(buf); buf.seek(0)
            doc2 = load(buf)
        except Exception as ex:
            chk.notes.append('loaded_parents: the document with %d unchecked parents could not be written and loaded (%s: %s); phase skipped' % (len(plan), type(ex).__name__, str(ex)[:80]))
            chk.count('loaded_parents_skipped'); return
        loaded = [k for k in doc2.text.childNodes if k.nodeType == 1]
        if len(loaded) != len(plan):
            chk.notes.append('loaded_parents: %d parents written, %d found after load(); phase skipped' % (len(plan), len(loaded)))
            chk.count('loaded_parents_skipped'); return
        lines = ['hist %d %s' % (p, ','.join(['u%d' % c for c in init] + [self.tpl_line(tpl)])) for p, x, init, tpl in plan]
        ans = drv.batch(lines)
        expected_written = []
        for (p, x, init, tpl), P, m in zip(plan, loaded, ans):
            sch = V.S[p]['ch']; sany = -1 in sch
            have = [ids.get(tuple(k.qname)) if k.nodeType == 1 else 't' for k in P.childNodes]
            if tuple(P.qname) != tuple(Q[p]) or have != init:
                chk.count('loaded_parents_shape_changed_by_load'); expected_written.append(None); continue
            out = self.run_ops(P, tpl, x)
            chk.corr(); chk.count('loaded_parent_history_calls', len(tpl))
            got = '.' * len(init) + out + ' ' + self.kids_of(P)
            if 'ok ' + got != m:
                chk.corr_diff({'op': 'parent-history', 'route': 'load', 'parent': V.EN[p], 'initial': [V.EN[c] for c in init], 'calls': self.calls_of(tpl, x)}, got, m,
                              'a history of calls on a parent that load() built: outcome per call / childNodes afterwards')
            case_of = lambda k, p=p, x=x, init=init, tpl=tpl: {'op': 'parent-history', 'parent': V.EN[p], 'route': 'load', 'initial': [V.EN[c] for c in init],
                                                            'calls': self.calls_of(tpl, x, k)}
            self.judge_history(p, x, tpl, out, case_of, lambda k, init=init: 'the loaded children [%s] (+ what the calls before added)' % ', '.join(V.EN[c] for c in init), route='load')
            expected_written.append(init + [c for code, c, b in tpl if code == 'c' and (sany or c in sch)])
            chk.case(('loaded-parent', p, x, tuple(init)), nontrivial=True,
                     sample={'parent': V.EN[p], 'loaded_children': [V.EN[c] for c in init], 'asked': V.EN[x], 'outcomes': out} if len(expected_written) % 401 == 0 else None)
        # what is written afterwards, read with expat: element children of the children of office:text, in order
        try:
            data = doc2.contentxml()
        except Exception as ex:
            chk.notes.append('loaded_parents: contentxml() after the histories raised %s' % type(ex).__name__); return
        OFFICE_TEXT = u'urn:oasis:names:tc:opendocument:xmlns:office:1.0 text'
        stack, written = [], []
        def start(name, attrs):
            if len(stack) == 3 and stack[-1] == OFFICE_TEXT:
                written.append((name, []))
            elif len(stack) == 4 and stack[2] == OFFICE_TEXT and written:
                written[-1][1].append(name)
            stack.append(name)
        def end(name):
            stack.pop()
        ps = xml.parsers.expat.ParserCreate(namespace_separator=' ')
        ps.StartElementHandler = start; ps.EndElementHandler = end
        ps.Parse(data, True)
        if len(written) != len(plan):
            chk.notes.append('loaded_parents: %d parents expected in the written content.xml, %d found' % (len(plan), len(written))); return
        key = lambda c: u'%s %s' % (Q[c][0], Q[c][1]) if Q[c][0] else Q[c][1]
        for (p, x, init, tpl), exp, (wname, wkids) in zip(plan, expected_written, written):
            if exp is None:
                continue
            chk.count('written_parents_read_back')
            if wname != key(p):
                chk.count('loaded_parents_shape_changed_by_load'); continue
            if wkids != [key(c) for c in exp]:
                row = self.first_children[p]
                if all(row[c] == ('.' if (-1 in V.S[p]['ch'] or c in V.S[p]['ch']) else 'C') for code, c, b in tpl if code == 'c'):
                    self.parent_history_fail(p, x, 'load', {'op': 'parent-history', 'parent': V.EN[p], 'route': 'load', 'initial': [V.EN[c] for c in init], 'calls': self.calls_of(tpl, x)},
                                             'content.xml written after the history holds <%s> with %d element children; the loaded ones plus the added ones the schema permits are %d (%s)' % (
                                                 V.EN[p], len(wkids), len(exp), ', '.join(V.EN[c] for c in exp)))

    # ---- factories
    def factories(self):
        chk, V, drv = self.chk, self.V, self.drv
        G = V.G
        model = set(parse_ids(drv.ask('factories').split()[1]))
        produced = {}
        for mn, fn, q, note in G.factories:
            chk.corr()
            # call again, independently of the translator's call
            try:
                el = getattr(importlib.import_module('odf.' + mn), fn)(check_grammar=False)
                got = G.elems.ids.get(tuple(el.qname))
            except Exception:
                got = None
            if got != q or (q is not None and q not in model):
                chk.corr_diff({'op': 'factory', 'factory': mn + '.' + fn}, got, q, 'qname id of f(check_grammar=False)')
            if got is not None:
                produced.setdefault(got, []).append(mn + '.' + fn)
                # the function name is the element name: prefix = module, CamelCase(local) = function
                en = V.EN[got]
                pre, _, local = en.partition(':')
                if en.startswith('{') or fn.lower() != tg.kw_of(local) or pre != mn:
                    if not excepted(V, 'factory', mn + '.' + fn):
                        chk.fail('factory-name:%s.%s' % (mn, fn), {'op': 'factory', 'factory': mn + '.' + fn}, 'odf.%s.%s() produces <%s>' % (mn, fn, en))
            chk.count('factory_calls')
        for e in range(V.n):
            if not V.S[e]['elem']:
                continue
            chk.case(('factory', e), nontrivial=True)
            if e not in produced:
                why = [r for r in G.factories if r[2] is None and tg.kw_of(V.EN[e].partition(':')[2]) == r[1].lower() and r[0] == V.EN[e].partition(':')[0]]
                self.report('factory', e, None, 'no factory function yields <%s> when called as f(check_grammar=False)%s' % (
                    V.EN[e], ('; odf.%s.%s raises %s' % (why[0][0], why[0][1], why[0][3])) if why else ''), {'op': 'factory', 'element': V.EN[e]})


# ---------------------------------------------------------------------------------------------------------------------
def fallback_sweep(chk, why):
    """The translator could not produce the Lean inputs (broken obligation, already recorded).  The failing-input search
    still runs: the real API, exhaustively, against the independent Python reading of the .rng files - elements and
    attributes are made from the SCHEMA's (namespace URI, local name) pairs with Element(qname=..., check_grammar=False),
    so nothing here depends on the translator, the Lean model or odf.namespaces."""
    import importlib
    from odf.element import Element, IllegalChild, IllegalText
    class _G(object):
        pass
    G = _G(); G.rng_docs = tg.read_schemas(common.REPO)
    so = SecondOpinion(G)
    prefix = {}
    for rel, root, nsmap in G.rng_docs:
        for pfx, uri in nsmap.items():
            prefix.setdefault(uri, pfx)
    name = lambda q: ('%s:%s' % (prefix[q[0]], q[1])) if q[0] in prefix else '{%s}%s' % q
    exc_rows, prefixes = [], ['db:']
    try:
        drv = chk.driver('drv_grammar')           # only for the hand-written exception lists (static data of the binary)
        exc_rows = [tuple(w.split('|')) for w in drv.ask('exceptions').split()[1:]]
        prefixes = drv.ask('prefixes').split()[1:]
    except Exception:
        chk.notes.append('exception lists unavailable (driver not built): only the db: prefix is excepted in the fallback sweep')
    def excepted_(kind, e, x=''):
        return any(e.startswith(p) for p in prefixes) or any(k == kind and en == e and (it == x or it == '*') for k, en, it in exc_rows)
    budget = {}
    def report(kind, e, x, detail, case):
        en, xn = name(e), ('' if x is None else ('*' if x == '*' else name(x)))
        if excepted_(kind, en, xn):
            return
        sig = sig_of(kind, en, xn)
        if not any(k['sig'] == sig for k in chk.known):
            budget[kind] = budget.get(kind, 0) + 1
            if budget[kind] > 8:
                chk.count('further_unlisted_rows_' + kind); return
        chk.fail(sig, case, detail)
    els = sorted(so.decls)
    sem = dict((q, so.element(q)) for q in els)
    from odf.attrconverters import AttrConverters
    conv = AttrConverters()
    def good(aq, el):
        for v in VALUE_CANDIDATES:
            try:
                conv.convert(aq, v, el); return v
            except Exception:
                continue
        return None
    for p in els:
        me, mt, ma, must = sem[p]
        try:
            Element(qname=p, check_grammar=False)
        except Exception as ex:
            chk.fail('construct:%s' % name(p), {'op': 'Element()', 'element': name(p), 'given': [], 'check_grammar': False}, 'Element(qname=<%s>, check_grammar=False) raises %s' % (name(p), type(ex).__name__))
            continue
        chk.case(('fallback', p), nontrivial=True)
        if '*' not in me:
            for c in els:
                try:
                    Element(qname=p, check_grammar=False).addElement(Element(qname=c, check_grammar=False)); got = True
                except IllegalChild:
                    got = False
                except Exception:
                    continue
                chk.count('fallback_addElement_calls')
                if got != (c in me):
                    report('children', p, c, 'addElement(%s) on <%s>: %s; schema %s (elements made from the schema\'s own qualified names)' % (
                        name(c), name(p), 'accepted' if got else 'IllegalChild', 'permits' if c in me else 'does not permit'),
                        {'op': 'addElement', 'parent': name(p), 'child': name(c), 'filled': False})
        try:
            Element(qname=p, check_grammar=False).addText(u'x'); got = True
        except IllegalText:
            got = False
        if got != mt:
            report('text', p, None, 'addText on <%s>: %s; schema %s text' % (name(p), 'accepted' if got else 'IllegalText', 'permits' if mt else 'does not permit'), {'op': 'addText', 'element': name(p)})
        for a in sorted(x for x in ma if x != '*'):
            el = Element(qname=p, check_grammar=False)
            try:
                el.setAttribute(tg.kw_of(a[1]), good(a, el) or u'1'); stored = list(el.attributes)
            except AttributeError:
                report('attrs', p, a, 'the schema permits %s on <%s>; setAttribute(%r) raises AttributeError' % (name(a), name(p), tg.kw_of(a[1])), {'op': 'setAttribute', 'element': name(p), 'keyword': tg.kw_of(a[1])})
                continue
            except Exception:
                continue
            for b in stored:
                if b not in ma and '*' not in ma:
                    report('attrs', p, b, 'setAttribute(%r) on <%s> stored %s, which the schema does not permit there' % (tg.kw_of(a[1]), name(p), name(b)), {'op': 'setAttribute', 'element': name(p), 'keyword': tg.kw_of(a[1])})
        probe = Element(qname=p, check_grammar=False)
        for r in sorted(must):
            qa = dict((a, good(a, probe)) for a in must if a != r)
            if any(v is None for v in qa.values()):
                continue
            try:
                Element(qname=p, qattributes=qa); failed = False
            except AttributeError:
                failed = True
            except Exception:
                continue
            if not failed:
                report('required', p, r, 'Element(<%s>) without %s: ok; the schema requires it' % (name(p), name(r)), {'op': 'Element()', 'element': name(p), 'left_out': name(r)})
    produced = set()
    for mn in tg.FACTORY_MODULES:
        try:
            mod = importlib.import_module('odf.' + mn)
        except Exception:
            continue
        for fn in sorted(dir(mod)):
            f = getattr(mod, fn)
            if fn[:1].isupper() and callable(f) and not isinstance(f, type) and getattr(f, '__module__', None) == mod.__name__:
                try:
                    q = tuple(f(check_grammar=False).qname)
                except Exception:
                    continue
                produced.add(q)
                if q not in sem and q[0] not in prefix and budget.setdefault('fname', 0) < 8:       # a namespace the schemas do not know
                    budget['fname'] += 1
                    chk.fail('factory-name:%s.%s' % (mn, fn), {'op': 'factory', 'factory': mn + '.' + fn}, 'odf.%s.%s() produces <%s>, in a namespace the schemas do not declare' % (mn, fn, name(q)))
    for p in els:
        if p not in produced:
            report('factory', p, None, 'no factory function yields <%s> when called as f(check_grammar=False)' % name(p), {'op': 'factory', 'element': name(p)})


def load_sample_packages():
    """build a package that contains legal content AND schema-illegal combinations (attached with check_grammar=False, which
    is also how load() attaches them), save it, load() it; load the shipped example documents as well"""
    import io, glob
    from odf.opendocument import OpenDocumentText, load
    from odf import text, table
    doc = OpenDocumentText()
    h = text.H(outlinelevel=1, text=u'heading'); doc.text.addElement(h)
    p = text.P(text=u'paragraph'); p.addElement(text.Span(text=u'span')); doc.text.addElement(p)
    inner = text.P(check_grammar=False); p.addElement(inner, check_grammar=False)                    # text:p in text:p
    t = table.Table(name=u't'); t.addElement(table.TableColumn()); row = table.TableRow(); t.addElement(row)
    row.addElement(text.Span(check_grammar=False), check_grammar=False)                              # text:span in table:table-row
    cell = table.TableCell(); row.addElement(cell); cell.addElement(text.P(text=u'cell'))
    doc.text.addElement(t)
    lst = text.List(); lst.addText(u'stray text', check_grammar=False); doc.text.addElement(lst)      # text in text:list
    doc.text.addElement(text.H(check_grammar=False), check_grammar=False)                            # text:h without outline-level
    buf = io.BytesIO(); doc.save(buf); buf.seek(0)
    load(buf)
    desc = ['in-memory text document with text:p>text:p, table:table-row>text:span, text in text:list, text:h without outline-level']
    for f in sorted(glob.glob(os.path.join(common.REPO, 'tests', 'examples', '*.od?')))[:4]:
        try:
            load(f); desc.append(os.path.relpath(f, common.REPO))
        except Exception as ex:
            desc.append('%s (load raised %s)' % (os.path.relpath(f, common.REPO), type(ex).__name__))
    return desc


SLICES = ['OdfModel.Props.C06.S%02d' % i for i in range(16)]
HIST = ['OdfModel.Props.C06.History']          # histories on one parent (model: OdfModel/GrammarHist.lean)
VALUES = ['OdfModel.Props.C06.Values']       # the value / the text as arguments (model: OdfModel/GrammarValues.lean)
AUX = ['OdfModel.Props.C06.Defs', 'OdfModel.Props.C06.Schema', 'OdfModel.Props.C06.Kw', 'OdfModel.Props.C06.Fuel']


def run(chk, replay=None):
    chk.rule = ('exhaustive: every ordered (parent, child) pair of all element names known to the schemas, odf/grammar.py or the '
                'factories (addElement on an empty and on a filled parent, checks on and off), every (element, keyword) pair, '
                'every element x {addText, addCDATA}, every constructor with each single required attribute left out, every '
                'factory; histories of calls on one parent (the child asked for is already there, unchecked: only/first/last child, via '
                'check_grammar=False / appendChild / insertBefore / load) for every pair; refused keywords again with values that are no '
                'strings (None, empty, 0, False, numbers, bytes, list, element) through setAttribute / **kwargs / attributes= / factory; '
                'every element x strings of Unicode spaces, XML white space, invisible characters and mixtures through addText / addCDATA / text= / cdata=; non-trivial = the element is declared by the shipped schemas')
    try:
        G = tg.translate(common.REPO)
    except common.InfraError:
        raise
    except Exception as e:
        # a schema construct the translator does not know, or odf/grammar.py / a factory module that no longer imports
        chk.obligation('translator', False, 'cannot translate: %s: %s' % (type(e).__name__, e), kind='translator')
        if replay is None:
            try:
                fallback_sweep(chk, e)
            except common.InfraError:
                raise
            except Exception as e2:
                chk.notes.append('fallback sweep stopped: %s: %s' % (type(e2).__name__, e2))
        return chk.finish()
    tg.write(chk, G)
    if replay is None:
        # a row of unexpected shape is a broken obligation; the sweep below still covers every row against the schema
        chk.obligation('the four tables of odf/grammar.py have the expected shape (containers of (namespace, name) pairs)', not G.malformed,
                       '; '.join('%s[%s]: %s' % m for m in G.malformed[:6]) or 'all rows well-formed', kind='translator')
        if G.duplicate_keys:
            chk.notes.append('keys written twice in odf/grammar.py (the later row wins): %s' % ', '.join('%s %s' % d for d in G.duplicate_keys[:8]))
    if replay is not None:
        rc, out = chk.lake(['build', 'drv_grammar'])
        if rc != 0:
            raise common.InfraError('cannot build drv_grammar: ' + out[-800:])
        drv = chk.driver('drv_grammar')
        V = load_model(chk, G, drv)
        return replay_one(chk, V, Sweep(chk, V, drv), replay)
    chk.prove(modules=['OdfModel.Props.C06'] + SLICES + AUX + HIST + VALUES, drivers=['drv_grammar'])
    drv = chk.driver('drv_grammar')
    V = load_model(chk, G, drv)
    check_second_opinion(chk, V)
    # the Lean KnownFindings list and known-findings/C06.txt are the same set of rows
    lean_known = sorted(sig_of(k, e, x) for k, e, x in V.known_rows)
    txt_known = sorted(k['sig'] for k in chk.known if re.match(r'(children|text|attrs|required|factory):', k['sig'] or ''))
    chk.obligation('KnownFindings (GrammarExceptions.lean) = row signatures of known-findings/C06.txt', lean_known == txt_known,
                   '%d rows; only in Lean: %s; only in txt: %s' % (len(lean_known), sorted(set(lean_known) - set(txt_known))[:5], sorted(set(txt_known) - set(lean_known))[:5]),
                   kind='consistency')
    sw = Sweep(chk, V, drv)
    sw.constructible()
    import traceback
    for name, phase in (('children', sw.children), ('text', sw.text), ('attrs', sw.attributes), ('ctor', sw.constructors),
                        ('ctorkw', sw.constructor_keywords), ('attr_values', sw.attr_values), ('text_strings', sw.text_strings),
                        ('factories', sw.factories), ('islands', sw.islands), ('same_parent', sw.same_parent),
                        ('loaded_parents', sw.loaded_parents), ('after_load', sw.after_load)):
        t = time.time()
        try:
            phase()
        except common.InfraError:
            raise
        except Exception as ex:
            # the sweep itself must not stop the run: what stopped it is a broken obligation (and usually a row of odd shape)
            chk.obligation('sweep phase %s ran to completion' % name, False, traceback.format_exc()[-600:], kind='sweep')
        chk.count('t_%s_s' % name, round(time.time() - t, 1))
    chk.extra_cov['table_sizes'] = {'schema_defines': len(G.defnames), 'elements': V.n, 'schema_elements': sum(1 for s in V.S if s['elem']),
                                    'attributes': V.na, 'keywords': V.nk,
                                    'allowed_children_rows': len(G.py_tables['allowed_children']), 'allows_text': len(G.py_tables['allows_text']),
                                    'required_attributes_rows': len(G.py_tables['required_attributes']),
                                    'allowed_attributes_rows': len(G.py_tables['allowed_attributes']),
                                    'factories': len(G.factories), 'exceptions': len(V.exceptions), 'known_rows': len(V.known_rows)}
    # a known finding that no longer reproduces is worth a note (not a failure)
    stale = [k['sig'] for k in chk.known if k['id'] not in chk.known_hits]
    if stale:
        chk.notes.append('known findings not reproduced in this run: %s' % ', '.join(stale[:10]))
    return chk.finish()


def replay_one(chk, V, sw, rp):
    """re-run the single input of a replay file on the real code and say what the schema says"""
    from odf.element import Element
    inp = rp.get('input', {})
    eid = dict((n, i) for i, n in enumerate(V.EN)); aidn = dict((n, i) for i, n in enumerate(V.AN))
    Q = V.G.elems.items
    op = inp.get('op')
    try:
        if op == 'history':
            outcomes = []
            for call in inp['calls']:
                if call['op'] == 'load':
                    load_sample_packages(); outcomes.append((call, 'loaded')); continue
                e = eid[call.get('parent') or call.get('element')]
                el = Element(qname=Q[e], check_grammar=False)
                cg = call.get('check_grammar', True)
                try:
                    if call['op'] == 'addElement':
                        if call.get('via') == 'parent=':
                            Element(qname=Q[eid[call['child']]], check_grammar=False, parent=el)
                        else:
                            el.addElement(Element(qname=Q[eid[call['child']]], check_grammar=False), check_grammar=cg)
                    elif call['op'] in ('addText', 'addCDATA'):
                        getattr(el, call['op'])(u'x', check_grammar=cg)
                    elif call['op'] in ('text=', 'cdata='):
                        Element(qname=Q[e], check_grammar=False, **{call['op'][:-1]: u'x'})
                    elif call['op'] == 'setAttribute':
                        try:
                            el.setAttribute(call['keyword'], u'1', check_grammar=cg)
                        except ValueError:
                            pass
                    elif call['op'] == 'Element()':
                        probe = Element(qname=Q[e], check_grammar=False)
                        Element(qname=Q[e], check_grammar=cg,
                                qattributes=dict((V.G.attrs.items[aidn[a]], sw.good_value(V.G.attrs.items[aidn[a]], probe)) for a in call.get('given', [])))
                    o = 'accepted'
                except Exception as ex:
                    o = 'refused (%s)' % type(ex).__name__
                outcomes.append((call, o))
                print('replay: %s check_grammar=%s -> %s' % (dict((k, v) for k, v in call.items() if k not in ('observed', 'check_grammar')), cg, o))
            checked = [o for c_, o in outcomes if c_['op'] != 'load' and c_.get('check_grammar', True) and c_['op'] not in ('text=', 'cdata=') or c_.get('via')]
            same = len(set(checked)) <= 1
            print('replay: the checked calls %s' % ('agree' if same else 'DIFFER: the decision depends on the call history'))
            return 0 if same else 1
        if op == 'parent-history':
            # a history of calls on ONE parent (made afresh, or written to a package and load()ed with its initial children)
            p = eid[inp['parent']]
            if inp.get('route') == 'load':
                import io
                from odf.opendocument import OpenDocumentText, load
                doc = OpenDocumentText()
                P0 = Element(qname=Q[p], check_grammar=False)
                for cn in inp.get('initial', []):
                    P0.addElement(Element(qname=Q[eid[cn]], check_grammar=False), check_grammar=False)
                doc.text.addElement(P0, check_grammar=False)
                buf = io.BytesIO(); doc.save(buf); buf.seek(0)
                parent = [k for k in load(buf).text.childNodes if k.nodeType == 1][0]
                print('replay: <%s> with children %s written to a package and loaded' % (inp['parent'], inp.get('initial', [])))
            else:
                parent = Element(qname=Q[p], check_grammar=False)
            code = {'appendChild': 'a', 'insertBefore': 'i', 'addText': 't', 'removeChild': 'r'}
            bad = 0
            for call in inp['calls']:
                cd = code.get(call['do']) or ('c' if call.get('check_grammar', True) else 'u')
                c = eid[call['child']] if 'child' in call else None
                o = sw.run_ops(parent, [(cd, c, call.get('index', 0))], c)
                line = 'replay: %s(%s)%s -> %s' % (call['do'], call.get('child', ''), '' if cd != 'u' else ' check_grammar=False', {'.': 'returned', 'C': 'IllegalChild'}.get(o, o))
                if cd == 'c':
                    want = sw.schema_child(p, c)
                    fresh = sw.run_ops(Element(qname=Q[p], check_grammar=False), [('c', c, 0)], c)
                    line += '; the schema %s it; on an empty <%s>: %s' % ('permits' if want else 'does not permit', inp['parent'], {'.': 'accepted', 'C': 'IllegalChild'}.get(fresh, fresh))
                    if o != fresh or (o != ('.' if want else 'C') and o not in '.C'):
                        bad += 1; line += '   <-- depends on what the parent holds'
                elif o != '.':
                    bad += 1
                print(line)
            print('replay: childNodes afterwards: %s' % sw.kids_of(parent))
            return 1 if bad else 0
        if op == 'setAttribute-value':
            e = eid[inp['element']]; kw = inp['keyword']; route = inp.get('route', 'setAttribute')
            fac = None
            if route == 'factory':
                mn, fn = [(r[0], r[1]) for r in V.G.factories if r[2] == e][0]
                fac = getattr(importlib.import_module('odf.' + mn), fn)
            vals = dict(odd_values(Element, Q, V.EN))
            if inp['value'] not in vals:
                print('replay: value %r is not one of the values of this version of the check' % inp['value']); return 2
            b, _ = attr_value_call(Element, Q[e], route, kw, u'1', fac)
            o, left = attr_value_call(Element, Q[e], route, kw, vals[inp['value']], fac)
            sat = V.S[e]['at']
            want = (-1 in sat) or any(V.KN[V.G.attr_kw[a]] == kw for a in sat if a != -1)
            words = {'A': 'AttributeError', 'ok': 'accepted'}
            print('replay: %s on <%s>, keyword %r: with the value u\'1\': %s; with the value %s: %s%s; the schema %s an attribute of that keyword there' % (
                route, inp['element'], kw, words.get(b, b), inp['value'], words.get(o, o), ' (left behind: %r)' % (left,) if left else '',
                'permits' if want else 'does not permit'))
            return 1 if (b == 'A' and (o != 'A' or left)) else 0
        if op == 'text-string':
            e = eid[inp['element']]; route = inp['route']; check = inp.get('check_grammar', True)
            s = u''.join(chr(c) for c in inp['codepoints'])
            o, nodes = text_string_call(Element, Q[e], route, check, s)
            kind = 3 if route in ('addText', 'text=') else 4
            kept = nodes == [(kind, s)] or (s == u'' and nodes == [])
            want = V.S[e]['text']
            ignorable = all(c in XML_WS for c in s)
            bx, _ = text_string_call(Element, Q[e], route, check, u'x')
            print('replay: %s(%s)%s on <%s>: %s, the element holds %s afterwards; the schema gives <%s> %s; the string is %s; with \'x\': %s' % (
                route, ' '.join('U+%04X' % c for c in inp['codepoints']) or 'the empty string', '' if check else ' check_grammar=False', inp['element'],
                {'ok': 'accepted'}.get(o, o), nodes or 'nothing', inp['element'], 'character data' if want else 'no character data',
                'XML white space only' if ignorable else 'character data', {'ok': 'accepted'}.get(bx, bx)))
            if not check:
                return 0 if (o == 'ok' and kept) else 1
            if ignorable and not want:
                fine = (o == 'err IllegalText' and not nodes) or (o == 'ok' and (kept or not nodes))
            else:
                fine = (o == 'ok' and kept) if want else (o == 'err IllegalText' and not nodes)
            if not fine and o == bx and ((o == 'ok' and kept) or (o != 'ok' and not nodes)):
                print('replay: the same outcome as for the string \'x\': a difference of the element\'s row, not of the string'); return 0
            return 0 if fine else 1
        if op == 'addElement' and ('parent_qname' in inp or 'child_qname' in inp):
            pq = tuple(inp['parent_qname']) if 'parent_qname' in inp else Q[eid[inp['parent']]]
            cq = tuple(inp['child_qname']) if 'child_qname' in inp else Q[eid[inp['child']]]
            pid = V.G.elems.ids.get(pq, 900001); cid = V.G.elems.ids.get(cq, 900002)
            a = sw.drv.ask('schema %d' % pid).split()
            ch = set(parse_ids(a[3]))
            want = (-1 in ch) or (cid in ch)
            try:
                Element(qname=pq, check_grammar=False).addElement(Element(qname=cq, check_grammar=False)); got = True
            except Exception:
                got = False
            print('replay: addElement(%s) on <%s>: %s; the schema %s' % (inp['child'], inp['parent'], 'accepted' if got else 'refused', 'permits it' if want else 'does not permit it'))
            return 0 if got == want else 1
        if op == 'addText' and 'element_qname' in inp:
            try:
                Element(qname=tuple(inp['element_qname']), check_grammar=False).addText(u'x'); got = True
            except Exception:
                got = False
            print('replay: addText on <%s>: %s; the <anyName/> islands permit text' % (inp['element'], 'accepted' if got else 'refused'))
            return 0 if got else 1
        if op == 'addElement':
            p, c = eid[inp['parent']], eid[inp['child']]
            par = Element(qname=Q[p], check_grammar=False)
            if inp.get('filled'):
                par.addElement(Element(qname=Q[0], check_grammar=False), check_grammar=False)
            want = sw.schema_child(p, c)
            try:
                par.addElement(Element(qname=Q[c], check_grammar=False), check_grammar=inp.get('check_grammar', True)); got = True
            except Exception as e:
                got = False
            if not inp.get('check_grammar', True):
                want = True
            print('replay: addElement(%s) on <%s>: %s; expected %s' % (inp['child'], inp['parent'], 'accepted' if got else 'refused', 'accepted' if want else 'refused'))
            return 0 if got == want else 1
        if op in ('addText', 'addCDATA'):
            e = eid[inp['element']]
            el = Element(qname=Q[e], check_grammar=False)
            try:
                getattr(el, op)(u'x', check_grammar=inp.get('check_grammar', True)); got = True
            except Exception:
                got = False
            want = V.S[e]['text'] or not inp.get('check_grammar', True)
            print('replay: %s on <%s>: %s; expected %s' % (op, inp['element'], 'accepted' if got else 'refused', 'accepted' if want else 'refused'))
            return 0 if got == want else 1
        if op == 'setAttribute':
            e = eid[inp['element']]
            el = Element(qname=Q[e], check_grammar=False)
            kw = inp['keyword']
            want = (-1 in V.S[e]['at']) or any(V.KN[V.G.attr_kw[a]] == kw for a in V.S[e]['at'] if a != -1)
            got = None
            for v in VALUE_CANDIDATES:
                try:
                    el.setAttribute(kw, v); got = True; break
                except AttributeError:
                    got = False; break
                except Exception:
                    continue
            stored = [V.AN[aidn_] for aidn_ in []]
            landed = [a for a in el.attributes]
            okland = all((a in V.G.attrs.ids and (V.G.attrs.ids[a] in V.S[e]['at'] or -1 in V.S[e]['at'])) for a in landed)
            print('replay: setAttribute(%r) on <%s>: %s (stored %r); schema %s' % (kw, inp['element'], got, landed, 'permits' if want else 'does not permit'))
            return 0 if (got == want and okland) else 1
        if op == 'Element()':
            e = eid[inp['element']]
            if 'left_out' in inp:
                r = aidn[inp['left_out']]
                T = V.G.py_tables
                R = set(V.G.attrs.ids[a] for a in T['required_attributes'].get(Q[e], [])) | set(V.S[e]['must'])
                given = [a for a in R if a != r]
                want_fail = r in V.S[e]['must']
            else:
                given = [aidn[a] for a in inp.get('given', [])]; want_fail = False
            probe = Element(qname=Q[e], check_grammar=False)
            qa = dict((V.G.attrs.items[a], sw.good_value(V.G.attrs.items[a], probe)) for a in given)
            try:
                Element(qname=Q[e], qattributes=qa, check_grammar=inp.get('check_grammar', True)); failed = False
            except AttributeError:
                failed = True
            print('replay: Element(<%s>) given %s: %s; expected %s' % (inp['element'], [V.AN[a] for a in given], 'refused' if failed else 'constructed', 'refused' if want_fail else 'constructed'))
            return 0 if failed == want_fail else 1
        if op == 'factory':
            if 'element' in inp:
                e = eid[inp['element']]
                ok = any(r[2] == e for r in V.G.factories)
                print('replay: factory for <%s>: %s' % (inp['element'], 'found' if ok else 'none'))
                return 0 if ok else 1
            mn, fn = inp['factory'].split('.')
            el = getattr(importlib.import_module('odf.' + mn), fn)(check_grammar=False)
            en = V.EN[V.G.elems.ids[tuple(el.qname)]]
            ok = (en.partition(':')[0] == mn and tg.kw_of(en.partition(':')[2]) == fn.lower())
            print('replay: odf.%s.%s() -> <%s>' % (mn, fn, en))
            return 0 if ok else 1
    except KeyError as e:
        print('replay: name %s is not known to the current schema/tables' % e)
        return 1
    print('replay: unknown op %r' % op)
    return 2

# -*- coding: utf-8 -*-
"""
Translator for C19: the value-type -> value-attribute tables of odf/userfield.py, MEASURED on the code as it is
(one table for `update`, one for `list_fields_and_values`), and the class of the converter `setAttrNS` applies to
each value attribute.  Output: lean/OdfModel/Generated/ValueTypes.lean.

  updTable / listTable : for every value type that is a key of VALUE_TYPES or one of the seven ODF value types:
        which attribute of a declaration of that type `update` writes / `list_fields_and_values` reads
        (probe documents: one declaration per type; for `update` the attribute that appears, for listing the
        attribute whose distinctive value comes back)
  updDefault / listDefault : the same for a value type that is in no table ("zzz-unknown")
  updNone / listNone       : the same for a declaration without office:value-type
  convClasses              : attribute -> 0 (str(arg): identity on strings) | 1 (cnv_boolean) | 2 (anything else),
        measured by calling AttrConverters().convert on sample strings

The imported VALUE_TYPES dict is cross-checked against the measured tables (a disagreement is reported as a note).
"""
import io
import ufgen
from ufgen import OFFICENS, TEXTNS

KEYS = {(TEXTNS, u'name'): 0, (OFFICENS, u'value-type'): 1, (OFFICENS, u'value'): 2, (OFFICENS, u'date-value'): 3,
        (OFFICENS, u'time-value'): 4, (OFFICENS, u'boolean-value'): 5, (OFFICENS, u'string-value'): 6,
        (OFFICENS, u'currency'): 7, (TEXTNS, u'formula'): 8}
KEY_NAMES = {0: 'text:name', 1: 'office:value-type', 2: 'office:value', 3: 'office:date-value', 4: 'office:time-value',
             5: 'office:boolean-value', 6: 'office:string-value', 7: 'office:currency', 8: 'text:formula'}
VALUE_KEYS = [2, 3, 4, 5, 6]
UNKNOWN_KEY = 999
PREFIXED = {2: u'office:value', 3: u'office:date-value', 4: u'office:time-value', 5: u'office:boolean-value',
            6: u'office:string-value'}
TOKENS = {2: u'tok-value', 3: u'tok-date', 4: u'tok-time', 5: u'true', 6: u'tok-string'}


def key_of(q):
    return KEYS.get(q, UNKNOWN_KEY)


def bool_ref(s):
    l = s.lower()
    if l in (u'0', u'false', u'no'):
        return u'false'
    if l in (u'1', u'true', u'yes'):
        return u'true'
    return None


def measure():
    from odf.userfield import UserFields
    import odf.userfield
    from odf.attrconverters import AttrConverters
    from odf.text import UserFieldDecl
    declared = getattr(odf.userfield, 'VALUE_TYPES', None)
    types = sorted(set(list(declared.keys()) if isinstance(declared, dict) else []) | set(ufgen.SEVEN))
    types = [t for t in types if isinstance(t, str)]
    probes = types + [u'zzz-unknown', None]
    notes = []
    # ---- update: which attribute appears
    decls = []
    for i, t in enumerate(probes):
        a = [(u'text:name', u'p%d' % i)]
        if t is not None:
            a.append((u'office:value-type', t))
        decls.append(a)
    raw, _ = ufgen.make_package(decls, [(u'x', None)])
    dest = io.BytesIO()
    UserFields(io.BytesIO(raw), dest).update(dict((u'p%d' % i, u'true') for i in range(len(probes))))
    got = ufgen.read_decls(ufgen.unzip(dest.getvalue()))
    upd = {}
    for i, t in enumerate(probes):
        mine = [d for d in got if d.get((TEXTNS, u'name')) == u'p%d' % i]
        new = [q for d in mine for q in d if q not in ((TEXTNS, u'name'), (OFFICENS, u'value-type'))]
        upd[t] = key_of(new[0]) if len(mine) == 1 and len(new) == 1 and mine[0][new[0]] == u'true' else UNKNOWN_KEY
    # ---- listing: which attribute's value comes back
    decls = []
    for i, t in enumerate(probes):
        a = [(u'text:name', u'p%d' % i)]
        if t is not None:
            a.append((u'office:value-type', t))
        a.extend((PREFIXED[k], TOKENS[k]) for k in VALUE_KEYS)
        decls.append(a)
    raw, _ = ufgen.make_package(decls, [(u'x', None)])
    rows = UserFields(io.BytesIO(raw), io.BytesIO()).list_fields_and_values()
    lst = {}
    back = dict((v, k) for k, v in TOKENS.items())
    for i, t in enumerate(probes):
        mine = [r for r in rows if r[0] == u'p%d' % i]
        lst[t] = back.get(mine[0][2], UNKNOWN_KEY) if len(mine) == 1 else UNKNOWN_KEY
    # ---- converter classes
    samples = [u'x', u' <&>"\' \t\n', u'TRUE', u'é\U0001F600', u'0', u'', u'maybe', u'No', u'yes', u'1', u'false']
    conv = {}
    inv = dict((v, k) for k, v in KEYS.items())
    el = UserFieldDecl(check_grammar=False)
    for k in sorted(set(VALUE_KEYS) | set(v for v in upd.values() if v in inv)):
        outs = []
        for s in samples:
            try:
                outs.append(AttrConverters().convert(inv[k], s, el))
            except ValueError:
                outs.append(None)
            except Exception as e:      # noqa
                outs.append(('exc', type(e).__name__))
        if outs == samples:
            conv[k] = 0
        elif outs == [bool_ref(s) for s in samples]:
            conv[k] = 1
        else:
            conv[k] = 2
    # ---- cross-check with the declared dict
    if isinstance(declared, dict):
        for t, q in sorted(declared.items(), key=lambda x: repr(x[0])):
            if t in upd and key_of(tuple(q)) != upd[t]:
                notes.append('update writes %s for value type %r although VALUE_TYPES declares %s' % (
                    KEY_NAMES.get(upd[t], upd[t]), t, KEY_NAMES.get(key_of(tuple(q)), q)))
            if t in lst and key_of(tuple(q)) != lst[t]:
                notes.append('listing reads %s for value type %r although VALUE_TYPES declares %s' % (
                    KEY_NAMES.get(lst[t], lst[t]), t, KEY_NAMES.get(key_of(tuple(q)), q)))
    else:
        notes.append('odf.userfield.VALUE_TYPES is not a dict')
    return {'types': types, 'upd': upd, 'list': lst, 'conv': conv, 'notes': notes}


def to_lean(m):
    def cps(s):
        return '[' + ', '.join(str(ord(c)) for c in s) + ']'

    def table(d):
        dflt = d[u'zzz-unknown']
        rows = [(t, d[t]) for t in m['types'] if d[t] != dflt]
        return dflt, d[None], rows
    L = ['/-',
         '  GENERATED by harness/translate_userfield.py (measured on odf/userfield.py as it is) - do not edit.',
         '  attribute keys: ' + ', '.join('%d=%s' % kv for kv in sorted(KEY_NAMES.items())) + ', 999=not identified',
         '  value types probed: ' + ', '.join(m['types']) + ', "zzz-unknown", (no office:value-type)',
         '-/',
         'namespace OdfModel.Generated.ValueTypes', '']
    for nm, d in (('upd', m['upd']), ('list', m['list'])):
        dflt, none_, rows = table(d)
        L.append('/-- value type ↦ value attribute used by `%s` (types not listed: the default) -/' %
                 ('update' if nm == 'upd' else 'list_fields_and_values'))
        L.append('def %sTable : List (List Nat × Nat) := [' % nm)
        L.append(',\n'.join('  (%s, %d)  /- %s -/' % (cps(t), k, t) for t, k in rows))
        L.append(']')
        L.append('def %sDefault : Nat := %d' % (nm, dflt))
        L.append('def %sNone : Nat := %d' % (nm, none_))
        L.append('')
    L.append('/-- value attribute ↦ class of the converter `setAttrNS` runs: 0 identity, 1 cnv_boolean, 2 other -/')
    L.append('def convClasses : List (Nat × Nat) := [' + ', '.join('(%d, %d)' % kv for kv in sorted(m['conv'].items())) + ']')
    L.append('')
    L.append('end OdfModel.Generated.ValueTypes')
    return '\n'.join(L) + '\n'


if __name__ == '__main__':
    import sys, os
    sys.path.insert(0, os.environ.get('ODFPY_REPO', '/repo'))
    m = measure()
    print(m)
    print(to_lean(m))

# -*- coding: utf-8 -*-
"""
Translator for C13: AST inventory of every XML-parser construction / call in odf/*.py and in the shipped
scripts (the `scripts=[...]` list of setup.py), written to lean/OdfModel/Generated/ParseSites.lean.

For every call whose callee resolves (through the imports visible at the call: module level and the
enclosing function's own `import` statements, aliases followed) to a parser-constructing function of
xml.* / defusedxml.* / pyexpat / lxml it records

  file, line, enclosing function, the resolved dotted callee, its ORIGIN (0 defused = `defusedxml.*`,
  1 plain = `xml.*`, pyexpat, lxml, 2 unknown), its API (0 sax = make_parser / sax.parse*, 1 dom =
  minidom / pulldom / expatbuilder, 2 etree, 3 expat), the package members whose bytes flow into it
  (string literals `*.xml` read from the zip in the enclosing function, `objectpath + 'x.xml'` loops, or - when
  the data is a parameter - the literals read by the callers), and whether the member name is prefixed by a
  parameter (`objectpath`).

and, for the reading entry points of the library, the set of sites reachable over a name-based call graph.

Nothing here judges the inventory: the Lean theorems (OdfModel.Props.C13) do.
"""
import ast, os, re, warnings

PARSER_LAST = {
    'make_parser', 'parse', 'parseString', 'fromstring', 'fromstringlist', 'XML', 'XMLID', 'iterparse', 'XMLParser',
    'XMLPullParser', 'ParserCreate', 'create_parser', 'ExpatParser', 'parseFragment', 'parseFragmentString',
    'ExpatBuilder', 'ExpatBuilderNS', 'DOMBuilder', 'ElementTree', 'TreeBuilder', 'DefusedExpatParser',
    'DefusedExpatBuilder', 'DefusedExpatBuilderNS', 'DefusedXMLParser', 'XMLTreeBuilder',
}
PARSER_ROOTS = ('xml', 'defusedxml', 'pyexpat', 'lxml', 'expat', '_elementtree', 'xmlrpc')
NOT_PARSER_PREFIX = ('xml.sax.saxutils', 'xml.sax.handler', 'xml.sax.xmlreader', 'xml.dom.Node', 'xml.sax._exceptions',
                     'xml.sax.InputSource')

PART_CODE = {'META-INF/manifest.xml': 0, 'settings.xml': 1, 'meta.xml': 2, 'content.xml': 3, 'styles.xml': 4}
PART_UNKNOWN = 9

# (code, file, qualified function) - codes are those of `EP.code` in lean/OdfModel/Entity.lean
ENTRY_POINTS = [
    (0, 'odf/opendocument.py', 'load'),
    (1, 'odf/odfmanifest.py', 'manifestlist'),
    (2, 'odf/odfmanifest.py', 'odfmanifest'),
    (3, 'odf/userfield.py', 'UserFields.list_fields'),
    (4, 'odf/userfield.py', 'UserFields.list_fields_and_values'),
    (5, 'odf/userfield.py', 'UserFields.list_values'),
    (6, 'odf/userfield.py', 'UserFields.get'),
    (7, 'odf/userfield.py', 'UserFields.get_type_and_value'),
    (8, 'odf/userfield.py', 'UserFields.update'),
    (9, 'odf/userfield.py', 'UserFields.loaddoc'),
    (10, 'odf/odf2xhtml.py', 'ODF2XHTML.load'),
    (11, 'odf/odf2xhtml.py', 'ODF2XHTML.odf2xhtml'),
    (12, 'odf/odf2moinmoin.py', 'ODF2MoinMoin.__init__'),
    (13, 'odf/odf2moinmoin.py', 'ODF2MoinMoin.load'),
]


def shipped_scripts(repo):
    out = []
    p = os.path.join(repo, 'setup.py')
    if os.path.exists(p):
        with open(p, encoding='utf-8') as f:
            try:
                tree = ast.parse(f.read())
            except SyntaxError:
                tree = None
        if tree is not None:
            for n in ast.walk(tree):
                if isinstance(n, ast.keyword) and n.arg == 'scripts' and isinstance(n.value, (ast.List, ast.Tuple)):
                    for e in n.value.elts:
                        if isinstance(e, ast.Constant) and isinstance(e.value, str):
                            out.append(e.value)
    # anything at top level that looks like <name>/<name> with a python shebang
    for d in sorted(os.listdir(repo)):
        q = os.path.join(repo, d, d)
        if os.path.isfile(q) and (d + '/' + d) not in out:
            with open(q, 'rb') as f:
                if b'python' in f.readline():
                    out.append(d + '/' + d)
    return sorted(set(s for s in out if os.path.isfile(os.path.join(repo, s))))


def dotted(node):
    """Name / Attribute chain -> ['a','b','c'] or None"""
    parts = []
    while isinstance(node, ast.Attribute):
        parts.append(node.attr)
        node = node.value
    if isinstance(node, ast.Name):
        parts.append(node.id)
        return list(reversed(parts))
    return None


def import_bindings(stmts):
    """names bound by the import statements directly among `stmts` (not descending into nested defs)"""
    b = {}
    for n in stmts:
        if isinstance(n, ast.Import):
            for a in n.names:
                if a.asname:
                    b[a.asname] = a.name
                else:
                    b[a.name.split('.')[0]] = a.name.split('.')[0]
        elif isinstance(n, ast.ImportFrom):
            mod = ('.' * (n.level or 0)) + (n.module or '')
            for a in n.names:
                if a.name == '*':
                    b.setdefault('*', []).append(mod)
                else:
                    b[a.asname or a.name] = mod + '.' + a.name
    return b


def own_nodes(fn):
    """all nodes of a function body that belong to it (nested function/class bodies excluded)"""
    out = []
    stack = [c for c in (fn.body if hasattr(fn, 'body') else [])
             if not isinstance(c, (ast.FunctionDef, ast.AsyncFunctionDef, ast.ClassDef))]
    while stack:
        n = stack.pop()
        out.append(n)
        for c in ast.iter_child_nodes(n):
            if isinstance(c, (ast.FunctionDef, ast.AsyncFunctionDef, ast.ClassDef, ast.Lambda)):
                continue
            stack.append(c)
    return out


class Func(object):
    def __init__(self, file, qual, node, cls):
        self.file, self.qual, self.node, self.cls = file, qual, node, cls
        self.name = qual.split('.')[-1]
        self.params = [a.arg for a in node.args.args] if hasattr(node, 'args') else []
        self.nodes = own_nodes(node) if hasattr(node, 'body') else []
        self.imports = import_bindings([n for n in self.nodes if isinstance(n, (ast.Import, ast.ImportFrom))])
        self.sites = []
        self.calls = []       # (kind, payload)


def collect_funcs(file, tree):
    funcs = []

    def visit(body, prefix, cls):
        for n in body:
            if isinstance(n, (ast.FunctionDef, ast.AsyncFunctionDef)):
                q = prefix + n.name
                funcs.append(Func(file, q, n, cls))
                visit(n.body, q + '.', cls)
            elif isinstance(n, ast.ClassDef):
                visit(n.body, prefix + n.name + '.', prefix + n.name)
            elif isinstance(n, (ast.If, ast.Try, ast.With, ast.For, ast.While)):
                for fld in ('body', 'orelse', 'finalbody'):
                    visit(getattr(n, fld, []) or [], prefix, cls)
                for h in getattr(n, 'handlers', []) or []:
                    visit(h.body, prefix, cls)
    visit(tree.body, '', None)
    # the module body itself is a pseudo function (scripts do their work there)
    mod = ast.Module(body=[n for n in tree.body], type_ignores=[])
    m = Func.__new__(Func)
    m.file, m.qual, m.node, m.cls, m.name, m.params = file, '<module>', mod, None, '<module>', []
    m.nodes = own_nodes(mod)
    m.imports = {}
    m.sites, m.calls = [], []
    funcs.append(m)
    return funcs


def module_file(mod, repo, files):
    """file of the inventory that `import mod` would load, or None"""
    mod = mod.lstrip('.')
    cands = [mod.replace('.', '/') + '.py', 'odf/' + mod.replace('.', '/') + '.py']
    for c in cands:
        if c in files:
            return c
    return None


def origin_of(path):
    root = path.split('.')[0]
    if root == 'defusedxml':
        return 0
    if root in PARSER_ROOTS:
        return 1
    return 2


def api_of(path):
    p = path.lower()
    if 'minidom' in p or 'pulldom' in p or 'expatbuilder' in p or '.dom.' in p:
        return 1
    if 'etree' in p or 'elementtree' in p or 'lxml' in p:
        return 2
    if 'sax' in p or 'expatreader' in p:
        return 0
    return 3


def xml_literals(node):
    """*.xml string constants inside an expression, with a flag 'prefixed by a Name via +'"""
    out = []
    for n in ast.walk(node):
        if isinstance(n, ast.BinOp) and isinstance(n.op, ast.Add) and isinstance(n.right, ast.Constant) \
                and isinstance(n.right.value, str) and n.right.value.endswith('.xml') and isinstance(n.left, ast.Name):
            out.append((n.right.value, n.left.id))
    consts_in_binop = set(id(n.right) for n in ast.walk(node) if isinstance(n, ast.BinOp) and isinstance(n.right, ast.Constant))
    for n in ast.walk(node):
        if isinstance(n, ast.Constant) and isinstance(n.value, str) and n.value.endswith('.xml') and id(n) not in consts_in_binop:
            out.append((n.value, None))
    return out


def doctype_guard(fn, call):
    """the function holding the parse site tests `.systemId` / `.publicId` of something AFTER the parse call and raises
    in the body of that test (ODF2MoinMoin._parse: `if dt is not None and (dt.systemId or dt.publicId): raise ...`)"""
    for n in fn.nodes:
        if isinstance(n, ast.If) and n.lineno > call.lineno:
            attrs = set(a.attr for a in ast.walk(n.test) if isinstance(a, ast.Attribute))
            if {'systemId', 'publicId'} <= attrs and any(isinstance(b, ast.Raise) for b in n.body):
                # both identifiers must be in a disjunction (either one triggers)
                ors = [b for b in ast.walk(n.test) if isinstance(b, ast.BoolOp) and isinstance(b.op, ast.Or)]
                if any({'systemId', 'publicId'} <= set(a.attr for v in o.values for a in ast.walk(v) if isinstance(a, ast.Attribute))
                       for o in ors):
                    return True
    return False


def text_transformers(fn):
    """functions applied to a variable and assigned back to a variable inside the function holding the parse site:
    `xmlpart = __fixXmlPart(xmlpart)`, `data = re.sub(..., data)`, `data = data.replace(...)`; pure codec steps
    (`.decode`, `.encode`, `str`, `bytes`, `.read`, `StringIO`/`BytesIO`) are not text transformers"""
    codec = {'decode', 'encode', 'str', 'bytes', 'unicode', 'read', 'StringIO', 'BytesIO', 'InputSource', 'make_parser',
             'LoadParser', 'isinstance', 'type', 'len'}
    out = []
    for n in fn.nodes:
        if isinstance(n, (ast.Assign, ast.AugAssign)) and isinstance(n.value, ast.Call):
            targets = n.targets if isinstance(n, ast.Assign) else [n.target]
            if not all(isinstance(t, ast.Name) for t in targets):
                continue
            f = n.value.func
            name = f.id if isinstance(f, ast.Name) else (f.attr if isinstance(f, ast.Attribute) else None)
            if name is None or name in codec:
                continue
            argnames = set(a.id for x in list(n.value.args) + [k.value for k in n.value.keywords] for a in ast.walk(x) if isinstance(a, ast.Name))
            recv = f.value.id if isinstance(f, ast.Attribute) and isinstance(f.value, ast.Name) else None
            tn = set(t.id for t in targets)
            # the assigned variable is computed from itself (argument or receiver): a rewrite of the data in flight
            if tn & argnames or (recv in tn):
                out.append(name)
    return sorted(out)


def media_conditions(fn, scopes):
    """conditions on a MEDIA TYPE that decide whether the parse site is reached: `if` statements, in the function holding
    the site or in a function calling it, whose test reads a media type (`[...]['media-type']`, a name containing
    mimetype / mediatype / media_type) and whose body leaves the dispatch (break / continue / return / raise) or contains
    the call of the site's function.  The property does not care what kind of object a folder holds, so a dispatch that
    does is a condition under which a member may escape the refusing parser."""
    out = []
    for g in scopes:
        for n in g.nodes:
            if not isinstance(n, ast.If):
                continue
            mentions = False
            for t in ast.walk(n.test):
                if isinstance(t, ast.Constant) and isinstance(t.value, str) and t.value.lower().replace('_', '-') in ('media-type', 'mediatype'):
                    mentions = True
                if isinstance(t, ast.Name) and any(w in t.id.lower() for w in ('mimetype', 'mediatype', 'media_type')):
                    mentions = True
                if isinstance(t, ast.Attribute) and any(w in t.attr.lower() for w in ('mimetype', 'mediatype', 'media_type')):
                    mentions = True
            if not mentions:
                continue
            body = list(n.body) + list(n.orelse)
            leaves = any(isinstance(b, (ast.Break, ast.Continue, ast.Return, ast.Raise)) for b in body)
            calls = any(isinstance(c, ast.Call) and ((isinstance(c.func, ast.Name) and c.func.id == fn.name) or
                                                     (isinstance(c.func, ast.Attribute) and c.func.attr == fn.name))
                        for b in body for c in ast.walk(b))
            if leaves or calls:
                out.append('%s:%d' % (g.qual, n.lineno))
    return sorted(set(out))


def inventory(repo):
    files = sorted('odf/' + f for f in os.listdir(os.path.join(repo, 'odf')) if f.endswith('.py'))
    scripts = shipped_scripts(repo)
    allfiles = files + scripts
    trees = {}
    skipped = []
    for f in allfiles:
        with open(os.path.join(repo, f), 'rb') as fh:
            src = fh.read()
        try:
            with warnings.catch_warnings():
                warnings.simplefilter('ignore')
                trees[f] = ast.parse(src)
        except SyntaxError as e:
            skipped.append('%s: %s' % (f, e))
    modimports = {f: import_bindings([n for n in ast.walk(trees[f]) if isinstance(n, (ast.Import, ast.ImportFrom))
                                      and _at_module_level(trees[f], n)]) for f in trees}
    funcs = {}
    for f in trees:
        funcs[f] = collect_funcs(f, trees[f])
    by_name = {}       # (file, simple name) -> [Func]
    for f in funcs:
        for fn in funcs[f]:
            by_name.setdefault((f, fn.name), []).append(fn)

    def resolve(fn, parts):
        """dotted callee -> resolved dotted path using the function's own imports, then the module's"""
        head = parts[0]
        for scope in (fn.imports, modimports[fn.file]):
            if head in scope:
                return '.'.join([scope[head]] + parts[1:])
        return None

    sites = []
    for f in sorted(funcs):
        for fn in funcs[f]:
            for n in fn.nodes:
                if not isinstance(n, ast.Call):
                    continue
                parts = dotted(n.func)
                if parts is None:
                    # e.g. make_parser().parse(x): the inner call is visited on its own
                    if isinstance(n.func, ast.Attribute):
                        fn.calls.append(('attr', None, n.func.attr, n))
                    continue
                path = resolve(fn, parts)
                if path is not None and path.split('.')[0] in PARSER_ROOTS and path.split('.')[-1] in PARSER_LAST \
                        and not any(path.startswith(p) for p in NOT_PARSER_PREFIX):
                    s = {'file': f, 'line': n.lineno, 'func': fn.qual, 'callee_path': path, 'origin': origin_of(path),
                         'api': api_of(path), 'library': f.startswith('odf/'), 'node': n, 'fn': fn}
                    sites.append(s)
                    fn.sites.append(s)
                    continue
                if len(parts) == 1:
                    fn.calls.append(('name', path, parts[0], n))
                else:
                    fn.calls.append(('attr', path, parts[-1], n) if path is None else ('name', path, parts[-1], n))
                    if parts[0] == 'self':
                        fn.calls[-1] = ('self', None, parts[-1], n)

    # ---- member flow
    def reads_in(fn):
        """xml literals that the function passes to a call (z.read('content.xml'), getxmlpart(f, 'content.xml')) or
        iterates over (for xmlfile in (objectpath + 'settings.xml', ...)); membership tests only as a fall-back"""
        lits = []
        for n in fn.nodes:
            if isinstance(n, ast.Call):
                for a in n.args:
                    lits.extend(xml_literals(a))
            if isinstance(n, ast.For):
                lits.extend(xml_literals(n.iter))
        if not lits:
            for n in fn.nodes:
                if isinstance(n, ast.Compare):
                    lits.extend(xml_literals(n))
        return lits

    def passed_in(g, fn):
        """xml literals that caller g passes to fn: directly, or through a variable assigned in g"""
        lits = []
        assigned = {}
        for n in g.nodes:
            if isinstance(n, ast.Assign):
                for t in n.targets:
                    if isinstance(t, ast.Name):
                        assigned.setdefault(t.id, []).extend(xml_literals(n.value))
        for kind, path, name, node in g.calls:
            if name != fn.name or fn not in targets(g, kind, path, name):
                continue
            for a in list(node.args) + [k.value for k in node.keywords]:
                lits.extend(xml_literals(a))
                for m in ast.walk(a):
                    if isinstance(m, ast.Name):
                        lits.extend(assigned.get(m.id, []))
        return lits

    def callers_of(fn):
        out = []
        for f in funcs:
            for g in funcs[f]:
                for kind, path, name, node in g.calls:
                    if name == fn.name and targets(g, kind, path, name) and fn in targets(g, kind, path, name):
                        out.append(g)
        return out

    def targets(g, kind, path, name):
        """functions a call may reach"""
        res = []
        if kind == 'name':
            if path is not None:
                mod, _, leaf = path.rpartition('.')
                mf = module_file(mod, repo, trees)
                if mf is not None:
                    res = [x for x in by_name.get((mf, leaf), []) if '.' not in x.qual or x.qual.endswith('.__init__')]
                    # a class: its constructor
                    res += [x for x in funcs[mf] if x.qual == leaf + '.__init__']
                    return res
                mf = module_file(path, repo, trees)
                return []
            # a module-level def / class of the same file (or a nested def)
            res = [x for x in by_name.get((g.file, name), [])]
            res += [x for x in funcs[g.file] if x.qual == name + '.__init__']
            return res
        if kind == 'self':
            same = [x for x in by_name.get((g.file, name), []) if g.cls and x.qual == g.cls + '.' + name]
            return same or by_name.get((g.file, name), [])
        if kind == 'attr':
            return by_name.get((g.file, name), [])
        return []

    for s in sites:
        fn = s['fn']
        via = 'argument'
        lits = [l for a in list(s['node'].args) + [k.value for k in s['node'].keywords] for l in xml_literals(a)]
        if not lits:
            via = 'enclosing function'
            lits = reads_in(fn)
        if not lits and fn.params:
            via = 'callers'
            for g in callers_of(fn):
                got = passed_in(g, fn)
                lits.extend(got if got else reads_in(g))
        members = sorted(set(PART_CODE.get(l, PART_UNKNOWN) for l, _ in lits)) or [PART_UNKNOWN]
        s['members'] = members
        s['member_names'] = sorted(set(l for l, _ in lits))
        s['obj_param'] = any(pfx is not None and pfx in fn.params for _, pfx in lits)
        s['doctype_guard'] = doctype_guard(fn, s['node'])
        s['prep_names'] = text_transformers(fn)
        s['media_conds'] = media_conditions(fn, [fn] + callers_of(fn))
        s['via'] = via

    # ---- reach
    def closure(start):
        seen, stack = set(), list(start)
        while stack:
            g = stack.pop()
            if id(g) in seen:
                continue
            seen.add(id(g))
            yield g
            for kind, path, name, node in g.calls:
                stack.extend(targets(g, kind, path, name))
            # nested defs are assumed to run
            for x in funcs[g.file]:
                if x.qual.startswith(g.qual + '.') and g.qual != '<module>':
                    stack.append(x)

    sites.sort(key=lambda s: (not s['library'], s['file'], s['line'], s['func']))
    for i, s in enumerate(sites):
        s['id'] = i
        s['reached_by'] = []
    reach = []
    missing = []
    for code, f, qual in ENTRY_POINTS:
        start = [x for x in funcs.get(f, []) if x.qual == qual]
        if not start:
            missing.append((code, f, qual))
            continue
        ids = sorted(set(s['id'] for g in closure(start) for s in g.sites))
        reach.append((code, ids))
        for i in ids:
            sites[i]['reached_by'].append(qual)
    for s in sites:
        s['origin_name'] = {0: 'defused', 1: 'plain', 2: 'unknown'}[s['origin']]
        del s['node'], s['fn']
    return {'sites': sites, 'reach': reach, 'missing_entry_points': missing, 'files': allfiles, 'scripts': scripts,
            'skipped': skipped}


def _at_module_level(tree, node):
    """True when the import statement is not inside a function or class body"""
    for n in ast.walk(tree):
        if isinstance(n, (ast.FunctionDef, ast.AsyncFunctionDef, ast.ClassDef, ast.Lambda)):
            for m in ast.walk(n):
                if m is node:
                    return False
    return True


def summary(inv):
    return {'files_scanned': len(inv['files']), 'scripts': inv['scripts'],
            'sites': [{k: s[k] for k in ('id', 'file', 'line', 'func', 'callee_path', 'origin_name', 'member_names', 'obj_param', 'doctype_guard', 'prep_names', 'media_conds',
                                         'reached_by')} for s in inv['sites']],
            'reach': inv['reach'], 'missing_entry_points': inv['missing_entry_points'], 'unparsable': inv['skipped']}


def to_lean(inv):
    files = sorted(set(s['file'] for s in inv['sites']))
    fcode = {f: i for i, f in enumerate(files)}
    funcs = sorted(set((s['file'], s['func']) for s in inv['sites']))
    ucode = {u: i for i, u in enumerate(funcs)}
    callees = sorted(set(s['callee_path'] for s in inv['sites']))
    ccode = {c: i for i, c in enumerate(callees)}
    L = []
    L.append('/-')
    L.append('  GENERATED by harness/translate_entity.py from the working tree of odfpy - do not edit.')
    L.append('  Inventory of XML-parser constructions (see OdfModel/ParseSite.lean for the field meanings).')
    L.append('')
    L.append('  files:   ' + ', '.join('%d=%s' % (fcode[f], f) for f in files))
    L.append('  funcs:   ' + ', '.join('%d=%s:%s' % (ucode[u], u[0], u[1]) for u in funcs))
    L.append('  callees: ' + ', '.join('%d=%s' % (ccode[c], c) for c in callees))
    L.append('  parts:   0=META-INF/manifest.xml 1=settings.xml 2=meta.xml 3=content.xml 4=styles.xml 9=unknown/any')
    for s in inv['sites']:
        L.append('  site %d: %s:%d in %s calls %s (%s) members %s%s%s' % (
            s['id'], s['file'], s['line'], s['func'], s['callee_path'], s['origin_name'], s['member_names'] or '?',
            ' prefixed by a parameter' if s['obj_param'] else '',
            (' + doctype system/public id guard' if s['doctype_guard'] else '') +
            (' ; text pre-processing: ' + ', '.join(s['prep_names']) if s['prep_names'] else '') +
            (' ; MEDIA-TYPE DEPENDENT DISPATCH at ' + ', '.join(s['media_conds']) if s['media_conds'] else '') + ('' if s['library'] else '  [shipped script]')))
    L.append('-/')
    L.append('import OdfModel.ParseSite')
    L.append('namespace OdfModel.Generated.ParseSites')
    L.append('open OdfModel.ParseSite')
    L.append('')

    def site(s):
        return '⟨%d, %d, %d, %d, %d, %d, [%s], %s, %s, %d, %d⟩' % (
            s['id'], fcode[s['file']], ucode[(s['file'], s['func'])], ccode[s['callee_path']], s['origin'], s['api'],
            ', '.join(str(m) for m in s['members']), 'true' if s['obj_param'] else 'false',
            'true' if s['doctype_guard'] else 'false', len(s['prep_names']), len(s['media_conds']))
    lib = [s for s in inv['sites'] if s['library']]
    scr = [s for s in inv['sites'] if not s['library']]
    L.append('/-- parser constructions in the library `odf/*.py` -/')
    L.append('def sites : List Site := [' + (',\n  '.join([''] + [site(s) for s in lib])[1:] if lib else '') + ']')
    L.append('')
    L.append('/-- parser constructions in the shipped scripts (not library entry points; informational) -/')
    L.append('def scriptSites : List Site := [' + (',\n  '.join([''] + [site(s) for s in scr])[1:] if scr else '') + ']')
    L.append('')
    L.append('/-- entry point code (see `EP.code`) ↦ ids of the sites its call graph reaches -/')
    L.append('def reach : List (Nat × List Nat) := [' + ', '.join('(%d, [%s])' % (c, ', '.join(map(str, ids))) for c, ids in inv['reach']) + ']')
    L.append('')
    L.append('end OdfModel.Generated.ParseSites')
    return '\n'.join(L) + '\n'


if __name__ == '__main__':
    import sys, json
    inv = inventory(sys.argv[1] if len(sys.argv) > 1 else '/repo')
    print(json.dumps(summary(inv), indent=1))
    print(to_lean(inv))

# -*- coding: utf-8 -*-
"""C12 - producing output never changes the document and is repeatable.

proof:          lean/OdfModel/Props/C12.lean (normGen_idempotent, render_pure, queries_pure,
                render_history_independent, render_repeatable, ...) about lean/OdfModel/Render.lean
correspondence: the same sequence of output calls on the real document and on drv_render: document dump
                after every call (unchanged / exactly the model's new document) and every output
                (XML infoset, package member list) compared
oracle:         on the real library, independent of the model, for one document and for several live documents
                (unrelated ones, a parent and its embedded objects) with interleaved calls: deep snapshot of the document (tree,
                parent/owner links, getElementsByType / getStyleByName results, Pictures, child objects,
                instance attributes) before and after every call - equal apart from the meta:generator children
                of office:meta, which are untouched or normalised (exactly one, the library's string, found by
                the query, wherever it sits); pairwise infoset comparison (expat) of repeated outputs of the
                same kind (zips member-wise, timestamps ignored).
                Failed calls are calls too: save()/write() to a stream of the caller whose write() raises at its n-th call, with a
                picture file (registered by file name) missing at that moment, or to a path that cannot be created.  A call
                that raised returns nothing; the document after it is judged like after any other call (instance attributes
                that first appear during a failed call are output scratch state, not document content: counted, and left out
                of the comparison from then on) and every later output is compared with the earlier ones of its kind.  The
                model is driven through the same histories (Render.Call: failedEarly / failedLate = metaxml() had not / had run).
                Documents with REPEATED names of named things (font faces, styles in both containers / two families / renamed to a
                taken name, master pages, page layouts, metadata entries, settings, bookmarks, sections, tables) and documents whose
                media type has surrounding white space (loaded from a package whose mimetype member was rewritten with zipfile -
                'echo ... > mimetype' -, or handed to OpenDocument(); also an embedded object's) are documents too (builders 5-7;
                theorems: OdfModel.Props.C12Named).  The snapshot asks EVERY query the tree gives rise to: getElementsByType for
                every element name a plain traversal finds (same objects, same order, same content), getStyleByName for every
                value of an attribute called name, getMediaType() / doc.mimetype / the top node's office:mimetype.
"""
import io, os, zipfile, json, itertools, tempfile, shutil, atexit
from common import enc_str
from c10 import parse_infoset, mem_infoset, NS
import translate_styles

OFFICE = NS['office']
META = u'urn:oasis:names:tc:opendocument:xmlns:meta:1.0'
MANIFEST = u'urn:oasis:names:tc:opendocument:xmlns:manifest:1.0'
GEN = (META, u'generator')
OPS = ['save', 'write', 'xml', 'contentxml', 'stylesxml', 'metaxml', 'settingsxml']
LETTER = {'save': 'S', 'write': 'W', 'xml': 'X', 'contentxml': 'C', 'stylesxml': 'Y', 'metaxml': 'M', 'settingsxml': 'T'}
PNG = b'\x89PNG\r\n\x1a\n' + b'\x00' * 16

RES_ELEM = {(OFFICE, 'document'): 1, (OFFICE, 'document-content'): 2, (OFFICE, 'document-styles'): 3,
            (OFFICE, 'document-meta'): 4, (OFFICE, 'document-settings'): 5, (OFFICE, 'automatic-styles'): 6,
            GEN: 7, (MANIFEST, 'manifest'): 8, (MANIFEST, 'file-entry'): 9}
RES_ATTR = {(OFFICE, 'version'): 900, (MANIFEST, 'full-path'): 902, (MANIFEST, 'media-type'): 903}


# ------------------------------------------------------------------ picture files (scratch directory, removed at exit)
_SCRATCH = {'dir': None, 'n': 0}


def new_file(data, ext=u'.png'):
    if _SCRATCH['dir'] is None:
        _SCRATCH['dir'] = tempfile.mkdtemp(prefix='c12-pictures-')
        atexit.register(shutil.rmtree, _SCRATCH['dir'], True)
    _SCRATCH['n'] += 1
    path = os.path.join(_SCRATCH['dir'], u'pic%d%s' % (_SCRATCH['n'], ext))
    with open(path, 'wb') as f:
        f.write(data)
    return path


def picture_files(doc, prefix=u''):
    """{member name in the package: path} for every picture registered by FILE NAME, in doc and its objects"""
    out = {}
    for arc, (what, val, mt) in doc.Pictures.items():
        if what == 0:                      # IS_FILENAME
            out[prefix + arc] = val
    for o in doc.childobjects:
        out.update(picture_files(o, prefix + o.folder[len(doc.folder) + 1:] + u'/'))
    return out


def touch(doc):
    """rewrite every picture file of the document with new bytes (the next save must carry them)"""
    for name, path in sorted(picture_files(doc).items()):
        _SCRATCH['n'] += 1
        with open(path, 'wb') as f:
            f.write(PNG + b'rewritten-%d' % _SCRATCH['n'])


# ------------------------------------------------------------------ documents (recipes are pure data)
def gen_recipes(rng):
    out = []
    for k in range(5):
        out.append({'builder': k, 'npar': rng.randint(1, 4), 'title': rng.choice(['T', 'A <b> & c', u'Titel é']),
                    'foreign': rng.choice(['Other/1.0', 'LibreOffice/7.4$Linux', 'X']),
                    'nstyles': rng.randint(1, 3), 'settings': rng.randint(1, 2), 'npics': rng.randint(1, 2),
                    'genpos': rng.choice(['first', 'middle', 'last'])})
    # documents with REPEATED names of named things, and documents whose media type has surrounding white space
    # (5: built in memory; 6: loaded from a package zipped by hand, mimetype member with a line end; 7: OpenDocument(u'...\n'))
    for k in (5, 6, 7):
        out.append({'builder': k, 'npar': rng.randint(1, 3), 'title': rng.choice(['T', u'Titel é']),
                    'foreign': rng.choice(['Other/1.0', 'X']), 'nstyles': rng.randint(1, 3), 'settings': 1, 'npics': 1,
                    'genpos': rng.choice(['first', 'middle', 'last']),
                    'nfonts': rng.randint(1, 3), 'fontrep': rng.choice(['first', 'last', 'all', 'thrice']),
                    'mime_lead': rng.choice([u'', u'', u' ', u'\n']) if k != 5 else u'',
                    'mime_trail': rng.choice([u'\n', u'\r\n', u' ', u'\t', u'\n\n']) if k != 5 else u''})
    return out


def fill_repeated(d, r):
    """a text document in which named things bear REPEATED names: font faces (a converter that declares a font wherever it uses
    one), styles (one name in office:styles and in office:automatic-styles, in two families; one renamed to an existing name after
    it was added), master pages, page layouts, metadata entries, settings, bookmarks/sections/tables in the body"""
    from odf import text, style, dc, meta, config, table
    for g in list(d.meta.childNodes):
        d.meta.removeChild(g)
    items = [dc.Title(text=r['title']), dc.Title(text=u'second title'), meta.UserDefined(name=u'k', text=u'v'),
             meta.UserDefined(name=u'k', text=u'w'), dc.Creator(text=u'me'), meta.Keyword(text=u'kw'), meta.Keyword(text=u'kw')]
    items.insert({'first': 0, 'middle': 3, 'last': len(items)}[r['genpos']], meta.Generator(text=r['foreign']))
    for it in items:
        d.meta.addElement(it)
    for i in range(2):
        cs = config.ConfigItemSet(name=u'ooo:view-settings')
        cs.addElement(config.ConfigItem(name=u'Zoom', type=u'short', text=u'100'))
        cs.addElement(config.ConfigItem(name=u'Zoom', type=u'short', text=u'%d' % (90 + i)))
        d.settings.addElement(cs)
    # fonts
    fonts = [(u'Font %d' % i, u'Family %d' % i) for i in range(r['nfonts'])]
    decl = list(fonts)
    rep = r['fontrep']
    if rep == 'first':
        decl.append(fonts[0])
    elif rep == 'last':
        decl.insert(0, fonts[-1])
    elif rep == 'all':
        decl += fonts
    else:
        decl = [fonts[0]] + decl + [fonts[0]]
    for j, (n, fam) in enumerate(decl):
        d.fontfacedecls.addElement(style.FontFace(name=n, fontfamily=fam, fontpitch=u'variable' if j % 2 else u'fixed'))
    # styles
    d.styles.addElement(style.Style(name=u'Common', family=u'paragraph'))
    d.styles.addElement(style.Style(name=u'Dup', family=u'paragraph'))
    names = []
    for i in range(r['nstyles']):
        st = style.Style(name=u'P%d' % i, family=u'paragraph', parentstylename=u'Common')
        st.addElement(style.TextProperties(fontname=fonts[i % len(fonts)][0]))
        d.automaticstyles.addElement(st); names.append(u'P%d' % i)
    d.automaticstyles.addElement(style.Style(name=u'Dup', family=u'text'))          # the same name in the other container and family
    late = style.Style(name=u'Late', family=u'text'); d.automaticstyles.addElement(late)
    late.setAttribute('name', u'P0')                                               # renamed to a name that is taken
    d.automaticstyles.addElement(style.Style(name=u'Unused', family=u'text'))
    for i in range(2):
        d.automaticstyles.addElement(style.PageLayout(name=u'pm1'))
    d.automaticstyles.addElement(style.Style(name=u'HdrP', family=u'paragraph'))
    for i in range(2):
        mp = style.MasterPage(name=u'Standard', pagelayoutname=u'pm1'); d.masterstyles.addElement(mp)
        h = style.Header(); mp.addElement(h); h.addElement(text.P(stylename=u'HdrP', text=u'header %d' % i))
    # body
    for i in range(r['npar']):
        p = text.P(stylename=names[i % len(names)], text=u'para %d & <x>' % i)
        p.addElement(text.Bookmark(name=u'mark'))
        p.addElement(text.Span(text=u' span ', stylename=u'Dup'))
        d.text.addElement(p)
    for i in range(2):
        sec = text.Section(name=u'Sec'); sec.addElement(text.P(stylename=u'P0', text=u'in section')); d.text.addElement(sec)
        t = table.Table(name=u'Tab'); t.addElement(table.TableColumn()); tr = table.TableRow(); t.addElement(tr)
        c = table.TableCell(); c.addElement(text.P(text=u'cell')); tr.addElement(c); d.text.addElement(t)
    d.text.addElement(text.H(outlinelevel=1, text=u'Heading'))


def rezip(data, change):
    """the package `data` zipped again member by member (zipfile only); change(name, bytes) gives the new bytes of a member"""
    zin = zipfile.ZipFile(io.BytesIO(data))
    buf = io.BytesIO()
    zout = zipfile.ZipFile(buf, 'w')
    for zi in zin.infolist():
        zout.writestr(zi, change(zi.filename, zin.read(zi.filename)))
    zout.close()
    return buf.getvalue()


def build_named(r):
    from odf import opendocument, office, style, table, draw, text
    k = r['builder']
    MT = u'application/vnd.oasis.opendocument.text'
    ws = lambda m: r['mime_lead'] + m + r['mime_trail']
    if k == 5:
        d = opendocument.OpenDocumentText()
        fill_repeated(d, r)
        return d
    if k == 6:
        # a package zipped by hand: echo application/vnd... > mimetype
        d = opendocument.OpenDocumentText()
        fill_repeated(d, r)
        d.addPicture(u'Pictures/img0.png', u'image/png', PNG + b'6')
        buf = io.BytesIO(); d.save(buf)
        data = rezip(buf.getvalue(), lambda name, raw: ws(raw.decode('utf-8')).encode('utf-8') if name == 'mimetype' else raw)
        return opendocument.load(io.BytesIO(data))
    # k == 7: the media type handed to the constructor, of the document and of an object embedded in it
    d = opendocument.OpenDocument(ws(MT))
    d.text = office.Text(); d.body.addElement(d.text)
    fill_repeated(d, dict(r, fontrep='first' if r['fontrep'] == 'all' else 'all'))
    sub = opendocument.OpenDocument(ws(u'application/vnd.oasis.opendocument.spreadsheet'))
    sub.spreadsheet = office.Spreadsheet(); sub.body.addElement(sub.spreadsheet)
    t = table.Table(name=u'Sub'); t.addElement(table.TableColumn()); tr = table.TableRow(); t.addElement(tr)
    tr.addElement(table.TableCell()); sub.spreadsheet.addElement(t)
    for i in range(2):
        sub.fontfacedecls.addElement(style.FontFace(name=u'Sub Font', fontfamily=u'Sub Family %d' % i))
    ref = d.addObject(sub)
    fr = draw.Frame(width=u'3cm', height=u'3cm', anchortype=u'paragraph'); fr.addElement(draw.Object(href=ref))
    par = text.P(); par.addElement(fr); d.text.addElement(par)
    return d


def build(r):
    from odf import opendocument, text, style, dc, meta, config, draw, number, table, office
    from odf.element import Text
    k = r['builder']
    if k >= 5:
        return build_named(r)
    mk = [opendocument.OpenDocumentText, opendocument.OpenDocumentSpreadsheet, opendocument.OpenDocumentText,
          opendocument.OpenDocumentPresentation, opendocument.OpenDocumentText][k]
    d = mk()
    # --- metadata
    for g in list(d.meta.childNodes):
        d.meta.removeChild(g)
    items = [dc.Title(text=r['title']), dc.Creator(text=u'me'), meta.UserDefined(name=u'k', text=u'v')]
    gens = []
    if k in (0, 2, 4):
        gens = [meta.Generator(text=r['foreign'])]
    elif k == 3:
        gens = [meta.Generator(text=r['foreign']), meta.Generator(text=u'Second/2')]
    # k == 1: no generator at all
    pos = {'first': 0, 'middle': 1, 'last': len(items)}[r['genpos']]
    for g in gens:
        items.insert(pos, g)
    for it in items:
        d.meta.addElement(it)
    if k == 3:
        d.meta.appendChild(Text(u'\n '))          # a text node among the children of office:meta
    # --- settings
    if k != 1:
        for i in range(r['settings']):
            cs = config.ConfigItemSet(name=u'ooo:set%d' % i)
            cs.addElement(config.ConfigItem(name=u'Zoom', type=u'short', text=u'100'))
            d.settings.addElement(cs)
    # --- styles
    d.styles.addElement(style.Style(name=u'Common', family=u'paragraph'))
    names = []
    for i in range(r['nstyles']):
        st = style.Style(name=u'P%d' % i, family=u'paragraph', parentstylename=u'Common')
        st.addElement(style.TextProperties(fontweight=u'bold'))
        d.automaticstyles.addElement(st); names.append(u'P%d' % i)
    d.automaticstyles.addElement(style.Style(name=u'Unused', family=u'text'))
    ns = number.NumberStyle(name=u'N1'); ns.addElement(number.Number(decimalplaces=2, minintegerdigits=1))
    d.automaticstyles.addElement(ns)
    d.automaticstyles.addElement(style.Style(name=u'ce1', family=u'table-cell', datastylename=u'N1'))
    pl = style.PageLayout(name=u'pm1'); d.automaticstyles.addElement(pl)
    hs = style.Style(name=u'HdrP', family=u'paragraph'); d.automaticstyles.addElement(hs)
    mp = style.MasterPage(name=u'Standard', pagelayoutname=u'pm1'); d.masterstyles.addElement(mp)
    h = style.Header(); mp.addElement(h); h.addElement(text.P(stylename=u'HdrP', text=u'header'))
    if k in (0, 4):
        d.fontfacedecls.addElement(style.FontFace(name=u'Arial', fontfamily=u'Arial'))
    # --- body
    if k in (0, 2, 4):
        for i in range(r['npar']):
            # strings the writer has to filter or escape: rendering must not write the filtered form back into the node
            p = text.P(stylename=names[i % len(names)], text=u'para %d & <x> \x0b\x0c\ufffe\r\t\x7f]]>' % i)
            p.addElement(text.Span(text=u' span ', stylename=u'Unused' if i == 1 else u'Missing'))
            d.text.addElement(p)
        d.text.addElement(text.H(outlinelevel=1, text=u'Heading'))
    elif k == 1:
        t = table.Table(name=u'T'); t.addElement(table.TableColumn()); tr = table.TableRow(); t.addElement(tr)
        c = table.TableCell(stylename=u'ce1', valuetype=u'float', value=u'1.5'); c.addElement(text.P(text=u'1.50'))
        tr.addElement(c); d.spreadsheet.addElement(t)
    else:
        pg = draw.Page(masterpagename=u'Standard', name=u'page1')
        f = draw.Frame(width=u'2cm', height=u'2cm'); tb = draw.TextBox(); f.addElement(tb)
        tb.addElement(text.P(stylename=names[0], text=u'slide')); pg.addElement(f); d.presentation.addElement(pg)
    # --- pictures
    if k in (0, 2, 3):
        for i in range(r['npics']):
            ref = d.addPicture(u'Pictures/img%d.png' % i, u'image/png', PNG + bytes([i]))
            fr = draw.Frame(width=u'1cm', height=u'1cm', anchortype=u'paragraph'); fr.addElement(draw.Image(href=ref))
            if k == 3:
                d.presentation.childNodes[0].addElement(fr)
            else:
                par = text.P(); par.addElement(fr); d.text.addElement(par)
        # by file name (two entry points), by content without a name, by href only (nothing registered)
        refs = [d.addPicture(new_file(PNG + b'file-A')),
                d.addPictureFromFile(new_file(PNG + b'file-B'), u'image/png'),
                d.addPictureFromString(PNG + b'from-string', u'image/png'),
                u'http://example.org/remote.png']
        for ref in refs:
            fr = draw.Frame(width=u'1cm', height=u'1cm', anchortype=u'paragraph'); fr.addElement(draw.Image(href=ref))
            if k == 3:
                d.presentation.childNodes[0].addElement(fr)
            else:
                par = text.P(); par.addElement(fr); d.text.addElement(par)
    # --- embedded object, thumbnail, extra member
    if k == 2:
        sub = opendocument.OpenDocumentSpreadsheet()
        t = table.Table(name=u'Sub'); t.addElement(table.TableColumn()); tr = table.TableRow(); t.addElement(tr)
        tr.addElement(table.TableCell()); sub.spreadsheet.addElement(t)
        sub.automaticstyles.addElement(style.Style(name=u'SubUnused', family=u'text'))
        sub.addPicture(u'Pictures/sub.png', u'image/png', PNG + b'sub')
        sub.addPictureFromFile(new_file(PNG + b'sub-file'))
        cs = config.ConfigItemSet(name=u'ooo:sub'); sub.settings.addElement(cs)
        ref = d.addObject(sub)
        fr = draw.Frame(width=u'3cm', height=u'3cm', anchortype=u'paragraph'); fr.addElement(draw.Object(href=ref))
        par = text.P(); par.addElement(fr); d.text.addElement(par)
        sub._extra.append(opendocument.OpaqueObject(u'subextra.bin', u'application/octet-stream', b'SUBX'))
        sub2 = opendocument.OpenDocumentChart(); d.addObject(sub2, u'Chart 7')
        d.addThumbnail(PNG + b'thumb')
        d._extra.append(opendocument.OpaqueObject(u'Configurations2/', u'application/vnd.sun.xml.ui.configuration', None))
        d._extra.append(opendocument.OpaqueObject(u'extra.bin', u'application/octet-stream', b'EXTRA'))
    if k == 4:
        # the same document after one save/load cycle
        buf = io.BytesIO(); d.save(buf); buf.seek(0)
        d = opendocument.load(buf)
        for g in [m for m in d.meta.childNodes if getattr(m, 'qname', None) == GEN]:
            d.meta.removeChild(g)
        d.meta.insertBefore(meta.Generator(text=r['foreign']), d.meta.firstChild)
    return d


# ------------------------------------------------------------------ oracle: snapshot of the real document
def tree_with_links(n, parent, doc, bad):
    """infoset-like deep dump; records broken parent/owner links in `bad`"""
    if n.parentNode is not parent:
        bad.append('parentNode of %s' % getattr(n, 'tagName', 'text'))
    if n.nodeType != 1:
        return (n.nodeType, n.data)
    if n.ownerDocument is not doc:
        bad.append('ownerDocument of %s' % n.tagName)
    kids = tuple(tree_with_links(c, n, doc, bad) for c in n.childNodes)
    sib = [c.previousSibling for c in n.childNodes] != [None] + list(n.childNodes[:-1]) or \
          [c.nextSibling for c in n.childNodes] != list(n.childNodes[1:]) + [None]
    if n.childNodes and sib:
        bad.append('sibling links under %s' % n.tagName)
    return (tuple(n.qname), tuple(sorted((tuple(q), u'%s' % (v,)) for q, v in n.attributes.items())), kids)


def walk_names(n, qnames, names):
    """plain traversal: the element names in the tree, and the values of the attributes called name"""
    if n.nodeType != 1:
        return
    qnames.add(tuple(n.qname))
    for q, v in n.attributes.items():
        if q[1] == u'name':
            names.add(u'%s' % (v,))
    for c in n.childNodes:
        walk_names(c, qnames, names)


def strip_gen(t):
    """an infoset without the meta:generator children of office:meta (they are judged separately: split_generator)"""
    if not isinstance(t, tuple):
        return t
    kids = t[2]
    if t[0] == (OFFICE, u'meta'):
        kids = tuple(k for k in kids if not (isinstance(k, tuple) and k[0] == GEN))
        merged = []
        for k in kids:                      # text on both sides of a generator taken out is one run of text
            if merged and not isinstance(k, tuple) and not isinstance(merged[-1], tuple):
                merged[-1] = merged[-1] + k
            else:
                merged.append(k)
        kids = tuple(merged)
    return (t[0], t[1], tuple(strip_gen(k) for k in kids))


_FACTORIES = {}


def factory(qn):
    """what getElementsByType wants: a function that makes an element of that name"""
    if qn not in _FACTORIES:
        from odf.element import Element
        def make(**kw):
            return Element(qname=qn, **kw)
        _FACTORIES[qn] = make
    return _FACTORIES[qn]


def snapshot(doc, depth=0, world=None):
    from odf import text, style, meta, dc, config, draw, table, number
    bad = []
    s = {}
    s['tree'] = tree_with_links(doc.topnode, None, doc, bad)
    s['links'] = tuple(bad)
    s['fields'] = tuple((f, [i for i, c in enumerate(doc.topnode.childNodes) if c is getattr(doc, f)])
                        for f in ('meta', 'scripts', 'fontfacedecls', 'settings', 'styles', 'automaticstyles', 'masterstyles', 'body'))
    q = {}
    for name, fac in (('P', text.P), ('H', text.H), ('Style', style.Style), ('Generator', meta.Generator), ('Title', dc.Title),
                      ('ConfigItemSet', config.ConfigItemSet), ('Image', draw.Image), ('MasterPage', style.MasterPage),
                      ('TableCell', table.TableCell), ('NumberStyle', number.NumberStyle), ('UserDefined', meta.UserDefined)):
        q[name] = tuple(mem_infoset(e) for e in doc.getElementsByType(fac))
    s['byType'] = q
    s['byName'] = tuple((n, (lambda e: None if e is None else mem_infoset(e))(doc.getStyleByName(n)))
                        for n in (u'Common', u'P0', u'P1', u'Unused', u'ce1', u'HdrP', u'pm1', u'N1', u'Nope'))
    # every query the document answers about what the plain traversal finds in it: getElementsByType for every element
    # name in the tree (which elements - the same objects -, in which order, holding what), getStyleByName for every
    # style:name / *:name value in the tree, getMediaType().  meta:generator is judged separately (split_generator).
    qnames, names = set(), set()
    walk_names(doc.topnode, qnames, names)
    s['byTypeAll'] = tuple((qn, tuple((id(e), strip_gen(mem_infoset(e))) for e in doc.getElementsByType(factory(qn))))
                           for qn in sorted(qnames) if qn != GEN)
    s['byNameAll'] = tuple((n, (lambda e: None if e is None else (id(e), strip_gen(mem_infoset(e))))(doc.getStyleByName(n)))
                           for n in sorted(names))
    s['mediatype'] = (doc.getMediaType(), doc.mimetype, u'%s' % (doc.topnode.getAttrNS(OFFICE, u'mimetype'),))
    s['pictures'] = tuple((k, tuple(v)) for k, v in doc.Pictures.items())
    s['thumbnail'] = doc.thumbnail
    s['extra'] = tuple((o.filename, o.mediatype, o.content) for o in doc._extra)
    s['misc'] = (doc.mimetype, doc.folder, tuple(sorted(doc.__dict__.keys())))
    if world is not None:
        # every live document is snapshotted on its own; here only WHICH documents are attached
        s['objects'] = tuple([i for i, w in enumerate(world) if w is o] for o in doc.childobjects)
    else:
        s['objects'] = tuple(snapshot(o, depth + 1) for o in doc.childobjects) if depth < 3 else ()
    return s


def gen_infoset(tv):
    return (GEN, (), (tv,) if tv else ())


def split_generator(s):
    """(snapshot with every meta:generator child of office:meta taken out of the tree and of the Generator query,
        the generator children of office:meta in order, what getElementsByType(meta.Generator) returned)"""
    t = dict(s)
    top = s['tree']
    mi = dict(s['fields'])['meta']
    gens = ()
    if mi:
        m = top[2][mi[0]]
        gens = tuple(k for k in m[2] if len(k) == 3 and k[0] == GEN)
        newm = (m[0], m[1], tuple(k for k in m[2] if not (len(k) == 3 and k[0] == GEN)))
        t['tree'] = (top[0], top[1], top[2][:mi[0]] + (newm,) + top[2][mi[0] + 1:])
    bt = dict(s['byType']); found = bt.pop('Generator', ())
    t['byType'] = bt
    return t, gens, found


def judge_own(prev, now, tv):
    """the property for the document a call was made on: nothing but the generator metadata may differ, and the
    generator metadata is either untouched or normalised - exactly one meta:generator child of office:meta, holding
    the library's generator string, and found by the query - WHEREVER among the children it sits.
    returns (verdict, detail): verdict in 'same', 'normalised', 'changed', 'generator'"""
    if now == prev:
        return 'same', ''
    p, pg, pf = split_generator(prev)
    n, ng, nf = split_generator(now)
    if p != n:
        return 'changed', 'apart from the generator elements it differs in %s' % snap_diff(p, n)
    want = (GEN, (), ((3, tv),) if tv else ())
    if ng == (want,) and nf == (gen_infoset(tv),):
        return 'normalised', ''
    return 'generator', ('office:meta now has %d meta:generator children %r and getElementsByType(Generator) returns %r; '
                         'expected the old state or exactly one %r' % (len(ng), [g[2] for g in ng][:3], list(nf)[:3], tv))


def snap_diff(a, b):
    return [k for k in sorted(a) if a[k] != b[k]]


def call(doc, op):
    if op == 'save':
        buf = io.BytesIO(); doc.save(buf); return buf.getvalue()
    if op == 'write':
        # write() does not close the ZipFile it creates; CPython finalises it (central directory) when the
        # local goes out of scope at return, which is before we read the buffer
        import gc
        buf = io.BytesIO(); doc.write(buf); gc.collect(); return buf.getvalue()
    return getattr(doc, op)()


class FaultyStream(object):
    """a stream of the caller (write/flush only, not seekable): keeps what it is given, notes the names of the zip members
    that were BEGUN (local file headers, read from the bytes handed over - not from the library), and raises OSError ONCE, at
    its `nth` call of write().  Once the central directory has begun it does not raise any more: write() leaves closing the
    archive to the finaliser of its ZipFile, where an exception cannot reach the caller."""
    def __init__(self, nth=None):
        self.nth, self.calls, self.raised, self.began, self.chunks, self.tail = nth, 0, False, [], [], False
    def write(self, data):
        data = bytes(data)
        if data[:4] == b'PK\x03\x04' and len(data) >= 30:
            n = int.from_bytes(data[26:28], 'little')
            self.began.append(data[30:30 + n].decode('utf-8', 'replace'))
        if data[:4] in (b'PK\x01\x02', b'PK\x05\x06', b'PK\x06\x06'):
            self.tail = True
        k = self.calls
        self.calls += 1
        if self.nth is not None and k == self.nth and not self.raised and not self.tail:
            self.raised = True
            raise OSError(28, 'No space left on device (injected at write() call %d)' % k)
        self.chunks.append(data)
        return len(data)
    def flush(self):
        pass
    def getvalue(self):
        return b''.join(self.chunks)


def fault_kind(fault):
    return fault.rstrip('0123456789')


def call_faulty(doc, base, fault):
    """save()/write() under an injected fault.  fault = 'w<n>': the stream's n-th write() raises;  'nofile<j>': the j-th picture
    file (registered by file name, in the document or its objects) is away while the call runs;  'path': save() to a file in a
    directory that does not exist.  Returns {'raised': exception class name or None, 'data': the package if the call got
    through, 'began_meta': the top document's meta.xml member had been begun (for the model: metaxml() had run)}"""
    import gc
    kind = fault_kind(fault)
    num = int(fault[len(kind):] or 0)
    fn = doc.save if base == 'save' else doc.write
    stream = FaultyStream(num if kind == 'w' else None)
    moved = None
    try:
        if kind == 'nofile':
            files = sorted(picture_files(doc).items())
            if files:
                moved = files[num % len(files)][1]
                os.rename(moved, moved + u'.away')
        if kind == 'path':
            new_file(b'', u'.tmp')                       # makes sure the scratch directory exists
            target = os.path.join(_SCRATCH['dir'], u'no-such-directory', u'out.odt')
            fn(target)
        else:
            fn(stream)
        gc.collect()
        return {'raised': None, 'data': stream.getvalue() if kind != 'path' else open(target, 'rb').read(), 'began_meta': True}
    except (OSError, IOError) as e:
        return {'raised': e.__class__.__name__, 'data': None, 'began_meta': u'meta.xml' in stream.began}
    finally:
        if moved is not None:
            os.rename(moved + u'.away', moved)


def hide(s, scratch):
    """the snapshot without the instance attribute NAMES in `scratch` (names that first appeared during a failed call)"""
    if not scratch:
        return s
    m = s['misc']
    return dict(s, misc=(m[0], m[1], tuple(k for k in m[2] if k not in scratch)))


def zip_members(data):
    z = zipfile.ZipFile(io.BytesIO(data))
    out = []
    for zi in z.infolist():
        payload = z.read(zi.filename)
        out.append((zi.filename, zi.compress_type, payload))
    return out


def out_infoset(op, data):
    """what is compared between two outputs of the same kind"""
    if op in ('save', 'write'):
        res = []
        for name, ctype, payload in zip_members(data):
            if name.endswith('.xml'):
                res.append((name, ctype, parse_infoset(payload)))
            else:
                res.append((name, ctype, payload))
        return tuple(res)
    if isinstance(data, str):
        data = data.encode('utf-8')
    return parse_infoset(data)


# ------------------------------------------------------------------ correspondence: dumps for the driver
class Coder(object):
    def __init__(self, T):
        self.attr = dict(T['codes']); self.attr.update(RES_ATTR)
        self.elem = dict(RES_ELEM)
        self.blobs = {}
    def a(self, q):
        q = (q[0], q[1])
        if q not in self.attr:
            self.attr[q] = 1000 + len(self.attr)
        return self.attr[q]
    def e(self, q):
        q = (q[0], q[1])
        if q not in self.elem:
            self.elem[q] = 100 + len(self.elem)
        return self.elem[q]
    def blob(self, b):
        if b not in self.blobs:
            self.blobs[b] = len(self.blobs)
        return self.blobs[b]


def toks_infoset(t, coder, out):
    """canonical tokens of an infoset (qname, attrs, kids): attributes sorted by code, text merged"""
    out.append('E'); out.append(str(coder.e(t[0])))
    attrs = sorted((coder.a(k), v) for k, v in t[1])
    out.append(str(len(attrs)))
    for a, v in attrs:
        out.append(str(a)); out.append(enc_str(v))
    out.append(str(len(t[2])))
    for k in t[2]:
        if isinstance(k, tuple):
            toks_infoset(k, coder, out)
        else:
            out.append('T'); out.append(enc_str(k))
    return out


def toks_node(n, coder, out):
    """raw tokens of a real node (attribute order of the dict, text nodes as they are)"""
    if n.nodeType == 1:
        out.append('E'); out.append(str(coder.e(n.qname))); out.append(str(len(n.attributes)))
        for q, v in n.attributes.items():
            out.append(str(coder.a(q))); out.append(enc_str(u'%s' % (v,)))
        out.append(str(len(n.childNodes)))
        for c in n.childNodes:
            toks_node(c, coder, out)
    else:
        out.append('T'); out.append(enc_str(n.data))
    return out


def _filt(w):
    """the writer's character filter (C01/C02: unrepresentable and discouraged code points become U+FFFD), applied to the
    MODEL's output strings, because the model renders the in-memory strings and the real output is compared after parsing"""
    from common import dec_str
    import xmlchecks
    return enc_str(xmlchecks.hu_like(dec_str(w)))


def canon_tokens(toks, pos=0, filt=False):
    """parse driver tokens of one node, return (canonical token list, next position): attrs sorted, text merged"""
    if toks[pos] == 'T':
        return ['T', _filt(toks[pos + 1]) if filt else toks[pos + 1]], pos + 2
    name = toks[pos + 1]; na = int(toks[pos + 2]); pos += 3
    attrs = []
    for _ in range(na):
        attrs.append((int(toks[pos]), _filt(toks[pos + 1]) if filt else toks[pos + 1])); pos += 2
    nk = int(toks[pos]); pos += 1
    kids = []
    for _ in range(nk):
        k, pos = canon_tokens(toks, pos, filt)
        if k[0] == 'T':
            if k[1] == '-':
                continue
            if kids and kids[-1][0] == 'T':
                kids[-1] = ['T', kids[-1][1] + '.' + k[1]]
                continue
        kids.append(k)
    out = ['E', name, str(len(attrs))]
    for a, v in sorted(attrs):
        out += [str(a), v]
    out.append(str(len(kids)))
    for k in kids:
        out += k
    return out, pos


def dump_extras(doc, coder):
    out = [str(len(doc._extra))]
    for o in doc._extra:
        out += [enc_str(o.filename), enc_str(o.mediatype), 'N' if o.content is None else str(coder.blob(o.content))]
    return out


def dump_doc(doc, coder, top=True, parent=None):
    kids = list(doc.topnode.childNodes)
    want = [doc.meta, doc.scripts, doc.fontfacedecls, doc.settings, doc.styles, doc.automaticstyles, doc.masterstyles, doc.body]
    if len(kids) != 8 or any(a is not b for a, b in zip(kids, want)):
        return ['UNMODELLED-TOPNODE', str(len(kids))]
    out = [enc_str(doc.mimetype)]
    if not top:
        out.insert(0, enc_str(doc.folder[len(parent.folder) + 1:] + u'/'))
    if top:
        out.append(str(len(doc.topnode.attributes)))
        for q, v in doc.topnode.attributes.items():
            out.append(str(coder.a(q))); out.append(enc_str(u'%s' % (v,)))
    for k in kids:
        toks_node(k, coder, out)
    out.append(str(len(doc.Pictures)))
    for name, (what, content, mt) in doc.Pictures.items():
        # a picture registered by file name: the state holds the path; the package holds 'what that file contains now'
        out += [enc_str(name), enc_str(mt), str(coder.blob(content if what == 1 else ('FILE', content)))]
    if top:
        out.append(str(len(doc.childobjects)))
        for o in doc.childobjects:
            out += dump_doc(o, coder, top=False, parent=doc)
        out.append('N' if doc.thumbnail is None else str(coder.blob(doc.thumbnail)))
        out.append(enc_str(getattr(doc, '_thumbnail_mediatype', u'')))
        out += dump_extras(doc, coder)
    else:
        out += dump_extras(doc, coder)
    return out


def real_out_tokens(op, data, coder, filemap=None):
    if op in ('save', 'write'):
        ms = zip_members(data)
        out = ['P', str(len(ms))]
        for name, ctype, payload in ms:
            out.append(enc_str(name))
            if name == 'mimetype':
                out += ['b', enc_str(payload.decode('utf-8'))]
            elif name.endswith('.xml'):
                out.append('x'); toks_infoset(parse_infoset(payload), coder, out)
            elif filemap and name in filemap and payload == open(filemap[name], 'rb').read():
                out += ['r', str(coder.blob(('FILE', filemap[name])))]
            else:
                out += ['r', str(coder.blob(payload))]
        return out
    if isinstance(data, str):
        data = data.encode('utf-8')
    return toks_infoset(parse_infoset(data), coder, ['X'])


def canon_model_out(toks):
    if toks[0] == 'N':          # a call that raised: no output
        return ['N']
    if toks[0] == 'X':
        c, pos = canon_tokens(toks, 1, True)
        return ['X'] + c
    n = int(toks[1]); pos = 2
    out = ['P', toks[1]]
    for _ in range(n):
        out.append(toks[pos]); kind = toks[pos + 1]; pos += 2
        if kind == 'x':
            c, pos = canon_tokens(toks, pos, True)
            out += ['x'] + c
        else:
            out += [kind, toks[pos]]; pos += 1
    return out


def canon_doc_tokens(toks):
    """document dumps are compared raw (the model must reproduce the tree exactly, text nodes included)"""
    return ' '.join(toks)


# ------------------------------------------------------------------ one sequence on the real library
def run_sequence(chk, recipe, ops, T, tv, lines, pend):
    doc = build(recipe)
    coder = Coder(T)
    modellable = len(doc.childobjects) == 0 or all(not o.childobjects for o in doc.childobjects)
    first_dump = dump_doc(doc, coder)
    states, outs_tok = [], []
    seen = {}
    case = {'recipe': recipe, 'ops': ops}
    prev = snapshot(doc)
    prev_dump = ' '.join(first_dump)
    scratch, letters, called = set(), [], []
    for i, op in enumerate(ops):
        if op == 'touch':
            # not a call of the library: the picture files on disk get new content
            touch(doc)
            if snapshot(doc) != prev:
                chk.fail('document-changed:touch', dict(case, at=i), 'rewriting a picture file changed the document snapshot')
            seen.pop('save', None); seen.pop('write', None)
            chk.count('op_touch')
            continue
        base, bang, fault = op.partition('!')
        failed, res = False, None
        if bang:
            res = call_faulty(doc, base, fault)
            data, failed = res['data'], res['raised'] is not None
            sigop = base + '!' + fault_kind(fault) if failed else base
            chk.count('faulty_calls_that_raised' if failed else 'faulty_calls_that_got_through')
            chk.count('fault_' + fault_kind(fault))
        else:
            data = call(doc, op); sigop = op
        now = snapshot(doc)
        if failed:
            fresh = set(now['misc'][2]) - set(prev['misc'][2])
            if fresh:
                scratch.update(fresh); chk.count('failed_calls_that_left_scratch_attributes')
        if base in ('save', 'write') and not failed:
            # rendering reads a picture given by file name each time: the package carries what the file holds now
            members = dict((n, pl) for n, ct, pl in zip_members(data))
            for name, path in sorted(picture_files(doc).items()):
                chk.count('file_pictures_checked')
                if members.get(name) != open(path, 'rb').read():
                    chk.fail('stale-picture-bytes:' + sigop, dict(case, at=i),
                             '%s(): member %s does not hold the current content of the file it was registered with' % (sigop, name))
        # --- purity
        verdict, why = judge_own(hide(prev, scratch), hide(now, scratch), tv)
        if verdict == 'changed':
            chk.fail('document-changed:' + sigop, dict(case, at=i),
                     '%s() %schanged the document beyond generator normalisation: %s' % (sigop, 'raised %s and ' % res['raised'] if failed else '', why))
        elif verdict == 'generator':
            chk.fail('generator-not-normalised:' + sigop, dict(case, at=i), 'after %s(): %s' % (sigop, why))
        else:
            chk.count('calls_that_normalised' if verdict == 'normalised' else 'calls_that_changed_nothing')
        if now['links']:
            chk.fail('broken-links:' + sigop, dict(case, at=i), 'after %s(): %s' % (sigop, list(now['links'])[:4]))
        prev = now
        dump = ' '.join(dump_doc(doc, coder))
        states.append('=' if dump == prev_dump else 'D ' + dump)
        prev_dump = dump
        called.append(op)
        if failed:
            # a call that raised has no output; what it must not do is show in any later output (compared below, when they come)
            letters.append('G' if res['began_meta'] else 'F')
            outs_tok.append('N')
            continue
        letters.append(LETTER[base])
        # --- repeatability
        info = out_infoset(base, data)
        kind = base
        if kind in seen:
            j, first = seen[kind]
            chk.count('repeated_outputs_compared')
            if scratch:
                chk.count('repeated_outputs_compared_after_a_failed_call')
            if info != first:
                chk.fail('not-repeatable:' + sigop, dict(case, at=i, first=j),
                         'call %d and call %d of %s() give different infosets%s' % (j, i, base, failed_note(ops, j, i)))
        else:
            seen[kind] = (i, info)
        # --- for the correspondence
        outs_tok.append(' '.join(real_out_tokens(base, data, coder, picture_files(doc))))
    chk.case((recipe['builder'], tuple(ops)), nontrivial=len(ops) >= 2,
             sample={'builder': recipe['builder'], 'ops': ops} if len(ops) > 3 else None)
    chk.count('seq_len_%d' % len(ops))
    chk.count('doc_%d' % recipe['builder'])
    for op in ops:
        if op != 'touch':
            chk.count('op_' + op.partition('!')[0])
    if any('!' in o for o in ops):
        chk.count('histories_with_a_faulty_call')
    if first_dump[0] != 'UNMODELLED-TOPNODE':
        lines.append('run %s %s %s' % (enc_str(tv), ''.join(letters), ' '.join(first_dump)))
        pend.append((dict(case, ops=called, ops_with_touch=ops), states, outs_tok))
    else:
        chk.count('not_sent_to_model')


def failed_note(ops, j, i):
    between = [o for o in ops[j + 1:i] if '!' in o]
    return ' (faulty calls in between: %s)' % ', '.join(between) if between else ''


def live_documents(docs):
    live = []
    def add(d):
        live.append(d)
        for o in d.childobjects:
            add(o)
    for d in docs:
        add(d)
    return live


def run_world(chk, recipes, calls, tv):
    """several live documents (each recipe's document plus the objects embedded in it), output calls interleaved;
    after EVERY call ALL live documents are snapshotted: the one rendered may have its generator normalised,
    every other one must be exactly as before; repeated outputs are compared per document"""
    live = live_documents([build(r) for r in recipes])
    case = {'world': {'recipes': recipes, 'calls': [list(c) for c in calls]}}
    prev = [snapshot(d, world=live) for d in live]
    seen = {}
    scratch = [set() for d in live]
    for step, (i, op) in enumerate(calls):
        i = i % len(live)
        base, bang, fault = op.partition('!')
        failed, sigop = False, op
        if bang:
            res = call_faulty(live[i], base, fault)
            data, failed = res['data'], res['raised'] is not None
            sigop = base + '!' + fault_kind(fault) if failed else base
            chk.count('world_faulty_calls_that_raised' if failed else 'world_faulty_calls_that_got_through')
        else:
            data = call(live[i], op)
        now = [snapshot(d, world=live) for d in live]
        if failed:
            scratch[i].update(set(now[i]['misc'][2]) - set(prev[i]['misc'][2]))
        for j in range(len(live)):
            if now[j] == prev[j]:
                continue
            if j == i:
                verdict, why = judge_own(hide(prev[j], scratch[j]), hide(now[j], scratch[j]), tv)
                if verdict == 'changed':
                    chk.fail('document-changed:' + sigop, dict(case, at=step),
                             '%s() on document %d changed it beyond generator normalisation: %s' % (sigop, i, why))
                elif verdict == 'generator':
                    chk.fail('generator-not-normalised:' + sigop, dict(case, at=step), 'after %s() on document %d: %s' % (sigop, i, why))
            else:
                chk.fail('other-document-changed:' + sigop, dict(case, at=step),
                         'call %d, %s() on live document %d, changed live document %d: differs in %s'
                         % (step, sigop, i, j, snap_diff(prev[j], now[j])))
            if now[j]['links']:
                chk.fail('broken-links:' + sigop, dict(case, at=step), 'document %d after %s() on %d: %s' % (j, sigop, i, list(now[j]['links'])[:4]))
        prev = now
        chk.count('world_calls')
        if failed:
            continue
        info = out_infoset(base, data)
        if (i, base) in seen:
            chk.count('world_repeated_outputs_compared')
            if info != seen[(i, base)][1]:
                chk.fail('not-repeatable:' + sigop, dict(case, at=step, first=seen[(i, base)][0]),
                         'calls %d and %d of %s() on live document %d give different infosets' % (seen[(i, base)][0], step, base, i))
        else:
            seen[(i, base)] = (step, info)
    chk.count('world_histories')
    chk.count('world_of_%d_documents' % len(live))
    chk.case(('world', tuple(r['builder'] for r in recipes), tuple(tuple(c) for c in calls)), nontrivial=len(live) > 1 and len(calls) > 1,
             sample={'world_builders': [r['builder'] for r in recipes], 'live': len(live), 'calls': calls[:6]} if len(calls) < 5 else None)


def world_histories(chk, recipes):
    """(recipes of the world, calls); document indices are taken modulo the number of live documents"""
    worlds = [[0, 1], [3, 4], [2], [2, 0], [1, 2, 3]]
    if len(recipes) > 7:
        worlds += [[5, 6], [7, 4]]            # repeated names / media types with white space among other live documents
    nlong, nshort = (6, 60) if chk.tier == 'thorough' else (2, 12)
    NORM = ['save', 'write', 'xml', 'metaxml']
    for w in worlds:
        rs = [recipes[k] for k in w]
        nlive = len(w) + 2 * w.count(2) + w.count(7)
        for _ in range(nlong):
            yield rs, [(chk.rng.randrange(nlive), chk.rng.choice(OPS)) for _ in range(30)]
        for _ in range(nshort):
            a = chk.rng.randrange(nlive)
            b = chk.rng.choice([x for x in range(nlive) if x != a] or [a])
            calls = [(a, chk.rng.choice(NORM)), (b, chk.rng.choice(OPS))]
            if chk.rng.random() < 0.5:
                calls.append((chk.rng.choice([a, b]), chk.rng.choice(OPS)))
            yield rs, calls
    # sandwiches: a package of b, a package of a, a package of b again - for the ordered pairs (a, b) of live documents:
    # what one document's rendering leaves behind must not reach another document's output (nor its own next one)
    flip = 0
    for w in worlds:
        rs = [recipes[k] for k in w]
        nlive = len(w) + 2 * w.count(2) + w.count(7)
        for a in range(nlive):
            for b in range(nlive):
                if a == b:
                    continue
                pk = PKG if chk.tier == 'thorough' else [PKG[flip % 2]]
                flip += 1
                for op in pk:
                    yield rs, [(b, op), (a, chk.rng.choice(PKG)), (a, chk.rng.choice(OPS)), (b, op)]
    # faulty calls among several live documents
    for w in worlds:
        rs = [recipes[k] for k in w]
        nlive = len(w) + 2 * w.count(2) + w.count(7)
        for _ in range(12 if chk.tier == 'thorough' else 3):
            a = chk.rng.randrange(nlive); b = chk.rng.randrange(nlive)
            op = chk.rng.choice(PKG)
            yield rs, [(a, op), (b, chk.rng.choice(PKG)), (a, random_fault(chk.rng)), (b, chk.rng.choice(OPS)),
                       (a, op), (b, random_fault(chk.rng)), (a, op), (b, chk.rng.choice(PKG))]


PKG = ['save', 'write']


def random_fault(rng):
    """a save()/write() with an injected fault"""
    f = rng.choice(['w', 'w', 'w', 'nofile', 'path'])
    if f == 'w':
        return rng.choice(PKG) + '!w%d' % rng.choice([rng.randrange(0, 6), rng.randrange(6, 30), rng.randrange(30, 120)])
    if f == 'nofile':
        return rng.choice(PKG) + '!nofile%d' % rng.randrange(8)
    return 'save!path'


def compare_model(chk, case, states, outs_tok, answer):
    chk.corr()
    if not answer.startswith('ok'):
        chk.corr_diff(case, 'ok ...', answer[:200], 'driver refused the request')
        return
    groups = answer.split(' ; ')[1:]
    if len(groups) != len(states):
        chk.corr_diff(case, '%d calls' % len(states), '%d groups' % len(groups), 'number of calls'); return
    for i, g in enumerate(groups):
        st, _, o = g.partition(' @ ')
        st = st.strip()
        if st != states[i]:
            chk.corr_diff(dict(case, at=i), states[i][:300], st[:300], 'document after call %d (%s)' % (i, case['ops'][i]))
            return
        mo = ' '.join(canon_model_out(o.strip().split(' ')))
        if mo != outs_tok[i]:
            a, b = outs_tok[i], mo
            k = 0
            while k < min(len(a), len(b)) and a[k] == b[k]:
                k += 1
            chk.corr_diff(dict(case, at=i), a[max(0, k - 80):k + 120], b[max(0, k - 80):k + 120],
                          'output of call %d (%s), first difference at char %d' % (i, case['ops'][i], k))
            return


def sequences(chk, nrecipes):
    seqs = []
    for r in range(nrecipes):
        if chk.tier == 'thorough':
            for n in range(1, 5 if r < 5 else 4):      # the documents added later (builders 5..): exhaustive up to length 3
                for t in itertools.product(OPS, repeat=n):
                    seqs.append((r, list(t)))
        else:
            for a in OPS:
                for b in OPS:
                    seqs.append((r, [a, b]))
    for r in range(nrecipes):
        # the picture files are rewritten between two packages
        for t in (['save', 'touch', 'save'], ['write', 'save', 'touch', 'write', 'save'], ['save', 'touch', 'xml', 'save', 'save']):
            seqs.append((r, list(t)))
    # failed calls are calls too: a package, a call that raises part-way, the same package again (twice: what a failed call
    # leaves behind may show in the next call only, or only from the second on)
    for r in range(nrecipes):
        for base in PKG:
            faults = ['w%d' % chk.rng.randrange(0, 4), 'w%d' % chk.rng.randrange(4, 16), 'w%d' % chk.rng.randrange(16, 70),
                      'nofile%d' % chk.rng.randrange(8), 'path']
            for f in faults:
                fop = ('save' if f == 'path' else chk.rng.choice(PKG)) + '!' + f
                seqs.append((r, [base, fop, base, chk.rng.choice(OPS), base]))
                seqs.append((r, [fop, base, base]))
            if chk.tier == 'thorough':
                for n in range(0, 90):
                    seqs.append((r, [base, base + '!w%d' % n, base, base]))
                for j in range(6):
                    seqs.append((r, [base, base + '!nofile%d' % j, base, base]))
    for _ in range(600 if chk.tier == 'thorough' else 60):
        n = chk.rng.randint(3, 6)
        ops = [chk.rng.choice(OPS) for _ in range(n)]
        for _ in range(chk.rng.randint(1, 2)):
            ops.insert(chk.rng.randint(0, len(ops) - 1), random_fault(chk.rng))
        seqs.append((chk.rng.randrange(nrecipes), ops))
    nrand = 1500 if chk.tier == 'thorough' else 300
    for _ in range(nrand):
        n = chk.rng.randint(3, 6)
        ops = [chk.rng.choice(OPS) for _ in range(n)]
        if chk.rng.random() < 0.3:
            ops.insert(chk.rng.randint(1, len(ops)), 'touch')
        seqs.append((chk.rng.randrange(nrecipes), ops))
    return seqs


def run(chk, replay=None):
    from odf.namespaces import TOOLSVERSION
    chk.rule = ('5 generated documents (metadata with a foreign / missing / doubled generator, settings, common and '
                'automatic styles, master page, body, pictures (by file name, by content, by href only; also in an embedded object; the files '
                'are rewritten between packages), embedded objects, thumbnail, extra members, one loaded '
                'from a saved package) x all ordered pairs of the 7 output calls + random sequences of length 3..6 '
                '(thorough: all sequences up to length 4); plus worlds of 2..6 live documents (two or three unrelated documents, '
                'a parent with its embedded objects) with the calls interleaved over all of them, every live document '
                'snapshotted after every call; histories with save()/write() calls that RAISE part-way (the caller\'s stream raises at its '
                'n-th write, a picture file is missing at that moment, the target directory does not exist) between, before and after '
                'calls that get through; sandwiches (package of b, package of a, package of b) over the ordered pairs of live documents; '
                '3 more documents: named things with REPEATED names (font faces, styles, master pages, metadata, settings, body), built in '
                'memory / loaded from a package zipped by hand whose mimetype member has white space around it / made by OpenDocument(media '
                'type with white space) with an embedded object of that kind; '
                'non-trivial = at least two calls')
    T = translate_styles.tables()
    tv = TOOLSVERSION
    if replay is not None:
        inp = replay['input']
        before = len(chk.failures) + len(chk.known_hits)
        if 'world' in inp:
            run_world(chk, inp['world']['recipes'], [tuple(c) for c in inp['world']['calls']], tv)
            for f in chk.failures:
                print('replay: %s: %s' % (f['sig'], f['detail']))
            print('replay: world of %d recipes, %d calls: %d failures' % (len(inp['world']['recipes']), len(inp['world']['calls']), len(chk.failures)))
            return 1 if len(chk.failures) + len(chk.known_hits) > before else 0
        run_sequence(chk, inp['recipe'], inp['ops'], T, tv, [], [])
        for f in chk.failures:
            print('replay: %s: %s' % (f['sig'], f['detail']))
        print('replay: recipe %d, calls %s: %d failures' % (inp['recipe']['builder'], inp['ops'], len(chk.failures)))
        return 1 if len(chk.failures) + len(chk.known_hits) > before else 0
    translate_styles.translate(chk)           # drv_render uses the generated followed-attribute list
    chk.prove(modules=['OdfModel.Props.C12', 'OdfModel.Props.C12Fault', 'OdfModel.Props.C12Named'], drivers=['drv_render'])
    drv = chk.driver('drv_render')
    recipes = gen_recipes(chk.rng)
    lines, pend = [], []
    for r, ops in sequences(chk, len(recipes)):
        run_sequence(chk, recipes[r], ops, T, tv, lines, pend)
    answers = drv.batch(lines)
    for (case, states, outs_tok), ans in zip(pend, answers):
        compare_model(chk, case, states, outs_tok, ans)
    # several live documents, calls interleaved (oracle; the model treats documents as independent states: world_pure)
    for rs, calls in world_histories(chk, recipes):
        run_world(chk, rs, calls, tv)

    def deep():
        for r in range(len(recipes)):
            for n in range(1, 4):
                for t in itertools.product(OPS, repeat=n):
                    run_sequence(chk, recipes[r], list(t), T, tv, [], [])
                    if chk.failures:
                        return
    chk.deep_search = deep
    return chk.finish()

# -*- coding: utf-8 -*-
"""C04 - saving a document and loading it back reproduces the document.

proof:          lean/OdfModel/Props/C04.lean (build_events, build_chunk_invariant, routing, load_save_partial,
                second_generation_partial) about lean/OdfModel/LoadSax.lean (LoadParser as a state machine over SAX
                events) composed with the XML round trip `parseDoc_render` of the XML layer
correspondence: the real SAX event streams of the saved settings.xml / meta.xml / content.xml / styles.xml
                (xml.sax + recording handler, chunking of character data as delivered, and re-chunked at random)
                fed to the model (drv_load)  vs  the sections the real load() built (qname/attributes/childNodes/data)
oracle:         load(save(d)) compared with d section by section (body, common styles, master styles, font
                declarations, settings, metadata without generator, every referenced automatic style, pictures byte
                for byte, embedded sub-documents with their sections, media type); the generator named exactly once
                in the saved meta.xml; the second-generation package against the first, both read with zipfile + expat.
inputs:         schema-directed random documents of every document class built through the element factories
                (odf.grammar tables for children / attributes / text, attribute values drawn from the schema datatype
                of the attribute and kept only if the bound converter returns them unchanged);
                nests of 3-5 objects inside each other, each sub-document attached when complete (inside out), as an
                empty shell (outside in) or as a LOADED document that already has its nested objects (Gen.nest);
                documents built after a HISTORY of the process: packages with foreign members loaded and saved 1-3
                times before (Gen.history / play_history); built and loaded documents saved 2-3 times (rec['resave']);
                the first package holds the members of the built document and nothing else (members_of_the_document);
                pictures registered under explicit names that some normalisation would change (Gen.picture_names: base +
                combining mark / precomposed, Angstrom sign, Hangul jamo / syllable, marks out of canonical order, composition
                exclusions, blanks, "%", "%20", "+", case pairs, other scripts), several of them differing ONLY by such a
                normalisation, in the document and in a sub-document, each referenced by a draw:image: same names, same
                bytes, every reference still names its picture (picture_references), second generation equal;
                parts > 128 KiB of 2-, 3- and 4-byte characters only (Gen.big_part, loadcommon.straddle_text) in content.xml
                and styles.xml, three paddings one byte apart: a character lies across every byte offset 2^12..2^17
"""
import io, os, re, sys, json, importlib, contextlib, warnings, tempfile, shutil
import common
from common import enc_str, dec_str
import loadcommon as L
import xmlcorr as X

FACTORY_MODULES = ['anim', 'chart', 'config', 'dc', 'dr3d', 'draw', 'form', 'math', 'meta', 'number', 'office',
                   'presentation', 'script', 'style', 'svg', 'table', 'text', 'xforms']
DOC_CLASSES = ['Text', 'Spreadsheet', 'Presentation', 'Drawing', 'Chart', 'Image', 'TextMaster']

TEXT_POOL = [u'plain text', u' ', u'  ', u'\n', u'\t', u' \n\t ', u'a\rb', u'\r\n', u'<b>&amp;</b>', u'"quoted" \'single\'',
             u']]>', u'x ]]> y', u'é ü 中文', u'\U0001F600', u'tab\there', u'line\nbreak', u' lead', u'trail ', u'&', u'<', u'>',
             u'a  b   c', u' ', u' ', u'�', u'0', u'-', u' xmlns:x="y" ']
DISCOURAGED = [u'\x7f', u'\x85x\x86', u'\U0001fffe']
NAME_POOL = [u'a', u'Abc_1', u'n-2.x', u'_u', u'élan', u'X9']
GENERIC_POOL = [
    u'', u'x', u'two words', u' padded ', u'a<b&c>"d\'', u'tab\there', u'nl\nhere', u'cr\rhere', u'é中\U0001F600',
    u'true', u'false', u'0', u'1', u'7', u'-5', u'12', u'+3', u'0.5', u'-1.25', u'1E3', u'100', u'2',
    u'1cm', u'2.5in', u'-3pt', u'0.1mm', u'12px', u'4pc', u'.5cm', u'10%', u'-10.5%', u'50%', u'100%', u'0%',
    u'#ff00aa', u'#000000', u'#FFFFFF', u'(1 2 3)', u'(0.5 -1 2.25)', u'1,2 3,4', u'0,0 10,10 -5,3', u'0 0 10 10',
    u'Sheet1.A1', u'$Sheet1.$B$2', u'.C3', u"'My Sheet'.A1", u'Sheet1.A1:Sheet1.B2', u'.A1:.C7', u'Sheet1.A:Sheet1.C', u'Sheet1.1:Sheet1.3',
    u'en', u'US', u'Latn', u'en-US', u'de', u'x-klingon',
    u'2024-02-29', u'2024-01-01T12:00:00', u'12:00:00', u'PT1H', u'P1Y2M3DT4H5M6S', u'PT0S',
    u'ooo:value', u'of:=SUM([.A1:.A2])', u'of:=1+1', u'chart:bar', u'[Sheet1.A1]', u'urn:x:y', u'http://example.org/a?b=c&d=e#f',
    u'../rel/path x', u'#frag', u'Pictures/x.png', u'./Object 1',
    u'id1', u'_a.b-c', u'id1 id2', u'a', u'Abc_1', u'n-2.x', u'3*', u'rect(0cm, 1cm, 2cm, auto)', u'(1cm 2cm 3cm)',
    u'paragraph', u'text', u'simple', u'none', u'auto', u'start', u'end', u'left', u'right', u'center', u'top', u'bottom',
]


# ------------------------------------------------------------------------------------------- schema + converters
class Vocabulary(object):
    """what the generator may write: the library's own grammar tables for structure, the RNG datatypes (attr_schema)
    filtered through the bound converter for values"""
    def __init__(self):
        import odf.grammar as G
        import odf.element
        from odf.attrconverters import attrconverters, AttrConverters
        import attr_schema
        self.G = G
        self.conv = AttrConverters()
        self.attrconverters = attrconverters
        self.factories = {}
        for mn in FACTORY_MODULES:
            mod = importlib.import_module('odf.' + mn)
            for fn in sorted(dir(mod)):
                f = getattr(mod, fn)
                if not fn[:1].isupper() or not callable(f) or isinstance(f, type) or getattr(f, '__module__', None) != mod.__name__:
                    continue
                try:
                    el = f(check_grammar=False)
                except Exception:
                    continue
                q = getattr(el, 'qname', None)
                if isinstance(q, tuple) and len(q) == 2 and q not in self.factories:
                    self.factories[q] = f
        sc = attr_schema.Schema(attr_schema.default_path(common.REPO))
        self.dt = {}
        for en, an, dt, ref in sc.occurrences():
            self.dt.setdefault((en, an), set()).update(dt)
            if ref in ('styleNameRef', 'styleNameRefs'):
                self.dt[(en, an)].add(('styleref', ref))
        self.styleref = dict(L.ref_attrs())
        self._vals = {}
        self._probe_el = {}

    def py_pattern(self, p):
        p = p.replace(u'$', u'\\$').replace(u'[\\i-[:]]', u'[A-Za-z_]').replace(u'[\\c-[:]]', u'[\\w.\\-]')
        try:
            return re.compile(p)
        except re.error:
            return None

    def atom_values(self, at):
        k = at[0]
        if k == 'val':
            return [at[1]]
        if k == 'empty':
            return [u'']
        if k == 'text':
            return GENERIC_POOL[:12]
        if k == 'data':
            typ, pat, params = at[1], at[2], dict(at[3])
            if pat:
                rx = self.py_pattern(pat)
                return [v for v in GENERIC_POOL if rx is not None and rx.fullmatch(v)]
            if typ == 'string':
                vs = GENERIC_POOL[:12]
                if 'minLength' in params:
                    vs = [v for v in vs if len(v) >= int(params['minLength'])]
                if 'length' in params:
                    vs = [v for v in [u'x', u',', u'é'] if len(v) == int(params['length'])]
                return vs
            table = {
                'NCName': NAME_POOL, 'ID': [u'id1', u'_a.b-c'], 'IDREF': [u'id1'], 'IDREFS': [u'id1 id2'], 'token': [u'x', u'two words'],
                'integer': [u'0', u'-5', u'12'], 'nonNegativeInteger': [u'0', u'7', u'12'], 'positiveInteger': [u'1', u'2', u'12'],
                'anyURI': [u'', u'http://example.org/a?b=c&d=e#f', u'../rel/path x', u'#frag'], 'double': [u'0', u'0.5', u'-1.25', u'1E3'],
                'decimal': [u'0', u'0.5', u'1'], 'duration': [u'PT1H', u'P1Y2M3DT4H5M6S'], 'QName': [u'chart:bar', u'ooo:value'],
                'date': [u'2024-02-29'], 'dateTime': [u'2024-01-01T12:00:00'], 'time': [u'12:00:00'], 'language': [u'en', u'en-US'],
            }
            vs = list(table.get(typ, []))
            if 'minInclusive' in params or 'maxInclusive' in params:
                lo = float(params.get('minInclusive', '-1e9')); hi = float(params.get('maxInclusive', '1e9'))
                vs = [v for v in vs if lo <= float(v) <= hi]
            return vs
        return []

    def list_values(self, body):
        def tok(parts, rep):
            out = []
            for p in parts:
                if p[0] == 'item':
                    c = [v for a in p[1] for v in self.atom_values(a) if v and not re.search(u'[ \t\r\n]', v)]
                    if not c:
                        return None
                    out.append(c[rep % len(c)])
                elif p[0] == 'opt':
                    if rep % 2:
                        t = tok(p[1], rep)
                        if t is None: return None
                        out += t
                elif p[0] == 'star':
                    for i in range(rep % 3):
                        t = tok(p[1], rep + i)
                        if t is None: return None
                        out += t
                elif p[0] == 'plus':
                    for i in range(1 + rep % 2):
                        t = tok(p[1], rep + i)
                        if t is None: return None
                        out += t
            return out
        vals = []
        for rep in range(4):
            t = tok(body, rep)
            if t is not None:
                vals.append(u' '.join(t))
        return vals

    def probe_element(self, q):
        if q not in self._probe_el:
            from odf.element import Element
            self._probe_el[q] = Element(qname=q, check_grammar=False)
        return self._probe_el[q]

    def values(self, eq, aq):
        """schema-valid values of attribute aq on element eq that the bound converter returns unchanged;
        the marker 'STYLEREF' stands for 'the name of a style of the document'"""
        key = (eq, aq)
        if key in self._vals:
            return self._vals[key]
        dt = self.dt.get(key)
        out = []
        if dt is not None:
            cands = []
            for at in sorted(dt, key=repr):
                if at[0] == 'styleref':
                    out.append('STYLEREF' if at[1] == 'styleNameRef' else 'STYLEREFS')
                elif at[0] == 'list':
                    cands += self.list_values(at[1])
                else:
                    cands += self.atom_values(at)
            el = self.probe_element(eq)
            seen = set()
            for v in cands:
                if v in seen:
                    continue
                seen.add(v)
                if not all(X.is_xml_char(c) for c in v):
                    continue
                try:
                    r = self.conv.convert(aq, v, el)
                except Exception:
                    continue
                if r == v:
                    out.append(v)
        self._vals[key] = out
        return out


# ------------------------------------------------------------------------------------------- recipes
class Gen(object):
    """recipes are pure data: tree descriptions for every section + pictures + sub-documents"""
    def __init__(self, V, rng, tier):
        self.V = V; self.rng = rng; self.tier = tier

    def text(self, allow_disc=True):
        r = self.rng
        s = u''.join(r.choice(TEXT_POOL) for _ in range(r.choice([1, 1, 1, 2, 3])))
        if allow_disc and r.random() < 0.01:
            s += r.choice(DISCOURAGED)
        return s

    def attrs_for(self, q, ctx):
        V = self.V; r = self.rng
        allowed = V.G.allowed_attributes.get(q)
        required = list(V.G.required_attributes.get(q) or [])
        out = []
        if allowed is None:
            return [(u'urn:example:any', u'a', u'v')] if r.random() < 0.3 else []
        chosen = list(required)
        opt = [a for a in allowed if a not in required]
        r.shuffle(opt)
        # style references first: they are what keeps automatic styles alive
        refs = [a for a in opt if 'STYLEREF' in V.values(q, a) or 'STYLEREFS' in V.values(q, a)]
        for a in refs:
            if r.random() < 0.6:
                chosen.append(a)
        chosen += [a for a in opt[:r.choice([0, 1, 2, 4])] if a not in chosen]
        for a in chosen:
            vs = V.values(q, a)
            if not vs:
                if a in required:
                    return None
                continue
            v = r.choice(vs)
            if v == 'STYLEREF':
                v = r.choice(ctx['stylenames']) if ctx['stylenames'] else u'Nope'
            elif v == 'STYLEREFS':
                v = r.choice(ctx['stylenames'])[:1] if ctx['stylenames'] else u'N'
                v = r.choice([n for n in ctx['stylenames'] if len(n) == 1] or [u'N'])
            if a == (L.STYLENS, 'name') and q != (L.STYLENS, 'font-face'):
                v = ctx['fresh']()
            elif a == (L.STYLENS, 'name'):
                v = ctx['fontname'](v)
            out.append((a[0], a[1], v))
        return out

    def element(self, q, depth, ctx, budget):
        """a random element of kind q with schema-directed content; None if q cannot be built"""
        V = self.V; r = self.rng
        if q not in V.factories:
            return None
        at = self.attrs_for(q, ctx)
        if at is None:
            return None
        kids = []
        allowed = V.G.allowed_children.get(q)
        may_text = q in V.G.allows_text
        n = 0 if depth <= 0 else r.choice([0, 1, 1, 2, 3, 5])
        cand = sorted(allowed) if allowed else []
        # the grammar tables use None for "any child"
        for _ in range(n):
            if budget[0] <= 0:
                break
            if may_text and r.random() < 0.45:
                kids.append(('T', self.text()) if r.random() < 0.9 else ('C', self.text(False).replace(u']]>', u']]')))
            elif cand:
                cq = r.choice(ctx.get('prefer', {}).get(q) or cand)
                if cq in ((L.OFFICENS, 'annotation'),) and r.random() < 0.5:
                    continue
                budget[0] -= 1
                k = self.element(cq, depth - 1, ctx, budget)
                if k is not None:
                    kids.append(k)
        if may_text and not kids and r.random() < 0.5:
            kids.append(('T', self.text()))
        return ('E', q[0], q[1], at, kids)

    def styles(self, ctx, n, families, automatic):
        out = []
        for _ in range(n):
            fam = self.rng.choice(families)
            e = self.element((L.STYLENS, 'style'), 2, ctx, [12])
            if e is None:
                continue
            at = [a for a in e[3] if (a[0], a[1]) not in ((L.STYLENS, 'family'),)]
            at.append((L.STYLENS, u'family', fam))
            out.append(('E', e[1], e[2], at, e[4]))
        return out

    def document(self, depth=0, cls=None, many_objects=0):
        r = self.rng
        cls = cls or r.choice(DOC_CLASSES)
        counter = [0]
        names = []
        def fresh():
            counter[0] += 1
            n = u'%s%d' % (r.choice([u'P', u'T', u'N', u'gr', u'ce', u'é']), counter[0])
            names.append(n)
            return n
        fonts_seen = []
        def fontname(v):
            # mostly distinct font names; a name repeated inside the document must survive too
            if v in fonts_seen and r.random() > 0.3:
                v = u'%s %d' % (v, len(fonts_seen))
            fonts_seen.append(v)
            return v
        ctx = {'stylenames': [], 'fresh': fresh, 'prefer': {}, 'fontname': fontname}
        # plan the style names first so that references can point forward
        common_names = [u'Standard', u'Heading', u'S']
        auto_names = [u'P%d' % i for i in range(1, 4)] + [u'T1', u'A', u'gr1', u'ce1', u'dp1']
        ctx['stylenames'] = common_names + auto_names
        fams = [u'paragraph', u'text', u'graphic', u'table-cell', u'table', u'drawing-page', u'presentation', u'chart']
        def named(e, name):
            at = [a for a in e[3] if (a[0], a[1]) != (L.STYLENS, 'name')] + [(L.STYLENS, u'name', name)]
            return ('E', e[1], e[2], at, e[4])
        rec = {'class': cls, 'pictures': [], 'objects': [], 'thumbnail': None}
        rec['styles'] = [named(s, n) for s, n in zip(self.styles(ctx, len(common_names), fams, False), common_names)]
        autos = [named(s, n) for s, n in zip(self.styles(ctx, len(auto_names), fams, True), auto_names)]
        # other kinds of automatic style
        for q, nm in (((L.TEXTNS, 'list-style'), u'L1'), ((u'urn:oasis:names:tc:opendocument:xmlns:datastyle:1.0', 'number-style'), u'N1'),
                      ((L.STYLENS, 'page-layout'), u'pm1')):
            e = self.element(q, 2, ctx, [8])
            if e is not None:
                autos.append(named(e, nm)); ctx['stylenames'].append(nm)
        if r.random() < 0.04:
            # a name clash between a common and an automatic style (C11's territory)
            autos.append(named(autos[0], common_names[0]))
        r.shuffle(autos)
        same = None
        if r.random() < 0.25 and cls in ('Text', 'TextMaster'):
            # two automatic styles of DIFFERENT kinds under one name (names are unique per kind only), both used; the
            # later one is the only referrer of a further automatic style
            DS = u'urn:oasis:names:tc:opendocument:xmlns:datastyle:1.0'
            kind = r.choice(['list', 'number'])
            nm = r.choice([u'X1', u'L9', u'N7'])
            only = nm + u'only'
            first = ('E', L.STYLENS, u'style', [(L.STYLENS, u'name', nm), (L.STYLENS, u'family', u'paragraph')], [])
            lonely = ('E', L.STYLENS, u'style', [(L.STYLENS, u'name', only), (L.STYLENS, u'family', u'text')],
                      [('E', L.STYLENS, u'text-properties', [(L.FONS, u'font-weight', u'bold')], [])])
            if kind == 'list':
                second = ('E', L.TEXTNS, u'list-style', [(L.STYLENS, u'name', nm)],
                          [('E', L.TEXTNS, u'list-level-style-number', [(L.TEXTNS, u'level', u'1'), (L.TEXTNS, u'style-name', only)], [])])
                use = ('E', L.TEXTNS, u'list', [(L.TEXTNS, u'style-name', nm)],
                       [('E', L.TEXTNS, u'list-item', [], [('E', L.TEXTNS, u'p', [(L.TEXTNS, u'style-name', nm)], [('T', u'item')])])])
            else:
                second = ('E', DS, u'number-style', [(L.STYLENS, u'name', nm)],
                          [('E', DS, u'text', [], [('T', u'#')]), ('E', L.STYLENS, u'map', [(L.STYLENS, u'condition', u'value()>=0'), (L.STYLENS, u'apply-style-name', only)], [])])
                lonely = ('E', DS, u'number-style', [(L.STYLENS, u'name', only)], [('E', DS, u'number', [], [])])
                cell = ('E', L.STYLENS, u'style', [(L.STYLENS, u'name', nm + u'c'), (L.STYLENS, u'family', u'table-cell'), (L.STYLENS, u'data-style-name', nm)], [])
                autos.append(cell)
                use = ('E', L.TABLENS, u'table', [(L.TABLENS, u'name', u'same')], [('E', L.TABLENS, u'table-column', [], []),
                       ('E', L.TABLENS, u'table-row', [], [('E', L.TABLENS, u'table-cell', [(L.TABLENS, u'style-name', nm + u'c')],
                        [('E', L.TEXTNS, u'p', [(L.TEXTNS, u'style-name', nm)], [('T', u'1')])])])])
            pair = [first, second] if r.random() < 0.5 else [second, first]
            autos = autos[:2] + [pair[0]] + autos[2:] + [pair[1], lonely]
            same = use
        rec['auto'] = autos
        # body
        size = [40 if self.tier == 'quick' else 80]
        top = {'Text': 'text', 'TextMaster': 'text', 'Spreadsheet': 'spreadsheet', 'Presentation': 'presentation',
               'Drawing': 'drawing', 'Chart': 'chart', 'Image': 'image'}[cls]
        topq = (L.OFFICENS, top)
        kids = []
        allowed = sorted(self.V.G.allowed_children.get(topq) or [])
        likely = {'text': [(L.TEXTNS, 'p'), (L.TEXTNS, 'h'), (L.TEXTNS, 'list'), (L.TABLENS, 'table'), (L.TEXTNS, 'section')],
                  'spreadsheet': [(L.TABLENS, 'table')], 'presentation': [(L.DRAWNS, 'page')], 'drawing': [(L.DRAWNS, 'page')],
                  'chart': [(u'urn:oasis:names:tc:opendocument:xmlns:chart:1.0', 'chart')], 'image': [(L.DRAWNS, 'frame')]}[top]
        for _ in range(r.randint(1, 6)):
            cq = r.choice(likely) if r.random() < 0.7 else r.choice(allowed)
            if cq not in allowed:
                continue
            k = self.element(cq, r.choice([2, 3, 4]), ctx, size)
            if k is not None:
                kids.append(k)
        if same is not None:
            kids.append(same)
        rec['body'] = kids
        # master styles, fonts, settings, meta
        rec['master'] = [k for k in [self.element((L.STYLENS, 'master-page'), 3, ctx, [15]) for _ in range(r.choice([0, 1, 2]))] if k]
        rec['master'] = [named(m, u'Master%d' % i) for i, m in enumerate(rec['master'])]
        rec['fonts'] = [k for k in [self.element((L.STYLENS, 'font-face'), 1, ctx, [4]) for _ in range(r.choice([0, 1, 3]))] if k]
        rec['settings'] = [k for k in [self.element((L.CONFIGNS, 'config-item-set'), 3, ctx, [12]) for _ in range(r.choice([0, 0, 1, 2]))] if k]
        metas = sorted(self.V.G.allowed_children.get((L.OFFICENS, 'meta')) or [])
        rec['meta'] = [k for k in [self.element(r.choice(metas), 1, ctx, [3]) for _ in range(r.choice([0, 1, 3, 5]))] if k]
        rec['scripts'] = [k for k in [self.element((L.OFFICENS, 'script'), 1, ctx, [3]) for _ in range(r.choice([0, 0, 0, 1]))] if k]
        # pictures: (how, name, mediatype, bytes)
        for i in range(r.choice([0, 0, 1, 2, 3])):
            how = r.choice(['string', 'named', 'file', 'named-empty-mt', 'file-unknown-ext'])
            rec['pictures'].append([how, u'Pictures/pic%d%s' % (i, r.choice([u'.png', u'.bin', u''])),
                                    r.choice([u'image/png', u'image/jpeg']), enc_bytes(bytes(bytearray(r.randrange(256) for _ in range(r.randint(0, 40)))))])
        if r.random() < 0.2:
            rec['thumbnail'] = enc_bytes(b'\x89PNG' + bytes(bytearray(r.randrange(256) for _ in range(8))))
        # embedded sub-documents
        for k in range(many_objects):
            o = self.document(2, r.choice(['Spreadsheet', 'Chart', 'Drawing', 'Text']))
            o['pictures'] = []; o['fonts'] = []
            rec['objects'].append(o)
        if depth < 2 and not many_objects:
            p = [0.45, 0.12][depth]
            while r.random() < p and len(rec['objects']) < 3:
                rec['objects'].append(self.document(depth + 1, r.choice(['Spreadsheet', 'Chart', 'Drawing', 'Text'])))
                if depth == 0 and r.random() < 0.85:
                    rec['objects'][-1]['pictures'] = []      # pictures inside objects are a known loss: keep them rare
        return rec


    # pieces of picture names: pairs / triples that ONE of the usual normalisations (NFC, NFD, NFKC, case folding, percent
    # decoding, "+" for blank, trimming) would identify, and characters a path or URL handler might treat specially
    PIC_PAIRS = [[u're\u0301sume\u0301', u'r\u00e9sum\u00e9'], [u'\u212bngstrom', u'\u00c5ngstrom', u'A\u030angstrom'],
                 [u'\u1112\u1161\u11ab', u'\ud55c'], [u'q\u0307\u0323', u'q\u0323\u0307'], [u'\u0958', u'\u0915\u093c'],
                 [u'a b', u'a%20b', u'a+b'], [u'Img', u'img', u'IMG'], [u'\u2126', u'\u03a9'], [u'stra\u00dfe', u'strasse'],
                 [u'\ufb01le', u'file'], [u'100%', u'100%25'], [u'\u00e9', u'%C3%A9']]
    PIC_PIECES = [u'e\u0301', u'\u00e9', u'\u212b', u'\u1112\u1161', u'\ud55c', u'o\u0323\u0302', u'\u0958', u' ', u'%', u'%41', u'+', u'x',
                  u'\u4e2d\u6587', u'\U0001F600', u'&', u"'", u'#', u'?', u'sub/', u'.', u',', u'\u0131', u'\u00a0', u'=', u';', u'~', u'(1)']

    def picture_names(self, fixed):
        r = self.rng
        if fixed:
            stems = [x for pr in self.PIC_PAIRS for x in pr]
        else:
            stems = []
            for pr in r.sample(self.PIC_PAIRS, 3):
                stems += pr
            for _ in range(6):
                st = u''.join(r.choice(self.PIC_PIECES) for _ in range(r.randint(1, 4))).strip(u' /')
                if st and not st.endswith(u'.') and u'//' not in st and st not in stems:
                    stems.append(st)
        return [u'Pictures/%s%s' % (st, r.choice([u'.png', u'.png', u'', u'.\u00e9'])) for st in stems]

    def pictures_doc(self, fixed, cls=None):
        """a random document whose pictures are registered by explicit name (picture_names), each referenced from the body
        by a draw:image; a Text sub-document with named pictures of its own"""
        r = self.rng
        rec = self.document(2, cls or r.choice(['Text', 'Drawing', 'Presentation']))
        def fill(d, names):
            d['pictures'] = []
            for k, nm in enumerate(names):
                data = enc_bytes((u'%d:%s' % (k, nm)).encode('utf-8') + bytes(bytearray(r.randrange(256) for _ in range(r.randint(0, 12)))))
                d['pictures'].append(['named', nm, r.choice([u'image/png', u'image/jpeg']), data])
            img = lambda nm: ('E', L.DRAWNS, u'frame', [(L.SVGNS, u'width', u'1cm'), (L.SVGNS, u'height', u'1cm')],
                              [('E', L.DRAWNS, u'image', [(L.XLINKNS, u'href', nm)], [])])
            if d['class'] in ('Text', 'TextMaster'):
                d['body'] = list(d['body']) + [('E', L.TEXTNS, u'p', [], [img(nm), ('T', u' ')]) for nm in names]
            elif d['class'] in ('Drawing', 'Presentation'):
                d['body'] = list(d['body']) + [('E', L.DRAWNS, u'page', [(L.DRAWNS, u'name', u'pictures by name'), (L.DRAWNS, u'master-page-name', u'Standard')],
                                                [img(nm) for nm in names])]
        names = self.picture_names(fixed)
        fill(rec, names)
        sub = self.document(2, 'Text')
        sub['objects'] = []
        fill(sub, r.sample(names, 4) + self.picture_names(False)[-3:])
        rec['objects'] = [sub]
        return rec

    def big_part(self, pad, objects=False):
        """an otherwise empty text document with one paragraph in the body (content.xml) and one in a page header
        (styles.xml) of ~140 KB of multi-byte characters (realise_extreme 'big'); ASCII in front of them, so that the byte
        offset of the first multi-byte character can be read off the saved part"""
        blank = lambda: {'class': 'Text', 'pictures': [], 'objects': [], 'thumbnail': None, 'styles': [], 'auto': [], 'body': [],
                         'master': [], 'fonts': [], 'settings': [], 'meta': [], 'scripts': []}
        rec = blank()
        rec['extreme'] = {'style': u'BigOnly', 'kind': 'span', 'depth': 0, 'wide': 0, 'long': 0, 'big': {'pad': [pad, pad], 'orders': [0, 1]}}
        if objects:
            o = blank()
            o['extreme'] = {'style': u'BigOnlyO', 'kind': 'span', 'depth': 0, 'wide': 0, 'long': 0, 'big': {'pad': [pad, pad], 'orders': [2, 0]}}
            rec['objects'] = [o]
        return rec

    def nest(self, levels, cls=None):
        """a document with a chain of `levels` objects inside each other (Object 1/Object 1/.../), siblings beside some
        links of the chain, each sub-document attached 'last' (inside out), 'first' (outside in) or 'loaded'"""
        r = self.rng
        def small(c=None):
            d = self.document(2, c or r.choice(['Spreadsheet', 'Chart', 'Drawing', 'Text']))
            if r.random() < 0.7:
                d['pictures'] = []
            return d
        inner = small()
        inner['attach'] = r.choice(['last', 'last', 'first', 'loaded'])
        for l in range(levels - 1):
            outer = small()
            outer['attach'] = r.choice(['last', 'last', 'first', 'loaded'])
            sibs = [small() for _ in range(r.choice([0, 0, 1]))]
            for x in sibs:
                x['attach'] = r.choice(['last', 'first'])
            outer['objects'] = (sibs + [inner]) if r.random() < 0.5 else ([inner] + sibs)
            inner = outer
        top = self.document(2, cls)
        top['objects'] = [inner] + [small() for _ in range(r.choice([0, 0, 1]))]
        return top

    def history(self):
        """what the process did BEFORE the document under test is built: 1-2 documents with embedded objects are built
        and saved, a foreign producer (the harness: zipfile) adds members of its own to the package - files the library
        keeps as they are -, the package is loaded and saved 1-3 times"""
        r = self.rng
        steps = []
        for _ in range(r.choice([1, 1, 2])):
            a = self.document(2, r.choice(DOC_CLASSES))
            a['objects'] = [self.document(2, r.choice(['Spreadsheet', 'Chart', 'Text'])) for _ in range(r.choice([1, 2]))]
            if r.random() < 0.4:
                a['objects'][0]['objects'] = [self.document(2, 'Chart')]
            blob = lambda: enc_bytes(bytes(bytearray(r.randrange(256) for _ in range(r.randint(1, 30)))))
            extras = [[u'meta.xml', u'text/xml', enc_bytes(FOREIGN_META)], [u'Configurations2/', u'application/vnd.sun.xml.ui.configuration', None],
                      [u'Configurations2/accelerator/current.xml', u'', '-'], [u'layout-cache', u'application/binary', blob()],
                      [u'Thumbnails/thumbnail.png', u'image/png', blob()], [u'own é.bin', u'application/octet-stream', blob()]]
            steps.append({'doc': a, 'extras': [extras[0]] + [x for x in extras[1:] if r.random() < 0.6], 'saves': r.choice([1, 2, 3])})
        return steps


FOREIGN_META = (b'<?xml version="1.0" encoding="UTF-8"?>\n<office:document-meta xmlns:office="urn:oasis:names:tc:opendocument:xmlns:office:1.0" '
                b'xmlns:meta="urn:oasis:names:tc:opendocument:xmlns:meta:1.0" xmlns:dc="http://purl.org/dc/elements/1.1/" office:version="1.2">'
                b'<office:meta><meta:generator>Other/9.9</meta:generator><dc:title>title of an object of ANOTHER document</dc:title>'
                b'<dc:creator>somebody else</dc:creator></office:meta></office:document-meta>')


def enc_bytes(b):
    return '-' if not b else '.'.join('%x' % c for c in bytearray(b))


def dec_bytes(w):
    return b'' if w == '-' else bytes(bytearray(int(x, 16) for x in w.split('.')))


def tup(t):
    """JSON gives lists: back to the tuple form of a description"""
    if t[0] != 'E':
        return (t[0], t[1])
    return ('E', t[1], t[2], [tuple(a) for a in t[3]], [tup(k) for k in t[4]])


# ------------------------------------------------------------------------------------------- realise on the real library
def realise_node(V, t, parent):
    if t[0] == 'T':
        parent.addText(t[1]); return
    if t[0] == 'C':
        parent.addCDATA(t[1]); return
    q = (t[1], t[2])
    qa = dict(((a[0], a[1]), a[2]) for a in t[3])
    try:
        e = V.factories[q](qattributes=qa)
    except TypeError:
        # factories that build their own qattributes (draw.StyleRefElement ...): attributes one by one
        e = V.factories[q](check_grammar=False)
        for k, v in qa.items():
            e.setAttrNS(k[0], k[1], v)
    parent.addElement(e)
    for k in t[4]:
        realise_node(V, k, e)


def realise(V, rec, tmpdir, parent=None):
    """rec['attach'] says WHEN a sub-document is attached to its parent: None/'last' = when it is complete, its own objects
    included (a nest is assembled from the inside out); 'first' = as an empty shell, before it gets content and objects
    (from the outside in); 'loaded' = it is completed, saved, loaded back and the LOADED document (which already has its
    nested objects) is attached"""
    from odf import opendocument
    d = getattr(opendocument, 'OpenDocument' + rec['class'])()
    attach = rec.get('attach') or 'last'
    if parent is not None and attach == 'first':
        parent.addObject(d)
    top = d.body.firstChild
    for sec, key in ((d.styles, 'styles'), (d.automaticstyles, 'auto'), (top, 'body'), (d.masterstyles, 'master'),
                     (d.fontfacedecls, 'fonts'), (d.settings, 'settings'), (d.meta, 'meta'), (d.scripts, 'scripts')):
        for t in rec[key]:
            realise_node(V, tup(t), sec)
    for i, (how, name, mt, data) in enumerate(rec['pictures']):
        b = dec_bytes(data)
        if how == 'string':
            d.addPictureFromString(b, mt)
        elif how == 'named':
            d.addPicture(name, mt, b)
        elif how == 'named-empty-mt':
            d.addPicture(name, u'', b)
        else:
            ext = u'.png' if how == 'file' else u'.zzunknown'
            fn = os.path.join(tmpdir, u'f%d_%d%s' % (id(d) % 100000, i, ext))
            with open(fn, 'wb') as f:
                f.write(b)
            d.addPictureFromFile(fn)
    if rec.get('thumbnail'):
        d.addThumbnail(dec_bytes(rec['thumbnail']))
    realise_extreme(V, rec.get('extreme'), d, top)
    for o in rec['objects']:
        realise(V, o, tmpdir, d)
    if parent is not None and attach != 'first':
        if attach == 'loaded':
            d = load_bytes(save_bytes(d))[0]
        parent.addObject(d)
    return d


def realise_extreme(V, ex, d, top):
    """corners of "for all documents": a chain of `depth` nested elements with an automatic style referenced ONLY at the
    deepest level, `wide` sibling paragraphs, one text node of `long` characters (built with loops, through the factories,
    grammar checks on).  ex = {'kind': 'span'|'list'|'g', 'depth': n, 'wide': n, 'long': n, 'style': name}"""
    if not ex:
        return
    from odf import text, draw, style
    nm = ex['style']
    st = style.Style(name=nm, family=u'text')
    st.addElement(style.TextProperties(fontweight=u'bold'))
    d.automaticstyles.addElement(st)
    def leaf():
        s = text.Span(stylename=nm)
        s.addText(u'deepest')
        return s
    host = top
    if top.qname[1] not in ('text',):
        # a place that takes paragraphs / shapes in the other document classes
        if top.qname[1] in ('drawing', 'presentation'):
            pg = draw.Page(name=u'deep page', masterpagename=u'Standard'); top.addElement(pg)
            fr = draw.Frame(width=u'5cm', height=u'5cm'); pg.addElement(fr)
            tb = draw.TextBox(); fr.addElement(tb); host = tb
        else:
            return
    if ex.get('depth'):
        kind = ex['kind']
        if kind == 'span':
            p = text.P(); host.addElement(p)
            cur = p
            for i in range(ex['depth']):
                s = text.Span(); cur.addElement(s); s.addText(u'%d' % (i % 10)); cur = s
            cur.addElement(leaf())
        elif kind == 'list':
            cur = host
            for i in range(ex['depth']):
                l = text.List(); cur.addElement(l)
                it = text.ListItem(); l.addElement(it); cur = it
            p = text.P(); cur.addElement(p); p.addElement(leaf())
        else:
            p = text.P(); host.addElement(p)
            cur = p
            for i in range(ex['depth']):
                g = draw.G(); cur.addElement(g); cur = g
            fr = draw.Frame(width=u'1cm', height=u'1cm'); cur.addElement(fr)
            tb = draw.TextBox(); fr.addElement(tb)
            p2 = text.P(); tb.addElement(p2); p2.addElement(leaf())
    for i in range(ex.get('wide', 0)):
        p = text.P(); host.addElement(p); p.addText(u'w%d' % i)
        if i == ex['wide'] - 1:
            p.addElement(leaf())
    if ex.get('big'):
        b = ex['big']
        p = text.P(); host.addElement(p)
        p.addText(L.straddle_text(b['pad'][0], b['orders'][0]))
        p.addElement(leaf())
        d.automaticstyles.addElement(style.PageLayout(name=u'BigPL'))
        mp = style.MasterPage(name=u'BigMaster', pagelayoutname=u'BigPL'); d.masterstyles.addElement(mp)
        hd = style.Header(); mp.addElement(hd)
        p = text.P(); hd.addElement(p)
        p.addText(L.straddle_text(b['pad'][1], b['orders'][1]))
    if ex.get('long'):
        p = text.P(); host.addElement(p)
        unit = u'long text with & < > " \' \t and é\U0001F600 '
        p.addText((unit * (ex['long'] // len(unit) + 1))[:ex['long']])
        p.addElement(leaf())


# ------------------------------------------------------------------------------------------- observation of a real document
def snapshot(d):
    """everything the property talks about, read through qname / attributes / childNodes / data"""
    from odf.opendocument import IS_FILENAME
    s = {'mimetype': d.mimetype}
    for k, v in L.loaded_sections(d).items():
        s[k] = sorted(v) if k.startswith('@') else L.merge_text([L.norm(x) for x in v])
    pics = {}
    for name, (what, obj, mt) in d.Pictures.items():
        if what == IS_FILENAME:
            with open(obj, 'rb') as f:
                obj = f.read()
        pics[name] = (mt, obj)
    s['pictures'] = pics
    s['thumbnail'] = d.thumbnail
    s['objects'] = [snapshot(o) for o in d.childobjects]
    return s


def save_bytes(d):
    b = io.BytesIO()
    with warnings.catch_warnings():
        warnings.simplefilter('ignore')
        d.save(b)
    return b.getvalue()


def load_bytes(raw):
    from odf.opendocument import load
    out = io.StringIO()
    with contextlib.redirect_stdout(out), warnings.catch_warnings():
        warnings.simplefilter('ignore')
        d = load(io.BytesIO(raw))
    return d, out.getvalue()


def strip_disc(t):
    """discouraged code points as U+FFFD (what KF-C02-1 does), to see whether that is the ONLY difference"""
    f = lambda s: u''.join(u'�' if X.is_discouraged(c) else c for c in s)
    if t[0] != 'E':
        return ('T', f(t[1]))
    return ('E', t[1], t[2], sorted((a[0], a[1], f(a[2])) for a in t[3]), L.merge_text([strip_disc(k) for k in t[4]]))


def forest_el(name, kids):
    return ('E', L.OFFICENS, name, [], kids)


def no_gen(kids):
    return L.merge_text([k for k in kids if not (k[0] == 'E' and (k[1], k[2]) == (L.METANS, 'generator'))])


class Rep(object):
    def __init__(self):
        self.items = []
    def add(self, sig, det):
        if len(self.items) < 40:
            self.items.append((sig, det))


def disc(s):
    return None if s is None else u''.join(u'\ufffd' if X.is_discouraged(c) else c for c in s)


def has_nested_section(kids, depth=0):
    """is one of LoadParser's eight trigger elements nested inside this content? (schema: draw:object may hold a
    whole office:document inline)"""
    for k in kids:
        if k[0] == 'E':
            if k[1] == L.OFFICENS and k[2] in L.TRIGGERS:
                return True
            if has_nested_section(k[4], depth + 1):
                return True
    return False


def classify(d, ctx):
    if d['kind'] in ('text', 'attr') and d['a'] is not None and d['b'] is not None and d['a'] != d['b'] and disc(d['a']) == d['b']:
        return 'discouraged-codepoint'
    if ctx.get('nested'):
        return 'nested-section-element'
    if d['kind'] == 'attr' and ctx['both'] and tuple(d['attr']) in ((L.TEXTNS, 'style-name'), (L.STYLENS, 'name')) and \
            d['a'] is not None and d['b'] is not None and d['b'].lstrip(u'M') == d['a'].lstrip(u'M'):
        return 'style-name-collision'
    return None


tree_eq = L.tree_eq      # a == b without C-level recursion (deep documents); deep_eq below is the same thing, kept for its callers


def deep_eq(a, b):
    """a == b for nested lists/tuples without recursion: CPython's own comparison recurses on the C stack and gives up with
    RecursionError around 400 element levels (each level is two lists deep) - which the extreme documents reach (a thorough run
    with seed 7 reported that RecursionError of the HARNESS as a failing input: a false alarm, see DESIGN A.7)"""
    stack = [(a, b)]
    while stack:
        x, y = stack.pop()
        if isinstance(x, (list, tuple)) and isinstance(y, (list, tuple)):
            if len(x) != len(y) or type(x) is not type(y):
                return False
            stack.extend(zip(x, y))
        elif isinstance(x, (list, tuple)) or isinstance(y, (list, tuple)):
            return False
        elif x != y:
            return False
    return True


def compare_section(rep, what, a, b, ctx):
    if deep_eq(a, b):
        return
    A = forest_el(what, a); B = forest_el(what, b)
    for d in L.diff(A, B)[:8]:
        sig = classify(d, ctx) or 'section-differs:%s' % d['kind']
        rep.add(sig, '%s%s %s' % (ctx['where'], d['path'], json.dumps(dict((k, v) for k, v in d.items() if k != 'path'), default=repr)[:300]))


def font_names(forest):
    return [L.attr(k, L.STYLENS, 'name') for k in forest if k[0] == 'E']


def repeated_font_names(forest):
    fn = font_names(forest)
    return sorted(set(repr(x) for x in fn if fn.count(x) > 1))


def first_of_each_name(forest):
    seen = []; out = []
    for k in forest:
        if k[0] == 'E':
            nm = L.attr(k, L.STYLENS, 'name')
            if nm in seen:
                continue
            seen.append(nm)
        out.append(k)
    return out


def compare_docs(rep, s1, s2, pkg1, folder, where=''):
    """s1: snapshot of the built document (before save), s2: of the loaded one"""
    S = L.sections_of(pkg1, folder)
    ca = [L.style_name(k) for k in (S.content_auto[4] if S.content_auto else []) if k[0] == 'E']
    sa = [L.style_name(k) for k in (S.styles_auto[4] if S.styles_auto else []) if k[0] == 'E']
    common_n = [L.style_name(k) for k in (S.styles[4] if S.styles else []) if k[0] == 'E' and (k[1], k[2]) == (L.STYLENS, 'style')]
    reg = [n for n in ca + common_n + sa if n is not None]
    ctx = {'both': set(n for n in reg if reg.count(n) > 1), 'where': where,
           'nested': False}     # (repaired) an inline office:document is ordinary content now: no class of its own
    if s1['mimetype'] != s2['mimetype']:
        rep.add('mimetype-differs', '%s%r vs %r' % (where, s1['mimetype'], s2['mimetype']))
    for sec in ('body', 'styles', 'master-styles', 'font-face-decls', 'settings', 'scripts'):
        a = s1[sec]; b = s2[sec]
        if sec == 'font-face-decls' and folder and a and not b:
            rep.add('subdocument-font-face-decls-dropped', '%s%d font declarations of the sub-document are gone' % (where, len(a)))
            continue
        compare_section(rep, sec, a, b, ctx)
    if not folder:
        compare_section(rep, 'meta', no_gen(s1['meta']), no_gen(s2['meta']), ctx)
    # referenced automatic styles: closure from body, common styles, master styles (schema list of reference attributes)
    auto = forest_el('automatic-styles', s1['automatic-styles'])
    roots = [forest_el('x', s1['body']), forest_el('x', s1['styles']), forest_el('x', s1['master-styles'])]
    have = s2['automatic-styles']
    for st in L.referenced_auto(auto, roots):
        if not any(deep_eq(k, st) for k in have):
            nm = L.style_name(st)
            if any(deep_eq(strip_disc(k), strip_disc(st)) for k in have):
                rep.add('discouraged-codepoint', '%sautomatic style %r differs only by U+FFFD' % (where, nm))
            elif ctx['nested']:
                rep.add('nested-section-element', '%sreferenced automatic style %r is not among the loaded automatic styles' % (where, nm))
            else:
                cand = [k for k in have if k[0] == 'E' and (k[1], k[2]) == (st[1], st[2]) and L.style_name(k) == nm]
                sigs = set(classify(d, ctx) for k in cand[:1] for d in L.diff(st, k))
                if cand and len(sigs) == 1 and None not in sigs:
                    rep.add(list(sigs)[0], '%sreferenced automatic style %r was altered' % (where, nm))
                    continue
                rep.add('style-name-collision' if nm in ctx['both'] else 'referenced-automatic-style-lost',
                        '%sreferenced automatic style %r is not among the loaded automatic styles' % (where, nm))
    # pictures
    p1 = s1['pictures']; p2 = s2['pictures']
    if folder and p1 and not p2:
        rep.add('object-pictures-not-loaded', '%s%d pictures of the sub-document are gone' % (where, len(p1)))
    else:
        for n in sorted(set(p1) | set(p2)):
            if n not in p2:
                rep.add('picture-lost', '%spicture %r (%r) is not in the loaded document' % (where, n, p1[n][0]))
            elif n not in p1:
                rep.add('picture-invented', '%spicture %r appeared' % (where, n))
            elif p1[n][1] != p2[n][1]:
                rep.add('picture-bytes-differ', '%spicture %r: %d bytes became %d other bytes' % (where, n, len(p1[n][1]), len(p2[n][1])))
            elif p1[n][0] != p2[n][0]:
                rep.add('picture-media-type-differs', '%spicture %r: media type %r became %r' % (where, n, p1[n][0], p2[n][0]))
    picture_references(rep, s1, s2, where)
    # sub-documents
    o1 = s1['objects']; o2 = s2['objects']
    if folder and o1 and not o2:
        rep.add('nested-object-not-loaded', '%s%d nested sub-documents are gone' % (where, len(o1)))
    elif len(o1) != len(o2):
        rep.add('sub-document-count', '%s%d sub-documents became %d' % (where, len(o1), len(o2)))
    else:
        for i, (a, b) in enumerate(zip(o1, o2)):
            compare_docs(rep, a, b, pkg1, u'%sObject %d/' % (folder, i + 1), where + 'Object %d/ ' % (i + 1))


def hrefs_of(forest):
    return [L.attr(e, L.XLINKNS, 'href') for k in forest for e in L.elems(k) if L.attr(e, L.XLINKNS, 'href') is not None]


def picture_references(rep, s1, s2, where):
    """a reference of the built document (xlink:href in the body) that names one of ITS pictures names, in the loaded
    document, a picture with the same bytes: the reference is still there and still resolves"""
    h2 = hrefs_of(s2['body'])
    for h in hrefs_of(s1['body']):
        if h not in s1['pictures']:
            continue
        if h not in h2:
            rep.add('picture-reference-changed', '%sthe reference %r to a picture of the document is not in the loaded body' % (where, h))
        elif h not in s2['pictures']:
            rep.add('picture-reference-dangling', '%sthe reference %r named a picture of the built document; the loaded document has no picture of that name (it has %r)'
                    % (where, h, sorted(s2['pictures'])[:6]))
        elif s2['pictures'][h][1] != s1['pictures'][h][1]:
            rep.add('picture-reference-other-bytes', '%sthe reference %r resolves to other bytes after load' % (where, h))


def unwritten_referrer_only(s1, folder_snapshot, gone):
    """are all the automatic styles named in `gone` (a) outside the reference closure of body / common styles /
    master styles and (b) referenced by an automatic style that is itself outside the closure?"""
    s = folder_snapshot
    auto = forest_el('a', s['automatic-styles'])
    roots = [forest_el('x', s[k]) for k in ('body', 'styles', 'master-styles')]
    R = set(L.style_name(x) for x in L.referenced_auto(auto, roots))
    for g in gone:
        if g in R:
            return False
        ok = False
        for k in s['automatic-styles']:
            if k[0] == 'E' and L.style_name(k) not in R:
                refs = set(); L.refs_in(k, refs)
                if g in refs:
                    ok = True
        if not ok:
            return False
    return True


def snapshot_at(s1, folder):
    s = s1
    for comp in [c for c in folder.split(u'/') if c]:
        s = s['objects'][int(comp.split(u' ')[1]) - 1]
    return s


def compare_generations(rep, p1, p2, s1=None):
    """second-generation package vs first, infoset level (zipfile + expat only)"""
    def lost_sig(n):
        parts = n.split(u'/')
        if len(parts) >= 2 and parts[0].startswith(u'Object '):
            if parts[1].startswith(u'Object '):
                return 'nested-object-not-loaded'
            if parts[1] == u'Pictures':
                return 'object-pictures-not-loaded'
        return None
    n1 = sorted(set(p1.names)); n2 = sorted(set(p2.names))
    for n in n1:
        if n not in n2:
            rep.add(lost_sig(n) or 'second-generation-member-lost', 'member %r of the first package is not in the second' % n)
    def nested_at(n):
        folder = n[:-len(n.split(u'/')[-1])]
        try:
            sn = snapshot_at(s1, folder)
        except Exception:
            return False
        return False     # (repaired) see compare_docs
    for n in n2:
        if n not in n1:
            rep.add('nested-section-element' if s1 is not None and n.endswith(u'settings.xml') and nested_at(n) else
                    'second-generation-member-added', 'member %r only in the second package' % n)
    if len(p2.names) != len(set(p2.names)):
        rep.add('second-generation-duplicate-member', 'duplicate member names %r' % sorted(n for n in set(p2.names) if p2.names.count(n) > 1))
    m1 = [e for e in p1.manifest]; m2 = [e for e in p2.manifest]
    if m1 != m2:
        extra = list(m2)
        for e in m1:
            if e in extra:
                extra.remove(e)
        missing = list(m1)
        for e in m2:
            if e in missing:
                missing.remove(e)
        for e in missing:
            rep.add(lost_sig(e[0]) or 'second-generation-manifest-entry-lost', 'manifest entry %r of the first package is not in the second' % (e,))
        for e in extra:
            if e[0].endswith(u'/') and e in m1:
                rep.add('second-generation-folder-entry-duplicated', 'manifest of the second package repeats %r' % (e,))
            elif s1 is not None and e[0].endswith(u'settings.xml') and nested_at(e[0]):
                rep.add('nested-section-element', 'manifest of the second package lists %r' % (e,))
            else:
                rep.add('second-generation-manifest-entry-added', 'manifest entry %r only in the second package' % (e,))
        if not missing and not extra:
            rep.add('second-generation-manifest-order', 'same entries, other order')
    for n in n1:
        if n in n2 and n != 'META-INF/manifest.xml':
            a = p1.data[n]; b = p2.data[n]
            if a == b:
                continue
            if n.split(u'/')[-1] in L.PARTS:
                try:
                    ta = L.norm(L.parse_xml(a)); tb = L.norm(L.parse_xml(b))
                except Exception as e:
                    rep.add('second-generation-part-not-well-formed', '%s: %s' % (n, e)); continue
                if not deep_eq(ta, tb):
                    ds = L.diff(ta, tb)[:3]
                    folder = n[:-len(n.split(u'/')[-1])]
                    S = L.sections_of(p1, folder)
                    names = [L.style_name(k) for sec in (S.content_auto, S.styles, S.styles_auto) if sec for k in sec[4] if k[0] == 'E']
                    both = set(x for x in names if x is not None and names.count(x) > 1)
                    nested = False and any(has_nested_section(snapshot_at(s1, folder)[k]) for k in
                                                    ('body', 'styles', 'master-styles', 'automatic-styles', 'settings', 'meta', 'scripts', 'font-face-decls'))
                    for d in ds:
                        sig = 'second-generation-part-differs'
                        if both:
                            sig = 'style-name-collision'
                        elif folder and d['kind'] == 'children' and any('font-face-decls' in x for x in d['a']) and not any('font-face-decls' in x for x in d['b']):
                            sig = 'subdocument-font-face-decls-dropped'
                        elif d['kind'] == 'children' and d['path'].endswith('/automatic-styles') and d['nb'] < d['na'] and s1 is not None:
                            Sb = L.sections_of(p2, folder)
                            sec1 = S.content_auto if n.endswith(u'content.xml') else S.styles_auto
                            sec2 = Sb.content_auto if n.endswith(u'content.xml') else Sb.styles_auto
                            n2 = [L.style_name(k) for k in sec2[4] if k[0] == 'E']
                            gone = [L.style_name(k) for k in sec1[4] if k[0] == 'E' and L.style_name(k) not in n2]
                            rest = [k for k in sec1[4] if k[0] == 'E' and L.style_name(k) in n2]
                            if gone and [L.norm(k) for k in rest] == [L.norm(k) for k in sec2[4] if k[0] == 'E'] and \
                                    unwritten_referrer_only(s1, snapshot_at(s1, folder), gone):
                                sig = 'style-kept-for-unwritten-referrer'
                        rep.add(sig, '%s%s %s' % (n, d['path'], json.dumps(dict((k, v) for k, v in d.items() if k != 'path'), default=repr)[:260]))
            else:
                rep.add('second-generation-bytes-differ', 'member %r' % n)


def generator_check(rep, p1):
    import odf.namespaces
    b = p1.data.get('meta.xml')
    if b is None:
        rep.add('generator-missing', 'no meta.xml'); return
    t = L.parse_xml(b)
    gens = [e for e in L.elems(t) if (e[1], e[2]) == (L.METANS, 'generator')]
    if len(gens) != 1:
        rep.add('generator-not-once', '%d meta:generator elements' % len(gens)); return
    txt = u''.join(k[1] for k in gens[0][4] if k[0] == 'T')
    # "names this library": the library's name is fixed by the property's reader (ODFPY), the version by the code
    if txt != odf.namespaces.TOOLSVERSION or not txt.startswith(u'ODFPY/'):
        rep.add('generator-not-this-library', 'generator says %r' % txt)


def wire_forest(kids):
    return ' '.join([str(len(kids))] + [X.wire_tree(k) for k in kids])


def save_tree_lines(s1, p1, folder=u''):
    """the `savetrees` request for one (sub-)document: its sections as built (before save) + the automatic styles the
    real save selected for each part (by name, read from the saved parts: C10's subject, a parameter of the model)"""
    import odf.namespaces
    S = L.sections_of(p1, folder)
    def used(sec):
        names = [L.style_name(k) for k in (sec[4] if sec else []) if k[0] == 'E']
        pool = list(s1['automatic-styles'])
        out = []
        for n in names:
            for k in pool:
                if k[0] == 'E' and L.style_name(k) == n:
                    out.append(k); pool.remove(k); break
        return out
    secs = [s1['meta'], s1['scripts'], s1['font-face-decls'], s1['settings'], s1['styles'], [], s1['master-styles'], s1['body'],
            used(S.content_auto), used(S.styles_auto)]
    return 'savetrees ' + enc_str(odf.namespaces.TOOLSVERSION) + ' ' + ' '.join(wire_forest(f) for f in secs), S


def correspond_save(chk, drv, s1, p1, case, folder=u''):
    line, S = save_tree_lines(s1, p1, folder)
    ans = drv.ask(line)
    chk.corr()
    if not ans.startswith('ok '):
        chk.corr_diff(case, 'saved', ans, 'savetrees'); return
    parts = ans[3:].split(' | ')
    for name, w in zip((u'content.xml', u'styles.xml', u'meta.xml', u'settings.xml'), parts):
        real = S.roots.get(name)
        if name == u'meta.xml' and folder:
            continue                      # a sub-document has no meta.xml of its own
        if w == '-':
            if real is not None:
                chk.corr_diff(case, 'settings.xml written', 'model: not written', 'is settings.xml written?')
            continue
        model = X.unwire_tree(w.split())
        if real is None:
            chk.corr_diff(case, '%s missing' % name, 'model writes it', 'which parts are written'); continue
        if X.has_discouraged(model):
            chk.count('corr_save_skipped_discouraged'); continue
        a = X.canon(real); b = X.canon(model)
        if a != b:
            chk.corr_diff(case, X.first_diff(a, b), 'model differs', 'tree of the saved %s%s (real vs model contentTree/stylesTree/metaTree/settingsTree)' % (folder, name))


def play_history(V, steps, tmpdir):
    """the earlier life of the process (Gen.history): build + save, the harness adds foreign members below every folder of
    the package (zipfile + its own manifest writer), load, save n times.  Nothing is checked here: C05 is about these
    packages; C04 is about the document that comes NEXT."""
    for st in steps:
        raw = save_bytes(realise(V, st['doc'], tmpdir))
        pk = L.read_pkg(raw)
        man = list(pk.manifest)
        mem = [(n, pk.data[n]) for n in pk.names if n not in ('mimetype', 'META-INF/manifest.xml')]
        have = set(p for p, _ in man)
        folders = [u''] + [p for p, _ in man if p and p != u'/' and p.endswith(u'/') and (p + u'content.xml') in have]
        for f in folders:
            for name, mt, data in st['extras']:
                if (f == u'' and name in (u'meta.xml', u'Thumbnails/thumbnail.png')) or (f + name) in have:
                    continue
                man.append((f + name, mt)); have.add(f + name)
                if data is not None:
                    mem.append((f + name, dec_bytes(data)))
        d, _ = load_bytes(L.write_pkg(pk.mimetype.decode('utf-8'), man, mem))
        for _ in range(st['saves']):
            save_bytes(d)


def members_of_the_document(rep, s1, p1):
    """the package saved from a BUILT document holds that document and nothing else: besides mimetype and manifest, every
    member is - below a chain of object folders no longer than the document's nest - a part (content / styles / settings;
    meta.xml for the top document), a picture of one of its (sub-)documents or a preview image; every manifest entry is
    such a member or a folder above one; no name is stored or listed twice.  (Names only: what the members hold is
    compared by compare_docs.)"""
    def walk(s, depth, acc):
        acc['depth'] = max(acc['depth'], depth)
        acc['pics'] |= set(s['pictures'])
        for o in s['objects']:
            walk(o, depth + 1, acc)
        return acc
    acc = walk(s1, 0, {'depth': 0, 'pics': set()})
    def accounted(n):
        if n in (u'mimetype', u'META-INF/manifest.xml', u'meta.xml'):
            return True
        comps = n.split(u'/')
        k = 0
        while k < len(comps) - 1 and re.match(u'^Object [0-9]+$', comps[k]):
            k += 1
        rest = u'/'.join(comps[k:])
        if k > acc['depth']:
            return False
        return rest in (u'content.xml', u'styles.xml', u'settings.xml', u'Thumbnails/thumbnail.png') or rest in acc['pics']
    ok = set(n for n in p1.names if accounted(n))
    for n in sorted(set(p1.names)):
        if n not in ok and not (n.endswith(u'/') and any(x.startswith(n) for x in ok)):
            rep.add('member-not-of-the-document', 'the saved package stores %r, which is no part, picture or preview of the document that was built' % n)
        if p1.names.count(n) > 1:
            rep.add('first-package-duplicate-member', 'the saved package stores %r %d times' % (n, p1.names.count(n)))
    for p in sorted(set(p for p, _ in p1.manifest if p)):
        if p != u'/' and p not in ok and not (p.endswith(u'/') and any(x.startswith(p) for x in ok)):
            rep.add('member-not-of-the-document', 'the saved manifest lists %r, which is no part, picture or preview of the document that was built' % p)
        if len(p1.mdict[p]) > 1:
            rep.add('first-package-duplicate-member', 'the saved manifest lists %r %d times' % (p, len(p1.mdict[p])))


def run_recipe(V, rec, tmpdir):
    """-> (report, pkg1 bytes, loaded doc, snapshot before)"""
    rep = Rep()
    if rec.get('history'):
        play_history(V, [json.loads(json.dumps(st)) for st in rec['history']], tmpdir)
    big = (rec.get('extreme') or {}).get('big')
    if big and big.get('at'):
        # what stands in front of the text of a part depends on the history of the process: the paddings are chosen so that
        # the multi-byte characters lie at the recorded byte offsets mod 12 (a probe document is built and saved to see)
        for _ in range(4):
            pp = L.read_pkg(save_bytes(realise(V, rec, tmpdir)))
            off = [L.first_wide_offset(pp.data[u'content.xml']), L.first_wide_offset(pp.data[u'styles.xml'])]
            if all((o - a) % 12 == 0 for o, a in zip(off, big['at'])):
                break
            big['pad'] = [(q + a - o) % 12 for q, a, o in zip(big['pad'], big['at'], off)]
    d = realise(V, rec, tmpdir)
    s1 = snapshot(d)
    raw1 = save_bytes(d)
    p1 = L.read_pkg(raw1)
    if big:
        big['at'] = [L.first_wide_offset(p1.data[u'content.xml']), L.first_wide_offset(p1.data[u'styles.xml'])]
        rep.straddled = dict((n, L.straddled_offsets(p1.data[n])) for n in sorted(p1.data) if n.split(u'/')[-1] in (u'content.xml', u'styles.xml'))
    generator_check(rep, p1)
    members_of_the_document(rep, s1, p1)
    d2, printed = load_bytes(raw1)
    if printed.strip():
        rep.add('load-prints', printed[:200])
    s2 = snapshot(d2)
    def allsecs(doc, acc):
        acc[doc.folder[1:] + u'/' if doc.folder else u''] = L.loaded_sections(doc)
        for o in doc.childobjects:
            allsecs(o, acc)
        return acc
    d2._loaded_sections = allsecs(d2, {})
    compare_docs(rep, s1, s2, p1, u'')
    raw2 = save_bytes(d2)
    compare_generations(rep, p1, L.read_pkg(raw2), s1)
    # saving is repeatable: the k-th save of the built document and of the loaded document are again packages equal to
    # the first at the infoset level
    for k in range(rec.get('resave') or 0):
        for what, doc in (('built', d), ('loaded', d2)):
            sub = Rep()
            compare_generations(sub, p1, L.read_pkg(save_bytes(doc)), s1)
            for sig, det in sub.items:
                rep.add(sig, 'save %d of the %s document: %s' % (k + 2, what, det))
    return rep, raw1, d2, s1


def run(chk, replay=None):
    chk.rule = ('schema-directed random documents of the 7 document classes built through the element factories with grammar '
                'checks ON (children/attributes/text from odf.grammar, values = schema datatype samples the bound converter '
                'returns unchanged), with meta, settings, common/automatic/master styles, fonts, pictures (5 ways of adding), '
                'thumbnail and embedded sub-documents (2 levels; nests 3-5 deep assembled inside-out, outside-in and from loaded documents); some after a history '
                '(packages with foreign members loaded and saved earlier in the process); built and loaded documents saved repeatedly; non-trivial = at least 8 elements in the body')
    # the deep documents (130-400 nested elements) need head room for the HARNESS' own recursive walkers (walk, norm,
    # diff, wire form: several frames per level); the library's own deepest recursion is the style-reference scan
    # (_stylerefs_of / _parseoneelement: 2 frames per level) and toXml (1 per level), i.e. with Python's default limit of
    # 1000 frames documents nested deeper than ~450 levels cannot be saved at all: 400 is the bound used here
    sys.setrecursionlimit(max(sys.getrecursionlimit(), 20000))
    V = Vocabulary()
    tmpdir = tempfile.mkdtemp(prefix='c04-')
    try:
        if replay is None:
            chk.assumptions += [
                "expat/xml.sax deliver the event stream of the infoset the reference parser computes for the written part, character data cut at arbitrary places (the theorems hold for every chunking); the zip container and the manifest dispatch (pictures, sub-documents) are the subject of C03/C16 and of this check's oracle, not of its theorems",
                "attribute converters are a parameter of the load model (generated values are fixed points of their converter; the harness applies the real converter to the recorded events); which automatic styles save() writes is a parameter of the save model (C10)",
            ]
            chk.notes.append('oracle: load(save(d)) vs d through qname/attributes/childNodes/data; second-generation package vs first with zipfile + expat; '
                             'signatures are predicates on the built document / the first package')
            def deep():
                G2 = Gen(V, chk.rng, 'thorough')
                tmp2 = tempfile.mkdtemp(prefix='c04-deep-')      # run() has removed its own scratch directory by now
                for k in range(1500):
                    rec = json.loads(json.dumps(G2.document()))
                    try:
                        rep, raw1, d2, s1 = run_recipe(V, rec, tmp2)
                    except Exception as e:
                        chk.fail('raises:%s' % type(e).__name__, rec, repr(e)); continue
                    for sig, det in rep.items:
                        chk.fail(sig, rec, det)
                    if chk.failures:
                        break
                shutil.rmtree(tmp2, ignore_errors=True)
            chk.deep_search = deep
            chk.prove(modules=['OdfModel.Props.C04'], drivers=['drv_load'])
            drv = chk.driver('drv_load')
        if replay is not None:
            try:
                rep, raw1, d2, s1 = run_recipe(V, replay['input'], tmpdir)
            except Exception as e:
                if not (replay.get('signature') or '').startswith('raises:'):
                    raise
                print('replay: raises:%s :: %s' % (type(e).__name__, repr(e)[:300]))
                return 1
            known = set(k['sig'] for k in chk.known)
            bad = [x for x in rep.items if (x[0] == replay['signature'] if replay.get('signature') else x[0] not in known)]
            for sig, det in bad[:10]:
                print('replay: %s :: %s' % (sig, det[:300]))
            return 1 if bad else 0
        G = Gen(V, chk.rng, chk.tier)
        n = 200 if chk.tier == 'quick' else 3000      # (250 until round 6; the histories and nests added then cost about as much as 50 documents)
        # documents n .. : picture names that a normalisation would change (n: the fixed list, n+1: drawn), then three big
        # parts of multi-byte characters, one byte apart (they come last: the documents 0..n-1 are the ones of the earlier rounds)
        npic = 2 if chk.tier == 'quick' else 12
        nbig = 3 if chk.tier == 'quick' else 9
        big_base = {}; big_seen = {}
        for i in range(n + npic + nbig):
            # document 3 (and every 100th) embeds 10-12 sub-documents: folder numbers with two digits
            if i >= n:
                if i < n + npic:
                    rec = G.pictures_doc(fixed=(i == n), cls=['Text', 'Drawing'][i - n] if i < n + 2 else None)
                    chk.count('picture_names_docs'); chk.count('named_pictures', len(rec['pictures']) + len(rec['objects'][0]['pictures']))
                else:
                    j = i - n - npic
                    rec = G.big_part(j % 3, objects=(j >= 3))
                    b = rec['extreme']['big']
                    b['orders'] = [[0, 1], [1, 2], [2, 0]][j // 3]
                    if j % 3 and big_base.get(j // 3):
                        b['at'] = [x + j % 3 for x in big_base[j // 3]]
                    chk.count('big_part_docs')
                rec = json.loads(json.dumps(rec))
                try:
                    rep, raw1, d2, s1 = run_recipe(V, rec, tmpdir)
                except Exception as e:
                    import traceback
                    chk.fail('raises:%s' % type(e).__name__, rec, traceback.format_exc()[-600:])
                    if i >= n + npic and j % 3 == 0:
                        big_base[j // 3] = rec['extreme']['big'].get('at')
                    continue
                if i >= n + npic:
                    if j % 3 == 0:
                        big_base[j // 3] = rec['extreme']['big']['at']
                    for part, ks in sorted(getattr(rep, 'straddled', {}).items()):
                        for k in ks:
                            big_seen.setdefault(part, set()).add(k); chk.count('straddle:%s:2^%d' % (part, k))
                p1 = L.read_pkg(raw1)
                key = {'doc': i, 'class': rec['class']}
                if i < n + npic or j == 0:
                    for folder, real in sorted(d2._loaded_sections.items()):
                        L.correspond_document(chk, drv, p1, folder, real, dict(key, folder=folder), rng=chk.rng if i % 2 else None)
                chk.case(i, nontrivial=True, sample={'class': rec['class'], 'pictures': [x[1] for x in rec['pictures']][:6], 'findings': sorted(set(s for s, _ in rep.items))})
                seen = set()
                for sig, det in rep.items:
                    if sig not in seen:
                        seen.add(sig)
                        chk.fail(sig, rec, det)
                continue
            extreme = None
            if i in (5, 6, 7, 8, 9) or i % 97 == 96:
                # corners: DEEP (130-400 nested elements), WIDE (thousands of siblings), one LONG text node (> 64 KiB);
                # an automatic style is referenced only at the far end
                k = i if i < 10 else chk.rng.randint(5, 9)
                extreme = {'style': u'DeepOnly%d' % i, 'kind': ['span', 'list', 'g', 'span', 'span'][k - 5],
                           'depth': chk.rng.randint(130, 400) if k in (5, 6, 7, 9) else 0,
                           'wide': chk.rng.randint(1500, 3000) if k == 8 else 0,
                           'long': chk.rng.randint(70000, 150000) if k in (8, 5) else 0}
                chk.count('extreme:' + ('deep-' + extreme['kind'] if extreme['depth'] else 'wide+long'))
            nest = 0
            if not extreme and (i in (15, 16) or i % 100 == 25 or (chk.tier != 'quick' and i % 50 == 5)):
                # objects nested 3-5 deep, attached inside-out / outside-in / as loaded documents
                nest = chk.rng.choice([3, 3, 4, 5])
                rec = G.nest(nest)
                chk.count('nest:%d' % nest)
            else:
                rec = G.document(cls=(('Drawing' if i == 9 else 'Text') if extreme else
                                      DOC_CLASSES[i % len(DOC_CLASSES)] if i < 2 * len(DOC_CLASSES) else None),
                                 many_objects=chk.rng.randint(10, 12) if i % 100 == 3 else 0)
            if extreme:
                rec['extreme'] = extreme
            if not extreme and (i == 18 or i % 100 == 30 or (chk.tier != 'quick' and i % 50 == 10)):
                # the process has a past: packages with foreign members were loaded and saved before this document is built
                rec['history'] = G.history()
                if not rec['objects']:
                    rec['objects'] = [G.document(2, 'Spreadsheet')]
                chk.count('with_history')
            if rec.get('history') or nest or i % 25 == 2:
                rec['resave'] = chk.rng.choice([1, 2])
                chk.count('resaved')
            rec = json.loads(json.dumps(rec))
            try:
                rep, raw1, d2, s1 = run_recipe(V, rec, tmpdir)
            except Exception as e:
                import traceback
                chk.fail('raises:%s' % type(e).__name__, rec, traceback.format_exc()[-600:])
                continue
            # correspondence: the recorded SAX streams of the saved parts through the model vs the loaded document
            p1 = L.read_pkg(raw1)
            key = {'doc': i, 'class': rec['class']}
            if not rec.get('extreme'):      # (xmlcorr's canon / has_discouraged recurse through builtins: not for 400 levels)
                correspond_save(chk, drv, s1, p1, key)
            def corr_objects(s, folder):
                # every sub-document of the nest, at every depth (folders by position, as compare_docs reads them)
                for k, sub in enumerate(s['objects']):
                    f = u'%sObject %d/' % (folder, k + 1)
                    if (f + u'content.xml') in p1.data:
                        correspond_save(chk, drv, sub, p1, dict(key, object=f), f)
                        corr_objects(sub, f)
            corr_objects(s1, u'')
            for folder, real in sorted(d2._loaded_sections.items()):
                L.correspond_document(chk, drv, p1, folder, real, dict(key, folder=folder), rng=chk.rng if i % 2 else None)
            nel = len(list(L.elems(forest_el('b', s1['body']))))
            chk.count('class:' + rec['class'])
            if has_nested_section(s1['body']) or any(has_nested_section(o['body']) for o in s1['objects']):
                chk.count('docs_with_inline_office_document')
            chk.count('objects', len(rec['objects'])); chk.count('pictures', len(rec['pictures']))
            chk.case(i, nontrivial=nel >= 8, sample={'class': rec['class'], 'body_elements': nel, 'findings': sorted(set(s for s, _ in rep.items))})
            seen = set()
            for sig, det in rep.items:
                if sig not in seen:
                    seen.add(sig)
                    chk.fail(sig, rec, det)
        for part in (u'content.xml', u'styles.xml'):
            for k in L.STRADDLE_K:
                if k not in big_seen.get(part, ()):
                    chk.count('straddle-not-reached:%s:2^%d' % (part, k))      # generator coverage, visible in the evidence
    finally:
        shutil.rmtree(tmpdir, ignore_errors=True)
    return chk.finish()

# -*- coding: utf-8 -*-
"""C13 - reading a package never expands entities or touches external resources.

translate:      harness/translate_entity.py -> lean/OdfModel/Generated/ParseSites.lean
                (AST inventory of every XML-parser construction in odf/*.py and the shipped scripts,
                import origin of the callee, enclosing function, members flowing in, entry-point reach)
proof:          lean/OdfModel/Props/C13.lean about lean/OdfModel/Entity.lean
                (all_defused, load_parametric, readOrder_sound, moin_guarded, refuses_explicit_partial,
                refuses_external_subset_partial, C13_full_partial, ...)
                lean/OdfModel/Props/C13Enc.lean about lean/OdfModel/EntityEnc.lean (the member's character encoding:
                readE_utf8, refuses_any_encoding_partial, explicit_utf8_partial, explicit_bytes_partial,
                explicit_undecodable_partial)
correspondence: (a) which members an entry point parses: model `order` (drv_entity) vs the real code probed
                with a NOT WELL-FORMED member (a parse is the only way to notice);
                (b) outcome class of every cell of the fault matrix: model `read` vs real call
oracle:         the FULL FAULT MATRIX on the real code (both tiers, complete): XML member x injection kind x
                entry point; a parsed entity-declaring member must make the call raise a defusedxml exception
                (EntitiesForbidden / DTDForbidden / ExternalReferenceForbidden, possibly wrapped); no result may
                contain the expansion token or the canary token; the canary file / URL must never be opened
                (sys audit hook + patched urllib.request.urlopen / socket connect).
                THE SAME FOR EVERY CHARACTER ENCODING OF THE MEMBER (run_encodings: UTF-8 with non-ASCII text / with byte order
                mark, UTF-16 LE / BE with byte order mark - with, without encoding declaration, without XML declaration -,
                ISO-8859-1 and windows-1252 with a non-ASCII byte): the call must fail with a defusedxml refusal or a
                UnicodeError; which of the two is the correspondence with `readE` (drv_entity `readenc`).
                AND FOR EVERY SHAPE OF THE PROLOG (run_prologs, harness/prologs.py: entity literals, comments and processing
                instructions of the prolog that hold `<name`, `"`, `'`, `>`, `]` wherever the XML grammar allows - the input class
                that exposed the defect repaired in /repo e859a9c: `__fixXmlPart` spliced its xmlns declarations into an entity
                literal, the parse error was only printed, load() returned) x entry point x member, embedded objects included.
                AND WITH A DOCTYPE OF A REAL (LEGACY) PRODUCER (run_legacy, prologs.LEGACY: PUBLIC / SYSTEM identifiers of OpenOffice.org 1.x,
                W3C, OASIS x internal subsets that declare entities x DOCTYPE name) x entry point x member.
                AND WITH A SECOND DEFECT IN THE PACKAGE (run_pairs: another part listed but missing from the zip / empty / truncated / not
                well-formed; every ordered pair of parts of the main document and of an embedded object; every entry point): the
                entity-declaring member must still be refused.  Model: lean/OdfModel/EntityDamage.lean (readD; drv_entity `readdmg`),
                theorems lean/OdfModel/Props/C13Pair.lean (pair_refuses_partial, pair_explicit_partial, refuses_with_missing_parts_partial).
proof (Prep):   lean/OdfModel/Props/C13Prep.lean: the hypothesis `Prep` of the refusal theorems instantiated with the model of
                `__fixXmlPart` (fix_keeps_prolog_at, fix_keeps_doctype_facts, fixed_text_refused, prepOfFix, C13_full_fix) through
                Props/C05.lean fix_prolog_untouched; the model is tied to the code by the `fixxml` correspondence of harness/c05.py
                and by PrepCheck below (strict on every prolog shape: the function must return the text unchanged).
"""
import io, os, re, sys, zipfile, tempfile, shutil, json, contextlib
from common import enc_str, dec_str, InfraError, REPO
import prologs

# --------------------------------------------------------------------------------------------------
# a small valid package, written by hand (no odfpy involved), with a text marker and an attribute marker
# in every XML member
# --------------------------------------------------------------------------------------------------
TXT = u'TXTMARK'
ATT = u'ATTRMARK'
NSDECL = (u' xmlns:office="urn:oasis:names:tc:opendocument:xmlns:office:1.0"'
          u' xmlns:text="urn:oasis:names:tc:opendocument:xmlns:text:1.0"'
          u' xmlns:meta="urn:oasis:names:tc:opendocument:xmlns:meta:1.0"'
          u' xmlns:style="urn:oasis:names:tc:opendocument:xmlns:style:1.0"'
          u' xmlns:dc="http://purl.org/dc/elements/1.1/"'
          u' xmlns:config="urn:oasis:names:tc:opendocument:xmlns:config:1.0"'
          u' xmlns:table="urn:oasis:names:tc:opendocument:xmlns:table:1.0"'
          u' xmlns:svg="urn:oasis:names:tc:opendocument:xmlns:svg-compatible:1.0"'
          u' xmlns:fo="urn:oasis:names:tc:opendocument:xmlns:xsl-fo-compatible:1.0"'
          u' xmlns:draw="urn:oasis:names:tc:opendocument:xmlns:drawing:1.0"'
          u' xmlns:form="urn:oasis:names:tc:opendocument:xmlns:form:1.0"'
          u' office:version="1.2"')
DECL = u"<?xml version='1.0' encoding='UTF-8'?>\n"


def t_content(kind):
    if kind == 'text':
        body = (u'<office:text><text:user-field-decls><text:user-field-decl office:value-type="string" '
                u'office:string-value="%s" text:name="f1"/></text:user-field-decls>'
                u'<text:p text:style-name="%s">hello %s</text:p></office:text>' % (ATT, ATT, TXT))
    else:
        body = (u'<office:spreadsheet><table:table table:name="%s"><table:table-column/><table:table-row>'
                u'<table:table-cell><text:p>%s</text:p></table:table-cell></table:table-row></table:table>'
                u'</office:spreadsheet>' % (ATT, TXT))
    return (DECL + u'<office:document-content' + NSDECL + u'><office:automatic-styles/><office:body>' + body +
            u'</office:body></office:document-content>')


def t_styles():
    return (DECL + u'<office:document-styles' + NSDECL + u'><office:styles><style:style style:name="' + ATT +
            u'" style:family="paragraph"/></office:styles><office:automatic-styles><style:page-layout style:name="pl"/>'
            u'</office:automatic-styles><office:master-styles><style:master-page style:name="Standard" '
            u'style:page-layout-name="pl"><style:header><text:p>' + TXT + u'</text:p></style:header></style:master-page>'
            u'</office:master-styles></office:document-styles>')


def t_meta():
    return (DECL + u'<office:document-meta' + NSDECL + u'><office:meta><dc:title>' + TXT + u'</dc:title>'
            u'<meta:user-defined meta:name="' + ATT + u'">v</meta:user-defined></office:meta></office:document-meta>')


def t_settings():
    return (DECL + u'<office:document-settings' + NSDECL + u'><office:settings><config:config-item-set config:name="' + ATT +
            u'"><config:config-item config:name="x" config:type="string">' + TXT + u'</config:config-item>'
            u'</config:config-item-set></office:settings></office:document-settings>')


MANIFEST_ENTRIES = [
    (u'/', u'application/vnd.oasis.opendocument.text'),
    (u'styles.xml', u'text/xml'), (u'content.xml', u'text/xml'), (u'settings.xml', u'text/xml'), (u'meta.xml', u'text/xml'),
    (u'Object 1/', u'application/vnd.oasis.opendocument.spreadsheet'),
    (u'Object 1/styles.xml', u'text/xml'), (u'Object 1/content.xml', u'text/xml'),
    (u'Object 1/settings.xml', u'text/xml'), (u'Object 1/meta.xml', u'text/xml'),
    (u'Object 10/', u'application/vnd.oasis.opendocument.spreadsheet'), (u'Object 10/content.xml', u'text/xml'),
    (u'Object 100/', u'application/vnd.oasis.opendocument.spreadsheet'), (u'Object 100/content.xml', u'text/xml'),
    (u'Object 1/Object 2/', u'application/vnd.oasis.opendocument.spreadsheet'), (u'Object 1/Object 2/content.xml', u'text/xml'),
    (u'Object 1/Object 2/Object 33/', u'application/vnd.oasis.opendocument.spreadsheet'),
    (u'Object 1/Object 2/Object 33/content.xml', u'text/xml'),
    (u'Object 4/', u'application/vnd.oasis.opendocument.spreadsheet'),      # its content.xml is in the zip but NOT listed
    (u'Object 5/Object 6/', u'application/vnd.oasis.opendocument.spreadsheet'),   # parent folder "Object 5/" NOT listed
    (u'Object 5/Object 6/content.xml', u'text/xml'),
    (u'extra/data.txt', u'text/plain'),
]


def t_manifest():
    out = [DECL + u'<manifest:manifest xmlns:manifest="urn:oasis:names:tc:opendocument:xmlns:manifest:1.0" '
           u'manifest:version="1.2">' + TXT]
    for i, (p, mt) in enumerate(MANIFEST_ENTRIES):
        out.append(u'<manifest:file-entry manifest:full-path="%s" manifest:media-type="%s"/>' % (p, mt))
    out.append(u'<manifest:file-entry manifest:full-path="extra/%s" manifest:media-type="text/plain"/>' % ATT)
    out.append(u'</manifest:manifest>')
    return u''.join(out)


MANIFEST = u'META-INF/manifest.xml'


def template():
    """ordered list of (zip member name, text or bytes)"""
    return [
        (u'mimetype', b'application/vnd.oasis.opendocument.text'),
        (u'content.xml', t_content('text')), (u'styles.xml', t_styles()), (u'meta.xml', t_meta()),
        (u'settings.xml', t_settings()),
        (u'Object 1/content.xml', t_content('sheet')), (u'Object 1/styles.xml', t_styles()),
        (u'Object 1/meta.xml', t_meta()), (u'Object 1/settings.xml', t_settings()),
        (u'Object 10/content.xml', t_content('sheet')),
        (u'Object 100/content.xml', t_content('sheet')),            # long folder name: a sub-document since 0372084
        (u'Object 1/Object 2/content.xml', t_content('sheet')),     # nested object: a sub-document since 0372084
        (u'Object 1/Object 2/Object 33/content.xml', t_content('sheet')),   # depth 3
        (u'Object 5/Object 6/content.xml', t_content('sheet')),     # listed, but the chain is broken ("Object 5/" not listed)
        (u'Object 4/content.xml', t_content('sheet')),              # directory listed, member not listed
        (u'Object 3/content.xml', t_content('sheet')),              # neither listed
        (u'extra/data.txt', b'plain data'), (u'extra/' + ATT, b'x'),
        (MANIFEST, t_manifest()),
    ]


XML_MEMBERS = [n for n, _ in template() if n.endswith(u'.xml')]


def member_class(name):
    """(part, where) of an XML member name"""
    if name == MANIFEST:
        return 'manifest', 'top'
    obj, _, leaf = name.rpartition(u'/')
    part = leaf[:-4]
    if obj == u'':
        return part, 'top'
    if obj in (u'Object 1', u'Object 10'):
        return part, 'object'
    return part, {u'Object 100': 'object-longname', u'Object 1/Object 2': 'object-nested',
                  u'Object 1/Object 2/Object 33': 'object-nested',
                  u'Object 5/Object 6': 'object-parent-unlisted',
                  u'Object 4': 'object-member-unlisted', u'Object 3': 'object-unlisted'}.get(obj, 'object-nested')


def build(members):
    buf = io.BytesIO()
    z = zipfile.ZipFile(buf, 'w', zipfile.ZIP_DEFLATED)
    for name, data in members:
        if not isinstance(data, bytes):
            data = data.encode('utf-8')
        z.writestr(zipfile.ZipInfo(name, (2024, 2, 29, 12, 0, 0)), data,
                   zipfile.ZIP_STORED if name == u'mimetype' else zipfile.ZIP_DEFLATED)
    z.close()
    return buf.getvalue()


# --------------------------------------------------------------------------------------------------
# injections
# --------------------------------------------------------------------------------------------------
class Tokens(object):
    def __init__(self, rng, tmpdir):
        h = '%016x' % rng.getrandbits(64)
        self.expanded = u'XPND' + h                 # appears only AFTER expansion (declared with a char ref inside)
        self.declared = u'XP&#78;D' + h
        self.canary = u'CANARY' + '%016x' % rng.getrandbits(64)      # only inside the canary files
        self.urltok = u'urltok' + '%016x' % rng.getrandbits(64)      # only inside the http URLs
        self.dir = os.path.join(tmpdir, 'canary')                   # nothing but the canary files lives here
        self.docdir = os.path.join(tmpdir, 'docs')
        os.mkdir(self.dir); os.mkdir(self.docdir)
        self.canary_path = os.path.join(self.dir, 'canary.txt')
        self.dtd_path = os.path.join(self.dir, 'canary.dtd')
        with open(self.canary_path, 'w') as f:
            f.write(self.canary)
        with open(self.dtd_path, 'w') as f:
            f.write('<!ENTITY e "%s">' % self.canary)
        self.file_url = u'file://' + self.canary_path
        self.dtd_url = u'file://' + self.dtd_path
        self.http_url = u'http://127.0.0.1:9/' + self.urltok + u'.txt'
        self.http_dtd = u'http://127.0.0.1:9/' + self.urltok + u'.dtd'


KINDS = ['ent-text', 'ent-attr', 'ent-unused', 'nested', 'quadratic',
         'ext-general-file', 'ext-general-http', 'ext-general-attr-file',
         'ext-param-file', 'ext-param-http', 'ext-dtd-file', 'ext-dtd-http']
CONTROLS = ['clean', 'doctype-only']
# injection kind of the property text (signature class) and what the DOCTYPE does, in model terms (declares, external subset)
KIND_CLASS = {'ent-text': 'ent-text', 'ent-attr': 'ent-attr', 'ent-unused': 'ent-unused', 'nested': 'nested',
              'quadratic': 'quadratic', 'ext-general-file': 'ext-general', 'ext-general-http': 'ext-general',
              'ext-general-attr-file': 'ext-general', 'ext-param-file': 'ext-param', 'ext-param-http': 'ext-param',
              'ext-dtd-file': 'ext-dtd', 'ext-dtd-http': 'ext-dtd'}
KIND_FLAGS = {k: ((0, 1) if k.startswith('ext-dtd') else (1, 0)) for k in KIND_CLASS}


def injection(kind, tok):
    """-> (doctype text, replacement of the text marker, replacement of the attribute marker)"""
    e = tok.declared
    if kind == 'clean':
        return u'', TXT, ATT
    if kind == 'doctype-only':
        return u'<!DOCTYPE x>', TXT, ATT
    if kind == 'ent-text':
        return u'<!DOCTYPE x [<!ENTITY e "%s">]>' % e, u'&e;', ATT
    if kind == 'ent-attr':
        return u'<!DOCTYPE x [<!ENTITY e "%s">]>' % e, TXT, u'&e;'
    if kind == 'ent-unused':
        return u'<!DOCTYPE x [<!ENTITY e "%s">]>' % e, TXT, ATT
    if kind == 'nested':
        return (u'<!DOCTYPE x [<!ENTITY a "%s"><!ENTITY b "&a;&a;&a;&a;"><!ENTITY c "&b;&b;&b;&b;">'
                u'<!ENTITY d "&c;&c;&c;&c;">]>' % e, u'&d;', ATT)
    if kind == 'quadratic':
        return u'<!DOCTYPE x [<!ENTITY q "%s%s">]>' % (e, u'q' * 2000), u'&q;' * 200, ATT
    if kind == 'ext-general-file':
        return u'<!DOCTYPE x [<!ENTITY e SYSTEM "%s">]>' % tok.file_url, u'&e;', ATT
    if kind == 'ext-general-http':
        return u'<!DOCTYPE x [<!ENTITY e SYSTEM "%s">]>' % tok.http_url, u'&e;', ATT
    if kind == 'ext-general-attr-file':     # not well-formed XML anyway (external entity in an attribute value)
        return u'<!DOCTYPE x [<!ENTITY e SYSTEM "%s">]>' % tok.file_url, TXT, u'&e;'
    if kind == 'ext-param-file':
        return u'<!DOCTYPE x [<!ENTITY %% p SYSTEM "%s"> %%p;]>' % tok.dtd_url, u'&e;', ATT
    if kind == 'ext-param-http':
        return u'<!DOCTYPE x [<!ENTITY %% p SYSTEM "%s"> %%p;]>' % tok.http_dtd, u'&e;', ATT
    if kind == 'ext-dtd-file':
        return u'<!DOCTYPE x SYSTEM "%s">' % tok.dtd_url, u'&e;', ATT
    if kind == 'ext-dtd-http':
        return u'<!DOCTYPE x SYSTEM "%s">' % tok.http_dtd, u'&e;', ATT
    raise ValueError(kind)


# prolog layouts: where the DOCTYPE stands relative to the XML declaration, to other prolog items and to line ends.
# What a pre-processing step between the zip member and the parser (e.g. __fixXmlPart) could trip over.
LAYOUTS = ['default', 'oneline', 'pi-after', 'comment-after', 'after-comment', 'bom', 'crlf', 'qgt-in-subset', 'qgt-in-attr']


def inject(text, kind, tok, layout='default'):
    dt, tr, ar = injection(kind, tok)
    assert text.startswith(DECL)
    decl = DECL.rstrip(u'\n')
    body = text[len(DECL):].replace(TXT, tr).replace(ATT, ar)
    if layout == 'qgt-in-attr':
        assert u'version="1.2"' in body
        body = body.replace(u'version="1.2"', u'version="1.2?>"', 1)       # `?>` inside an attribute value of the root element
    if layout == 'default':
        return decl + u'\n' + dt + body
    if layout in ('oneline', 'qgt-in-attr'):
        return decl + dt + body
    if layout == 'pi-after':
        return decl + dt + u'<?layout keep="yes"?>' + body
    if layout == 'comment-after':
        return decl + dt + u'<!-- c ?> -->' + body
    if layout == 'after-comment':
        return decl + u'<!-- c ?> <x -->' + dt + body
    if layout == 'bom':
        return u'\ufeff' + decl + u'\n' + dt + body
    if layout == 'crlf':
        return decl + u'\r\n' + dt + u'\r\n' + body
    if layout == 'qgt-in-subset':
        if u'[' in dt:
            dt = dt.replace(u'[', u'[<?p q?>', 1)
        elif u'">' in dt:
            dt = dt.replace(u'">', u'?q=?>">', 1)          # `?>` inside the system literal
        return decl + dt + u'<?layout keep="yes"?>' + body
    raise ValueError(layout)


def package(target, kind, tok, malformed=False, layout='default'):
    mem = []
    for name, data in template():
        if name == target:
            data = (DECL + u'<office:broken <<< ' + data[len(DECL):]) if malformed else inject(data, kind, tok, layout)
        mem.append((name, data))
    return mem


class PrepCheck(object):
    """the obligation `Prep` of the model on the real code: the text transformers the inventory found between the zip
    member and the parser (for __loadxmlparts: __fixXmlPart) must return everything before the root element character
    for character (and, the template declaring every prefix they look for, the whole text)"""
    def __init__(self, chk, inv):
        import odf.opendocument as od
        self.chk = chk
        self.fns = []
        self.seen = set()
        self.bad = 0
        for s_ in inv['sites']:
            if s_['library'] and s_['prep_names'] and s_['file'] == 'odf/opendocument.py':
                for n in s_['prep_names']:
                    f = od.__dict__.get(n)
                    if callable(f):
                        self.fns.append((n, f))
                    else:
                        chk.corr_diff({'transformer': n}, 'not found in odf.opendocument', 'a module-level function',
                                      'text pre-processing named by the inventory cannot be exercised')

    def check(self, case, member, text, strict=False):
        """strict: the text declares every prefix the transformer looks for in its root start tag: it must come back unchanged"""
        if member == MANIFEST or not self.fns:
            return
        key = hash(text)
        if key in self.seen:
            return
        self.seen.add(key)
        out = text
        try:
            for n, f in self.fns:
                out = f(out)
        except Exception as e:      # noqa
            out = u'raised %r' % (e,)
        self.chk.corr()
        self.chk.count('prep-text')
        # (1) nothing is deleted or rewritten: the input is a subsequence of the output (insertions only);
        # (2) every `<!DOCTYPE ... >` / `<!ENTITY ... >` declaration of the input stands in the output, character for
        #     character, as often as before;  (3) with a well-behaved prolog the whole text is unchanged
        it = iter(out)
        insert_only = all(ch in it for ch in text)
        root = text.index(u'<office:document-')
        decls = [d for d in re.findall(u'<!DOCTYPE[^\\[>]*(?:\\[.*?\\]\\s*)?>|<!ENTITY[^>]*>', text[:root], re.S)]
        kept = all(out.count(d) == text.count(d) for d in decls)
        plain = (u'<x' not in text[:root])
        if not insert_only or not kept or ((plain or strict) and out != text):
            self.bad += 1
            i = next((j for j in range(min(len(out), len(text))) if out[j] != text[j]), min(len(out), len(text)))
            self.chk.corr_diff(case, out[max(0, i - 40):i + 80], text[max(0, i - 40):i + 80],
                               'text pre-processing (%s) must hand the member on with its prolog (DOCTYPE) unchanged; first '
                               'difference at character %d, prolog is %d characters' % ('+'.join(n for n, _ in self.fns), i, root))


# --------------------------------------------------------------------------------------------------
# observation of the real code
# --------------------------------------------------------------------------------------------------
class Watch(object):
    """records every attempt to open the canary file / URL (sys audit hook; urlopen and socket connect are
    additionally replaced so nothing leaves the process)"""
    installed = None

    def __init__(self):
        self.needles = []
        self.hits = []

    def arm(self, tok):
        self.needles = [tok.dir, tok.urltok, u'127.0.0.1']
        self.hits = []

    def note(self, what, arg):
        s = repr(arg)
        for n in self.needles:
            if n and n in s:
                self.hits.append('%s %s' % (what, s[:200]))
                return

    @classmethod
    def install(cls):
        if cls.installed is not None:
            return cls.installed
        w = cls()
        cls.installed = w

        def hook(event, args):
            if event in ('open', 'urllib.Request', 'socket.connect', 'socket.getaddrinfo', 'os.listdir', 'os.scandir'):
                if not w.needles:
                    return
                if getattr(w, 'own', False):
                    return
                w.note(event, args)
        sys.addaudithook(hook)
        import urllib.request, socket
        orig_urlopen = urllib.request.urlopen

        def urlopen(url, *a, **k):
            w.note('urlopen', getattr(url, 'full_url', url))
            raise IOError('C13 harness: network access refused: %r' % (url,))
        urllib.request.urlopen = urlopen
        return w


def reachable_strings(obj, limit=400000):
    """every str / bytes reachable from obj through containers, __dict__ and __slots__"""
    seen = set()
    stack = [obj]
    out = []
    n = 0
    while stack and n < limit:
        o = stack.pop()
        n += 1
        if isinstance(o, str):
            out.append(o); continue
        if isinstance(o, (bytes, bytearray)):
            out.append(bytes(o).decode('utf-8', 'replace')); continue
        if o is None or isinstance(o, (int, float, bool, type)) or id(o) in seen:
            continue
        seen.add(id(o))
        if isinstance(o, dict):
            stack.extend(o.keys()); stack.extend(o.values()); continue
        if isinstance(o, (list, tuple, set, frozenset)):
            stack.extend(o); continue
        if isinstance(o, io.BytesIO):
            out.append(o.getvalue().decode('utf-8', 'replace')); continue
        if isinstance(o, io.StringIO):
            out.append(o.getvalue()); continue
        mod = getattr(type(o), '__module__', '') or ''
        if callable(o) and not hasattr(o, '__dict__'):
            continue
        d = getattr(o, '__dict__', None)
        if isinstance(d, dict):
            stack.extend(d.values())
        for klass in type(o).__mro__:
            for s in getattr(klass, '__slots__', ()) or ():
                if isinstance(s, str) and hasattr(o, s):
                    try:
                        stack.append(getattr(o, s))
                    except Exception:
                        pass
        if mod.startswith('zipfile') or mod.startswith('_io'):
            continue
    return out


def defused_in_chain(e):
    """the defusedxml exception class name if e is, or wraps, a defusedxml refusal"""
    from defusedxml.common import DefusedXmlException
    seen = set()
    while e is not None and id(e) not in seen:
        seen.add(id(e))
        if isinstance(e, DefusedXmlException):
            return type(e).__name__
        for a in getattr(e, 'args', ()):
            if isinstance(a, DefusedXmlException):
                return type(a).__name__
        e = e.__cause__ or e.__context__
    return None


def unicode_in_chain(e):
    """the exception class name if e is, or wraps, a UnicodeError (the member's bytes were refused as undecodable)"""
    seen = set()
    while e is not None and id(e) not in seen:
        seen.add(id(e))
        if isinstance(e, UnicodeError):
            return type(e).__name__
        for a in getattr(e, 'args', ()):
            if isinstance(a, UnicodeError):
                return type(a).__name__
        e = e.__cause__ or e.__context__
    return None


EPS = ['load', 'manifestlist', 'odfmanifest', 'UserFields.list_fields', 'UserFields.update',
       'ODF2XHTML.load', 'ODF2XHTML.odf2xhtml', 'ODF2MoinMoin']
# codes of lean/OdfModel/Entity.lean `EP` (and translate_entity.ENTRY_POINTS)
EP_CODE = {'load': 0, 'manifestlist': 1, 'odfmanifest': 2, 'UserFields.list_fields': 3, 'UserFields.update': 8,
           'ODF2XHTML.load': 10, 'ODF2XHTML.odf2xhtml': 11, 'ODF2MoinMoin': 12}


def call_ep(ep, raw, as_path=None):
    """run one reading entry point of the real library on the package bytes `raw`; returns the result object(s)"""
    from odf.opendocument import load
    from odf.odfmanifest import manifestlist, odfmanifest
    from odf.userfield import UserFields
    from odf.odf2xhtml import ODF2XHTML
    from odf.odf2moinmoin import ODF2MoinMoin
    src = as_path if as_path is not None else io.BytesIO(raw)
    if ep == 'load':
        d = load(src)
        parts = [d]
        for o in d.childobjects:
            parts.append(o)
        return parts, [d.contentxml(), d.stylesxml(), d.metaxml(), d.settingsxml()] + \
            [o.contentxml() for o in d.childobjects]
    if ep == 'manifestlist':
        return manifestlist(zipfile.ZipFile(io.BytesIO(raw)).read(MANIFEST))
    if ep == 'odfmanifest':
        return odfmanifest(src)
    if ep == 'UserFields.list_fields':
        u = UserFields(src)
        return u.list_fields(), u.list_fields_and_values(), u
    if ep == 'UserFields.update':
        dest = io.BytesIO()
        u = UserFields(src, dest)
        u.update({u'f1': u'new'})
        out = dest.getvalue()
        z = zipfile.ZipFile(io.BytesIO(out))
        return u, [z.read(n) for n in z.namelist()]
    if ep == 'ODF2XHTML.load':
        x = ODF2XHTML()
        x.load(src)
        return x, x.xhtml()
    if ep == 'ODF2XHTML.odf2xhtml':
        x = ODF2XHTML()
        return x.odf2xhtml(src), x
    if ep == 'ODF2MoinMoin':
        m = ODF2MoinMoin(src)
        return m.toString(), m
    raise ValueError(ep)


def observe(ep, raw, tok, watch, as_path=None):
    """-> dict(outcome, exc, defused, expanded, canary, touched, printed_sax_failure)"""
    watch.arm(tok)
    cap = io.StringIO()
    res = None
    exc = None
    with contextlib.redirect_stdout(cap), contextlib.redirect_stderr(cap):
        try:
            res = call_ep(ep, raw, as_path)
        except Exception as e:      # noqa  (SystemExit etc. are left alone)
            exc = e
    touched = list(watch.hits)
    watch.own = True
    try:
        strings = reachable_strings(res) if exc is None else [repr(exc), str(exc)]
    finally:
        watch.own = False
    watch.needles = []
    printed = cap.getvalue()
    # the library prints the raw member text when SAX fails: raw text holds the declaration, never the expansion
    hay = strings + [printed]
    r = {
        'outcome': 'returned' if exc is None else 'raised',
        'exc': None if exc is None else type(exc).__name__,
        'defused': None if exc is None else defused_in_chain(exc),
        'unicode': None if exc is None else unicode_in_chain(exc),
        'expanded': any(tok.expanded in s for s in hay),
        'canary': any(tok.canary in s for s in hay),
        'touched': touched,
        'sax_failed_printed': 'SAX FAILED' in printed,
    }
    return r


def cls(o):
    if o['outcome'] == 'raised':
        return 'forbidden' if o['defused'] else 'raised-other'
    if o['expanded'] or o['canary']:
        return 'expanded'
    return 'clean'


# --------------------------------------------------------------------------------------------------
# model side
# --------------------------------------------------------------------------------------------------
def model_pkg_args():
    files = [n for n, _ in template()]
    man = [p for p, _ in MANIFEST_ENTRIES] + [u'extra/' + ATT]
    return '%d %s %d %s' % (len(files), ' '.join(enc_str(f) for f in files), len(man), ' '.join(enc_str(m) for m in man))


def report(chk, sig, case, detail):
    """chk.fail, but at most 6 distinct new signatures become VIOLATION lines (all are counted)"""
    chk.count('failing-cell')
    new = set(f['sig'] for f in chk.failures)
    if sig not in new and len(new) >= 6 and not any(k['sig'] == sig for k in chk.known):
        chk.count('failing-cell.not-listed-separately')
        return
    chk.fail(sig, case, detail)


# ---------------------------------------------------------------------------------------------------------------
# what MUST be parsed (from the property text, independent of the code and of the model): a reader that takes the whole
# package in (load and everything built on it) has to hand content / styles / settings / meta of the main document and of
# every sub-document to the refusing parser.  A sub-document is a folder reached by a chain of `Object <n>/` folders that the
# manifest lists, each with an ODF document media type - WHATEVER kind of document (text ... formula, image, templates).
# Members outside that (folder not listed, unknown / empty media type, member not listed) may be carried opaquely.
# ---------------------------------------------------------------------------------------------------------------
ODF_KINDS = ['text', 'spreadsheet', 'presentation', 'graphics', 'chart', 'formula', 'image', 'text-master', 'text-web',
             'text-template', 'spreadsheet-template', 'presentation-template', 'graphics-template', 'chart-template',
             'formula-template', 'image-template']
ODF_MEDIA = [u'application/vnd.oasis.opendocument.' + k for k in ODF_KINDS]
OTHER_MEDIA = [(u'unknown', u'application/x-something-else'), (u'empty', u''), (u'missing-folder-entry', None)]
LOADLIKE = ('load', 'UserFields.list_fields', 'UserFields.update', 'ODF2XHTML.load', 'ODF2XHTML.odf2xhtml')


def required(ep, member, entries):
    """must entry point `ep` hand `member` to a (refusing) parser, given the manifest entries [(path, media type)]?"""
    if ep in ('manifestlist', 'odfmanifest'):
        return member == MANIFEST
    if ep == 'ODF2MoinMoin':
        return member in (u'content.xml', u'styles.xml')
    if member == MANIFEST:
        return True
    media = dict(entries)
    if member not in media:
        return False
    obj, _, leaf = member.rpartition(u'/')
    if leaf not in (u'content.xml', u'styles.xml', u'settings.xml', u'meta.xml'):
        return False
    if obj == u'':
        return True
    path = u''
    for seg in obj.split(u'/'):
        if not re.match(u'Object [0-9]+$', seg):
            return False
        path += seg + u'/'
        if media.get(path) not in ODF_MEDIA:
            return False
    return True


def object_package(tok, folder_entries, obj, leaf, kind, layout='default'):
    """the template plus one more object folder `obj` (four parts, all listed), `leaf` of it injected;
    folder_entries: manifest entries for the folders on the way [(path, media type)] (a media type None = no entry)"""
    parts = [(u'content.xml', t_content('sheet')), (u'styles.xml', t_styles()), (u'meta.xml', t_meta()),
             (u'settings.xml', t_settings())]
    already = set(p for p, _ in MANIFEST_ENTRIES)
    man = [(p_, mt) for p_, mt in folder_entries if mt is not None and p_ not in already]
    man += [(obj + l, u'text/xml') for l, _ in parts]
    mtext = t_manifest().replace(u'</manifest:manifest>', u''.join(
        u'<manifest:file-entry manifest:full-path="%s" manifest:media-type="%s"/>' % e for e in man) + u'</manifest:manifest>')
    mem = [(nm, d) for nm, d in template() if nm != MANIFEST]
    mem += [(obj + l, inject(t, kind, tok, layout) if l == leaf else t) for l, t in parts] + [(MANIFEST, mtext)]
    return mem, MANIFEST_ENTRIES + [(u'extra/' + ATT, u'text/plain')] + man


def media_cell(chk, drv, tok, watch, ep, media_name, media, leaf, k, report_to=True):
    obj = u'Object 7/'
    mem, entries = object_package(tok, [(obj, media)], obj, leaf, k)
    o = observe(ep, build(mem), tok, watch)
    c = cls(o)
    case = {'ep': ep, 'member': obj + leaf, 'kind': k, 'media': media_name}
    must = required(ep, obj + leaf, entries)
    if drv is not None:
        files = [nm for nm, _ in mem]
        mans = [p_ for p_, _ in entries]
        ans = drv.ask('read %d %s %d %d %d %s %d %s' % ((EP_CODE[ep], enc_str(obj + leaf)) + KIND_FLAGS[k] + (
            len(files), ' '.join(enc_str(f) for f in files), len(mans), ' '.join(enc_str(x) for x in mans))))
        chk.corr()
        got = c if c != 'forbidden' else 'forbidden:' + str(o['defused'])
        want = {'err forbidden-entities': 'forbidden:EntitiesForbidden', 'err forbidden-external': 'forbidden:ExternalReferenceForbidden',
                'ok clean': 'clean'}.get(ans.strip(), ans)
        if got != want:
            chk.corr_diff(case, got, ans, 'outcome of the cell (object folder of media type %r)' % (media,))
    chk.count('media-cell.' + ('odf' if media in ODF_MEDIA else media_name))
    chk.case((ep, obj + leaf, k, media_name), nontrivial=must)
    sig = '%s:%s@object(%s):%s' % (ep, leaf[:-4], media_name, KIND_CLASS[k])
    if o['expanded'] or o['canary']:
        report(chk, sig, case, 'the result contains the expanded entity text / the canary')
    elif o['touched']:
        report(chk, sig, case, 'the external resource named by the document was opened: %s' % o['touched'][:2])
    elif must and c != 'forbidden':
        report(chk, sig + ':silent', case, 'the member belongs to a sub-document (folder listed with media type %r), its DOCTYPE %s, and the '
               'call returned normally: the member was not refused (observed %s %s)' %
               (media, 'names an external DTD subset' if KIND_FLAGS[k] == (0, 1) else 'declares entities', c, o['exc'] or ''))
    return o


def run_media(chk, drv):
    """the dimension "what kind of object the folder holds": every ODF document media type, an unknown one, an empty one and a
    folder without manifest entry x the four parts x a slice of injection kinds x the readers built on load()"""
    watch = Watch.install()
    tmp = tempfile.mkdtemp(prefix='c13-')
    try:
        tok = Tokens(chk.rng, tmp)
        kinds = ['ent-unused', 'ent-text', 'ext-dtd-file', 'ext-param-file', 'nested', 'ext-general-file']
        allmedia = [(k_, u'application/vnd.oasis.opendocument.' + k_) for k_ in ODF_KINDS] + OTHER_MEDIA
        eps = list(LOADLIKE)
        i = 0
        for name, media in allmedia:
            # control: the clean package with such a folder is read normally
            mem, _ = object_package(tok, [(u'Object 7/', media)], u'Object 7/', u'content.xml', 'clean')
            for ep in ('load', 'ODF2XHTML.odf2xhtml'):
                o = observe(ep, build(mem), tok, watch)
                if cls(o) != 'clean':
                    chk.corr_diff({'ep': ep, 'media': name, 'kind': 'clean'}, cls(o) + ' ' + str(o['exc']), 'clean',
                                  'a clean package with an object folder of this media type must be read normally')
            for leaf in (u'content.xml', u'styles.xml', u'settings.xml', u'meta.xml'):
                for j in range(3 if chk.tier != 'thorough' else len(kinds)):
                    k = kinds[(i + j) % len(kinds)]
                    for ep in (eps if chk.tier == 'thorough' else [eps[i % len(eps)]]):
                        media_cell(chk, drv, tok, watch, ep, name, media, leaf, k)
                    i += 1
    finally:
        watch.needles = []
        shutil.rmtree(tmp, ignore_errors=True)


def run_paths(chk, drv, numbers):
    """the parametric claim for load ("every object path"): further sub-document folders - other numbers, long names,
    nested two and three deep - all four parts; every one of them is parsed, so its faulty member must be refused"""
    watch = Watch.install()
    tmp = tempfile.mkdtemp(prefix='c13-')
    try:
        tok = Tokens(chk.rng, tmp)
        for n in numbers:
            shape = n % 4
            big = 1000 + 37 * n if n % 5 == 0 else 200 + n
            chain_ = {0: [u'Object %d/' % big], 1: [u'Object 1/', u'Object %d/' % (n + 40)],
                      2: [u'Object 10/', u'Object %d/' % big, u'Object %d/' % n],
                      3: [u'Object %d/' % (n + 400), u'Object 0/']}[shape]
            obj = u''.join(chain_)
            parts = [(u'content.xml', t_content('sheet')), (u'styles.xml', t_styles()), (u'meta.xml', t_meta()),
                     (u'settings.xml', t_settings())]
            leaf, text = parts[(n // 4) % 4]
            k = KINDS[n % len(KINDS)]
            ep = ['load', 'UserFields.list_fields', 'ODF2XHTML.odf2xhtml'][n % 3]
            already = set(p for p, _ in MANIFEST_ENTRIES)
            man = []
            for i in range(1, len(chain_) + 1):
                folder = u''.join(chain_[:i])
                if folder not in already:
                    man.append((folder, u'application/vnd.oasis.opendocument.spreadsheet'))
            man += [(obj + l, u'text/xml') for l, _ in parts]
            mtext = t_manifest().replace(u'</manifest:manifest>', u''.join(
                u'<manifest:file-entry manifest:full-path="%s" manifest:media-type="%s"/>' % e for e in man) + u'</manifest:manifest>')
            mem = [(nm, d) for nm, d in template() if nm != MANIFEST]
            mem += [(obj + l, inject(t, k, tok) if l == leaf else t) for l, t in parts] + [(MANIFEST, mtext)]
            o = observe(ep, build(mem), tok, watch)
            c = cls(o)
            files = [nm for nm, _ in mem]
            mans = [p for p, _ in MANIFEST_ENTRIES] + [u'extra/' + ATT] + [p for p, _ in man]
            ans = drv.ask('read %d %s %d %d %d %s %d %s' % ((EP_CODE[ep], enc_str(obj + leaf)) + KIND_FLAGS[k] + (
                len(files), ' '.join(enc_str(f) for f in files), len(mans), ' '.join(enc_str(x) for x in mans))))
            chk.corr()
            chk.count('object-path-cell.depth%d' % len(chain_))
            case = {'ep': ep, 'member': obj + leaf, 'kind': k}
            chk.case((ep, obj + leaf, k), nontrivial=True)
            got = c if c != 'forbidden' else 'forbidden:' + str(o['defused'])
            want = {'err forbidden-entities': 'forbidden:EntitiesForbidden',
                    'err forbidden-external': 'forbidden:ExternalReferenceForbidden'}.get(ans.strip(), ans)
            if got != want:
                chk.corr_diff(case, got, ans, 'outcome of the cell (further object path)')
            if c != 'forbidden' or o['touched']:
                where = 'object' if len(chain_) == 1 else 'object-nested'
                report(chk, '%s:%s@%s:%s' % (ep, leaf[:-4], where, KIND_CLASS[k]) + ('' if c == 'expanded' else ':silent'), case,
                       'member of a further embedded object: observed %s %s' % (c, o['touched'][:1]))
    finally:
        watch.needles = []
        shutil.rmtree(tmp, ignore_errors=True)


# ---------------------------------------------------------------------------------------------------------------
# the dimension SHAPE OF THE PROLOG.  The member declares the entity `e`; its prolog is legal XML in which an entity literal, a
# comment or a processing instruction holds what a text-level pre-processing could take for markup: `<name`, quotes, `>`, `]`, `]>`.
# What the property says does not depend on it: the entry point takes the member in => the call raises an explicit refusal.
# ---------------------------------------------------------------------------------------------------------------
def prolog_package(target, shape, tok):
    mem = []
    for name, data in template():
        if name == target:
            data = prologs.apply_shape(data.replace(TXT, u'&e;'), DECL, shape, tok.declared)
        mem.append((name, data))
    return mem


def prolog_cell(chk, drv, tok, watch, pkgargs, parses, prep, ep, m, shape):
    mem = prolog_package(m, shape, tok)
    case = {'ep': ep, 'member': m, 'kind': 'ent-text', 'shape': shape}
    if prep is not None:
        prep.check(case, m, dict(mem)[m], strict=True)
    o = observe(ep, build(mem), tok, watch)
    c = cls(o)
    part, where = member_class(m)
    must = parses or required(ep, m, MANIFEST_ENTRIES)
    chk.count('prolog-cell')
    chk.count('prolog-cell.' + c + ('' if must else '.member-not-parsed'))
    for dim, v in zip(('literal', 'subset', 'outer'), shape.split('/')):
        chk.count('prolog.%s.%s' % (dim, v))
    chk.case((ep, m, 'prolog:' + shape), nontrivial=bool(must),
             sample=dict(case, observed=c, exception=o['defused'] or o['exc']) if (len(chk.samples) < 8 and chk.rng.random() < 0.004) else None)
    sig = '%s:%s@%s:prolog-markup' % (ep, part, where)
    if o['expanded'] or o['canary']:
        report(chk, sig, case, 'the result contains the expanded entity text')
    elif o['touched']:
        report(chk, sig, case, 'an external resource was opened: %s' % o['touched'][:2])
    elif must and c != 'forbidden':
        if o['outcome'] == 'returned':
            report(chk, sig + ':silent', case, 'the entry point takes this member in, its DOCTYPE declares the entity `e` (prolog shape %s: legal XML with '
                   '`<name`, quotes, `>`, `]` inside an entity literal / comment / processing instruction), and the call returned normally: no '
                   'explicit exception%s' % (shape, '; the parse failure was only printed' if o['sax_failed_printed'] else ''))
        else:
            report(chk, sig + ':not-explicit', case, 'raised %s, which is not (and does not wrap) a defusedxml refusal' % o['exc'])
    elif not must and c != 'clean':
        chk.corr_diff(case, c, 'clean', 'member is not parsed by this entry point yet the call did not return normally')
    if drv is not None:
        ans = drv.ask('read %d %s %d %d %s' % (EP_CODE[ep], enc_str(m), 1, 1 if shape.endswith('/system-id') else 0, pkgargs))
        chk.corr()
        got = c if c != 'forbidden' else 'forbidden:' + str(o['defused'])
        want = {'err forbidden-entities': 'forbidden:EntitiesForbidden', 'err forbidden-external': 'forbidden:ExternalReferenceForbidden',
                'ok clean': 'clean', 'ok expanded': 'expanded'}.get(ans.strip(), ans)
        if got != want:
            chk.corr_diff(case, got, ans, 'outcome of the cell (prolog shape %s)' % shape)
    return o


def run_prologs(chk, drv, prep, parsed):
    """prolog shape x entry point x XML member (main document and every embedded object of the template).  thorough: every cell;
    quick: every (entry point, member the entry point takes in) with 16 shapes, consecutive pairs walking through all 200 shapes
    (each shape several times, every value of every dimension with every entry point), members it does not parse with one"""
    watch = Watch.install()
    tmp = tempfile.mkdtemp(prefix='c13-')
    try:
        tok = Tokens(chk.rng, tmp)
        pkgargs = model_pkg_args()
        offset = chk.rng.randrange(len(prologs.SHAPES))
        n = 0
        for ep in EPS:
            for m in XML_MEMBERS:
                must = bool(parsed.get((ep, m))) or required(ep, m, MANIFEST_ENTRIES)
                if chk.tier == 'thorough':
                    names = [s_[0] for s_ in prologs.SHAPES] if must else prologs.quick_slice(n, offset, 8)
                else:
                    names = prologs.quick_slice(n, offset, 16 if must else 1)
                n += 1
                for shape in names:
                    prolog_cell(chk, drv, tok, watch, pkgargs, bool(parsed.get((ep, m))), prep, ep, m, shape)
    finally:
        watch.needles = []
        shutil.rmtree(tmp, ignore_errors=True)


def run_slow(chk, parsed):
    """unterminated / very long internal subsets full of comments and processing instructions (prologs.slow_texts): (1) ONE call of the
    pre-processing may not take longer than prologs.SLOW_LIMIT seconds (probed in a child process: a matcher that backtracks
    exponentially would hang the reader instead of letting the parser refuse the member); (2) the subset first declares the entity `e`,
    so the entry point that takes the member in must raise the explicit refusal whatever follows the declaration"""
    n, slow = prologs.probe_slow(REPO)
    chk.count('slow-probe-call', n)
    if slow is not None:
        name, ent, secs = slow
        text = dict(prologs.slow_texts(bool(ent))).get(name, u'')
        report(chk, 'fixxmlpart-slow', {'ep': 'load', 'member': u'content.xml', 'kind': 'ent-unused', 'slow': name, 'entity': ent, 'text': text[:300]},
               'one call of __fixXmlPart on a %d character text (DOCTYPE whose internal subset does not end, full of comments / processing '
               'instructions) %s; limit %.1f s: load() hangs instead of handing the member to the refusing parser' %
               (len(text), ('took %.1f s' % secs) if secs is not None else 'did not return within the budget of the probe', prologs.SLOW_LIMIT))
        return
    watch = Watch.install()
    tmp = tempfile.mkdtemp(prefix='c13-')
    try:
        tok = Tokens(chk.rng, tmp)
        pairs = [(ep, m) for ep in LOADLIKE for m in XML_MEMBERS if m != MANIFEST and parsed.get((ep, m))]
        off = chk.rng.randrange(len(pairs))
        for i, (name, text) in enumerate(prologs.slow_texts(True)):
            ep, m = pairs[(off + 7 * i) % len(pairs)]
            mem = []
            for nm, data in template():
                if nm == m:
                    assert text.endswith(u'<r/>')
                    data = DECL.rstrip(u'\n') + text[:-4] + data[len(DECL):]
                mem.append((nm, data))
            case = {'ep': ep, 'member': m, 'kind': 'ent-unused', 'slow': name, 'entity': 1}
            o = observe(ep, build(mem), tok, watch)
            c = cls(o)
            chk.count('slow-cell'); chk.count('slow-cell.' + c)
            chk.case((ep, m, 'slow:' + name), nontrivial=True)
            part, where = member_class(m)
            if c != 'forbidden' or o['touched']:
                report(chk, '%s:%s@%s:unterminated-subset' % (ep, part, where) + ('' if c == 'expanded' else ':silent'), case,
                       'the internal subset declares the entity `e` and then does not end properly (%s): observed %s %s' % (name, c, o['exc'] or ''))
    finally:
        watch.needles = []
        shutil.rmtree(tmp, ignore_errors=True)


# ---------------------------------------------------------------------------------------------------------------
# the dimension DOCTYPE OF A REAL PRODUCER (prologs.LEGACY): external identifiers as OpenOffice.org 1.x, W3C and OASIS vocabularies
# carry them, each combined with an internal subset that declares entities.  The property does not depend on what else the
# document type declaration says: the entry point takes the member in => explicit refusal.
# ---------------------------------------------------------------------------------------------------------------
def legacy_package(target, shape, tok):
    mem = []
    for name, data in template():
        if name == target:
            data = prologs.apply_legacy(data.replace(TXT, u'&e;'), DECL, shape, tok.declared, tok.file_url, tok.dtd_url)
        mem.append((name, data))
    return mem


def legacy_cell(chk, drv, tok, watch, pkgargs, parses, prep, ep, m, shape):
    shape = tuple(shape)
    mem = legacy_package(m, shape, tok)
    sname = prologs.legacy_name(shape)
    declares = prologs.legacy_declares(shape)
    case = {'ep': ep, 'member': m, 'kind': 'ent-text' if declares else 'ext-dtd', 'legacy': list(shape)}
    if prep is not None:
        prep.check(case, m, dict(mem)[m], strict=True)
    o = observe(ep, build(mem), tok, watch)
    c = cls(o)
    part, where = member_class(m)
    must = parses or required(ep, m, MANIFEST_ENTRIES)
    chk.count('legacy-cell')
    chk.count('legacy-cell.' + c + ('' if must else '.member-not-parsed'))
    for dim, v in zip(('id', 'subset', 'name'), shape):
        chk.count('legacy.%s.%s' % (dim, v))
    chk.case((ep, m, 'legacy:' + sname), nontrivial=bool(must),
             sample=dict(case, observed=c, exception=o['defused'] or o['exc']) if (len(chk.samples) < 8 and chk.rng.random() < 0.004) else None)
    sig = '%s:%s@%s:legacy-doctype%s' % (ep, part, where, '' if declares else '-alone')
    if o['expanded'] or o['canary']:
        report(chk, sig, case, 'the result contains the expanded entity text / the canary')
    elif o['touched']:
        report(chk, sig, case, 'an external resource was opened: %s' % o['touched'][:2])
    elif must and c != 'forbidden':
        what = ('its DOCTYPE carries the external identifier %s and an internal subset (%s) that declares entities' % (shape[0], shape[1])) \
            if declares else ('its DOCTYPE names the external DTD subset of a legacy producer (%s)' % shape[0])
        if o['outcome'] == 'returned':
            report(chk, sig + ':silent', case, 'the entry point takes this member in, %s, and the call returned normally: no explicit exception%s' %
                   (what, '; the parse failure was only printed' if o['sax_failed_printed'] else ''))
        else:
            report(chk, sig + ':not-explicit', case, '%s; raised %s, which is not (and does not wrap) a defusedxml refusal' % (what, o['exc']))
    elif not must and c != 'clean':
        chk.corr_diff(case, c, 'clean', 'member is not parsed by this entry point yet the call did not return normally')
    if drv is not None:
        ans = drv.ask('read %d %s %d %d %s' % (EP_CODE[ep], enc_str(m), 1 if declares else 0, 1, pkgargs))
        chk.corr()
        got = c if c != 'forbidden' else 'forbidden:' + str(o['defused'])
        want = {'err forbidden-entities': 'forbidden:EntitiesForbidden', 'err forbidden-external': 'forbidden:ExternalReferenceForbidden',
                'ok clean': 'clean', 'ok expanded': 'expanded'}.get(ans.strip(), ans)
        if got != want:
            chk.corr_diff(case, got, ans, 'outcome of the cell (legacy DOCTYPE %s)' % sname)
    return o


def run_legacy(chk, drv, prep, parsed):
    """legacy DOCTYPE (external identifier x internal subset x DOCTYPE name) x entry point x XML member.  thorough: every cell of the
    members an entry point takes in; quick: 4 consecutive shapes per (entry point, member taken in), walking through all shapes"""
    watch = Watch.install()
    tmp = tempfile.mkdtemp(prefix='c13-')
    try:
        tok = Tokens(chk.rng, tmp)
        pkgargs = model_pkg_args()
        L = prologs.LEGACY
        offset = chk.rng.randrange(len(L))
        n = 0
        for ep in EPS:
            for m in XML_MEMBERS:
                must = bool(parsed.get((ep, m))) or required(ep, m, MANIFEST_ENTRIES)
                if not must:
                    continue
                per = len(L) if chk.tier == 'thorough' else 4
                for j in range(per):
                    legacy_cell(chk, drv, tok, watch, pkgargs, bool(parsed.get((ep, m))), prep, ep, m, L[(offset + n * per + j) % len(L)])
                n += 1
    finally:
        watch.needles = []
        shutil.rmtree(tmp, ignore_errors=True)


# ---------------------------------------------------------------------------------------------------------------
# TWO DEFECTS IN ONE PACKAGE: one XML part is damaged (listed in the manifest but missing from the zip; empty; truncated; not
# well-formed) AND another part declares entities.  The property speaks about every XML member on its own: whatever state the
# OTHER members are in, a member the entry point takes in and that declares entities makes the call fail with an explicit exception
# (the refusal - or, where the damaged part alone already makes this entry point fail, that very failure).
# ---------------------------------------------------------------------------------------------------------------
DAMAGES = ['missing', 'malformed', 'empty', 'truncated', 'truncated-decl', 'bad-end-tag']
PAIR_DOCS = [u'', u'Object 1/']
PAIR_LEAVES = [u'settings.xml', u'meta.xml', u'content.xml', u'styles.xml']
PAIR_KINDS = ['ent-text', 'ext-general-file', 'ent-unused', 'ext-param-file', 'ent-attr', 'nested', 'ext-dtd-file', 'quadratic',
              'ext-general-http', 'ext-param-http', 'ext-dtd-http', 'ext-general-attr-file']


def damage(text, how):
    """the damaged form of a member text (None: the member is left out of the zip, its manifest entry stays)"""
    if how == 'missing':
        return None
    if how == 'empty':
        return b''
    if how == 'truncated':
        return text[:(2 * len(text)) // 3]
    if how == 'truncated-decl':
        return text[:20]
    if how == 'malformed':
        return DECL + u'<office:broken <<< ' + text[len(DECL):]
    if how == 'bad-end-tag':
        i = text.rindex(u'</')
        return text[:i] + u'</office:wrong>'
    raise ValueError(how)


def pair_package(dmember, how, emember, kind, tok):
    mem = []
    for name, data in template():
        if name == dmember:
            data = damage(data, how)
            if data is None:
                continue
        elif name == emember and kind is not None:
            data = inject(data, kind, tok)
        mem.append((name, data))
    return mem


def pair_cell(chk, drv, tok, watch, parsed, ctrl, ep, dmember, how, emember, k):
    key = (ep, dmember, how)
    if key not in ctrl:                     # what the damaged part ALONE does to this entry point
        oc = observe(ep, build(pair_package(dmember, how, None, None, tok)), tok, watch)
        ctrl[key] = oc['exc']
        chk.count('pair-control.' + ('returned' if oc['exc'] is None else 'raised'))
    mem = pair_package(dmember, how, emember, k, tok)
    o = observe(ep, build(mem), tok, watch)
    c = cls(o)
    case = {'ep': ep, 'member': emember, 'kind': k, 'damaged': dmember, 'damage': how}
    must = bool(parsed.get((ep, emember))) or required(ep, emember, MANIFEST_ENTRIES)
    part, where = member_class(emember)
    by_damage = (c == 'raised-other' and ctrl[key] is not None and o['exc'] == ctrl[key])
    chk.count('pair-cell')
    chk.count('pair-cell.%s.%s' % (how, 'failed-on-the-damaged-part' if by_damage else c) + ('' if must else '.member-not-parsed'))
    chk.case((ep, emember, k, 'damaged:' + dmember, how), nontrivial=bool(must) and ctrl[key] is None,
             sample=dict(case, observed=c, exception=o['defused'] or o['exc']) if (len(chk.samples) < 8 and chk.rng.random() < 0.004) else None)
    sig = '%s:%s@%s:%s:other-part-%s' % (ep, part, where, KIND_CLASS[k], how)
    if o['expanded'] or o['canary']:
        report(chk, sig, case, 'the result contains the expanded entity text / the canary')
    elif o['touched']:
        report(chk, sig, case, 'the external resource named by the document was opened: %s' % o['touched'][:2])
    elif must and c != 'forbidden' and not by_damage:
        if o['outcome'] == 'returned':
            report(chk, sig + ':silent', case, 'the entry point takes %s in, its DOCTYPE %s, and the call returned normally although - %s of the same '
                   'package being %s does not change that - it has to be refused%s' %
                   (emember, 'names an external DTD subset' if KIND_FLAGS[k] == (0, 1) else 'declares entities', dmember, how,
                    '; a parse failure was only printed' if o['sax_failed_printed'] else ''))
        else:
            report(chk, sig + ':not-explicit', case, 'raised %s, which is neither a defusedxml refusal nor what %s being %s alone raises (%s)' %
                   (o['exc'], dmember, how, ctrl[key]))
    # -- correspondence: a listed member that is absent from the zip is inside the model's domain (readList / skipsMissing)
    if drv is not None and how == 'missing':
        files = [nm for nm, _ in mem]
        mans = [p_ for p_, _ in MANIFEST_ENTRIES] + [u'extra/' + ATT]
        ans = drv.ask('read %d %s %d %d %d %s %d %s' % ((EP_CODE[ep], enc_str(emember)) + KIND_FLAGS[k] + (
            len(files), ' '.join(enc_str(f) for f in files), len(mans), ' '.join(enc_str(x) for x in mans))))
        chk.corr()
        got = c if c != 'forbidden' else 'forbidden:' + str(o['defused'])
        if c == 'raised-other' and o['exc'] == 'KeyError':
            got = 'missing'
        want = {'err forbidden-entities': 'forbidden:EntitiesForbidden', 'err forbidden-external': 'forbidden:ExternalReferenceForbidden',
                'err missing': 'missing', 'ok clean': 'clean', 'ok expanded': 'expanded'}.get(ans.strip(), ans)
        if got != want:
            chk.corr_diff(case, got + ' ' + str(o['exc'] or ''), ans, 'outcome of the cell (%s listed but missing from the zip)' % dmember)
    # -- correspondence: a member that is not well-formed (OdfModel.EntityDamage.readD)
    if drv is not None and how != 'missing':
        ans = drv.ask('readdmg %d %s %d %d %s %s' % ((EP_CODE[ep], enc_str(emember)) + KIND_FLAGS[k] + (enc_str(dmember), model_pkg_args())))
        chk.corr()
        got = c if c != 'forbidden' else 'forbidden:' + str(o['defused'])
        if c == 'raised-other' and o['exc'] in ('SAXParseException', 'ExpatError'):
            got = 'not-well-formed'
        want = {'err forbidden-entities': 'forbidden:EntitiesForbidden', 'err forbidden-external': 'forbidden:ExternalReferenceForbidden',
                'err not-well-formed': 'not-well-formed', 'ok clean': 'clean', 'ok expanded': 'expanded'}.get(ans.strip(), ans)
        if got != want:
            chk.corr_diff(case, got + ' ' + str(o['exc'] or ''), ans, 'outcome of the cell (%s not well-formed: %s)' % (dmember, how))
    return o


def pair_cells(chk, parsed):
    """[(ep, damaged member, damage, entity-declaring member, kind)].  Ordered pairs of DIFFERENT parts over the main document and
    `Object 1/` (same document and across), the manifest as the entity-declaring member, the two members of the MoinMoin converter.
    thorough: every pair x every damage x every loader-based entry point, three kinds each (rotating through all);
    quick: every same-document ordered pair x every damage, every cross-document pair once, entry point and kind rotating"""
    members = [d + l for d in PAIR_DOCS for l in PAIR_LEAVES]
    same = [(a, b) for a in members for b in members if a != b and a.rpartition(u'/')[0] == b.rpartition(u'/')[0]]
    cross = [(a, b) for a in members for b in members if a.rpartition(u'/')[0] != b.rpartition(u'/')[0]]
    out = []
    i = chk.rng.randrange(60)
    if chk.tier == 'thorough':
        for ep in LOADLIKE:
            for a, b in same + cross + [(a, MANIFEST) for a in members]:
                for how in DAMAGES:
                    for j in range(3):
                        i += 1
                        out.append((ep, a, how, b, PAIR_KINDS[i % len(PAIR_KINDS)]))
    else:
        for a, b in same:
            for how in DAMAGES:
                i += 1
                out.append((LOADLIKE[i % len(LOADLIKE)], a, how, b, PAIR_KINDS[(i // len(LOADLIKE)) % len(PAIR_KINDS)]))
        for a, b in cross + [(a, MANIFEST) for a in members[::3]]:
            i += 1
            out.append((LOADLIKE[i % len(LOADLIKE)], a, DAMAGES[i % len(DAMAGES)], b, PAIR_KINDS[(i // 5) % len(PAIR_KINDS)]))
    for a, b in ((u'styles.xml', u'content.xml'), (u'content.xml', u'styles.xml'), (u'meta.xml', u'content.xml')):
        for how in DAMAGES:
            i += 1
            for k in (PAIR_KINDS if chk.tier == 'thorough' else [PAIR_KINDS[i % len(PAIR_KINDS)]]):
                out.append(('ODF2MoinMoin', a, how, b, k))
    return out


def run_pairs(chk, drv, parsed):
    watch = Watch.install()
    tmp = tempfile.mkdtemp(prefix='c13-')
    try:
        tok = Tokens(chk.rng, tmp)
        ctrl = {}
        for ep, a, how, b, k in pair_cells(chk, parsed):
            pair_cell(chk, drv, tok, watch, parsed, ctrl, ep, a, how, b, k)
    finally:
        watch.needles = []
        shutil.rmtree(tmp, ignore_errors=True)


LAYOUT_EPS = ['load', 'manifestlist', 'UserFields.list_fields', 'ODF2XHTML.odf2xhtml', 'ODF2MoinMoin']


def run_matrix(chk, drv=None, verbose=False, only=None, prep=None, parsed_out=None):
    """the complete fault matrix (default layout: every cell; other prolog layouts: every cell whose member the entry
    point parses); returns the table {(ep, member, kind, layout): observation}"""
    watch = Watch.install()
    tmp = tempfile.mkdtemp(prefix='c13-')
    table = {}
    try:
        tok = Tokens(chk.rng, tmp)
        pkgargs = model_pkg_args()
        # ---------------- controls: the template itself must be readable by every entry point
        for ep in EPS:
            for k in CONTROLS:
                for target in ([None] if k == 'clean' else XML_MEMBERS):
                    raw = build(package(target, k, tok))
                    o = observe(ep, raw, tok, watch)
                    chk.count('control')
                    if cls(o) != 'clean':
                        chk.notes.append('control %s %s %s: %r' % (ep, k, target, o))
                        chk.corr_diff({'ep': ep, 'member': target, 'kind': k}, cls(o), 'clean',
                                      'a package without entity declarations must be read normally')
        # ---------------- which members does each entry point parse?  (not well-formed member probe)
        parsed = {}
        for ep in EPS:
            real = []
            for m in XML_MEMBERS:
                raw = build(package(m, None, tok, malformed=True))
                o = observe(ep, raw, tok, watch)
                noticed = o['outcome'] == 'raised' or o['sax_failed_printed']
                parsed[(ep, m)] = noticed
                if parsed_out is not None:
                    parsed_out[(ep, m)] = noticed
                if noticed:
                    real.append(m)
                chk.count('malformed-probe')
            if drv is not None:
                ans = drv.ask('order %d %s' % (EP_CODE[ep], pkgargs))
                chk.corr()
                model = sorted(dec_str(w) for w in ans.split()[1:]) if ans.startswith('ok') else ans
                if model != sorted(real):
                    chk.corr_diff({'ep': ep}, sorted(real), model, 'set of XML members the entry point parses')
        # ---------------- controls in the other layouts (parsed members only)
        lay_eps = EPS if chk.tier == 'thorough' else LAYOUT_EPS
        if not only:
            for layout in LAYOUTS[1:]:
                for ep in lay_eps:
                    for m in XML_MEMBERS:
                        if not parsed[(ep, m)]:
                            continue
                        for k in CONTROLS:
                            mem = package(m, k, tok, layout=layout)
                            if prep is not None:
                                prep.check({'ep': ep, 'member': m, 'kind': k, 'layout': layout}, m, dict(mem)[m])
                            o = observe(ep, build(mem), tok, watch)
                            chk.count('control.layout')
                            if cls(o) != 'clean':
                                chk.corr_diff({'ep': ep, 'member': m, 'kind': k, 'layout': layout}, cls(o) + ' ' + str(o['exc']), 'clean',
                                              'a package without entity declarations must be read normally in every prolog layout')
        # ---------------- the matrix
        lines = []
        cells = []
        for layout in LAYOUTS:
            for ep in (EPS if layout == 'default' else lay_eps):
                for m in XML_MEMBERS:
                    if layout != 'default' and not parsed[(ep, m)]:
                        continue
                    for k in KINDS:
                        if only and (ep, m, k, layout) != only:
                            continue
                        cells.append((ep, m, k, layout))
                        lines.append('read %d %s %d %d %s' % ((EP_CODE[ep], enc_str(m)) + KIND_FLAGS[k] + (pkgargs,)))
        if only and not cells:
            cells.append(only)
            lines.append('read %d %s %d %d %s' % ((EP_CODE[only[0]], enc_str(only[1])) + KIND_FLAGS[only[2]] + (pkgargs,)))
        answers = drv.batch(lines) if drv is not None else [None] * len(cells)
        for (ep, m, k, layout), ans in zip(cells, answers):
            mem = package(m, k, tok, layout=layout)
            case = {'ep': ep, 'member': m, 'kind': k, 'layout': layout}
            if prep is not None:
                prep.check(case, m, dict(mem)[m])
            raw = build(mem)
            as_path = None
            if ep in ('load', 'odfmanifest', 'ODF2MoinMoin') and k in ('ent-text', 'ext-general-file'):
                as_path = os.path.join(tok.docdir, 'doc.odt')         # also exercise the file-name form of the argument
                watch.own = True
                with open(as_path, 'wb') as f:
                    f.write(raw)
                watch.own = False
            o = observe(ep, raw, tok, watch, as_path)
            table[(ep, m, k, layout)] = o
            part, where = member_class(m)
            c = cls(o)
            chk.count('cell')
            chk.count('layout.' + layout)
            chk.count('cell.' + c + ('' if parsed[(ep, m)] else '.member-not-parsed'))
            chk.case((ep, m, k, layout), nontrivial=parsed[(ep, m)],
                     sample={'ep': ep, 'member': m, 'kind': k, 'layout': layout, 'observed': c, 'exception': o['defused'] or o['exc']}
                     if (len(chk.samples) < 8 and chk.rng.random() < 0.004) else None)
            sig = '%s:%s@%s:%s' % (ep, part, where, KIND_CLASS[k])
            if verbose:
                print('%-24s %-30s %-22s %-10s parsed=%d %s %s' % (ep, m, k + '/' + layout, c, parsed[(ep, m)], o['defused'] or o['exc'], o['touched'][:1]))
            # -- oracle (property text)
            if o['expanded'] or o['canary']:
                report(chk, sig, case, 'the result contains the %s' % ('expanded entity text' if o['expanded'] else 'content of the canary file'))
            elif o['touched']:
                report(chk, sig, case, 'the external resource named by the document was opened: %s' % o['touched'][:2])
            elif (parsed[(ep, m)] or required(ep, m, MANIFEST_ENTRIES)) and c != 'forbidden':
                if o['outcome'] == 'returned':
                    report(chk, sig + ':silent', case, ('the entry point parses this member' if parsed[(ep, m)] else
                           'the member belongs to a (sub-)document the entry point takes in but it is NOT handed to a parser') + ', the member\'s DOCTYPE %s, '
                             'and the call returned normally (nothing expanded, nothing opened, but no explicit exception%s)' %
                             ('names an external DTD subset' if KIND_FLAGS[k] == (0, 1) else 'declares entities',
                              '; the failure was only printed' if o['sax_failed_printed'] else ''))
                else:
                    report(chk, sig + ':not-explicit', case, 'raised %s, which is not (and does not wrap) a defusedxml refusal' % o['exc'])
            elif not parsed[(ep, m)] and not required(ep, m, MANIFEST_ENTRIES) and c != 'clean':
                chk.corr_diff(case, c, 'clean', 'member is not parsed by this entry point (malformed probe) yet the call did not return normally')
            # -- correspondence with the model's prediction
            if ans is not None:
                chk.corr()
                got = c if c != 'forbidden' else 'forbidden:' + str(o['defused'])
                want = {'err forbidden-entities': 'forbidden:EntitiesForbidden',
                        'err forbidden-external': 'forbidden:ExternalReferenceForbidden',
                        'ok clean': 'clean', 'ok expanded': 'expanded'}.get(ans.strip(), ans)
                if want != got:
                    chk.corr_diff(case, got, ans, 'outcome of the cell (which refusal / clean / expanded)')
    finally:
        watch.needles = []
        shutil.rmtree(tmp, ignore_errors=True)
    return table


# ---------------------------------------------------------------------------------------------------------------
# the dimension CHARACTER ENCODING OF THE MEMBER.  XML lets a member be written in any encoding the parser knows; what the
# property says does not depend on it: an entity-declaring member the entry point takes in must make the call fail with an
# explicit exception (a defusedxml refusal, or - the reader not accepting such bytes at all - a UnicodeError), and neither the
# expansion nor the canary may ever show up.  A step that re-encodes "foreign" members before the refusing parser sees them
# (through a parser that is not the refusing one) is what this dimension is there to catch.
# ---------------------------------------------------------------------------------------------------------------
BOM8 = b'\xef\xbb\xbf'
# (name, python codec, byte order mark, encoding named by the XML declaration (None: declaration without encoding; False: no XML
#  declaration at all), a non-ASCII character put into the member (u'' = none), family for the signature)
ENCODINGS = [
    ('utf8-nonascii', 'utf-8', b'', u'UTF-8', u'\xe9', 'utf8'),
    ('utf8-bom-decl', 'utf-8', BOM8, u'UTF-8', u'\u20ac', 'utf8'),
    ('utf8-bom-nodecl', 'utf-8', BOM8, None, u'', 'utf8'),
    ('utf16le-bom-decl', 'utf-16-le', b'\xff\xfe', u'UTF-16', u'', 'utf16'),
    ('utf16le-bom-nodecl', 'utf-16-le', b'\xff\xfe', None, u'\xe9', 'utf16'),
    ('utf16le-bom-noxmldecl', 'utf-16-le', b'\xff\xfe', False, u'', 'utf16'),
    ('utf16be-bom-decl', 'utf-16-be', b'\xfe\xff', u'UTF-16', u'\u20ac', 'utf16'),
    ('utf16be-bom-nodecl', 'utf-16-be', b'\xfe\xff', None, u'', 'utf16'),
    ('latin1-decl', 'iso-8859-1', b'', u'ISO-8859-1', u'\xe9', '8bit'),
    ('latin1-decl-lower', 'iso-8859-1', b'', u'iso-8859-1', u'\xff', '8bit'),
    ('cp1252-decl', 'cp1252', b'', u'windows-1252', u'\u20ac', '8bit'),
]
ENC = dict((e[0], e) for e in ENCODINGS)
ENC_POS = ['before', 'text', 'after']       # where the non-ASCII character stands: comment in the prolog / element text / comment after the root


def encode_member(text, encname, pos='before'):
    """the member text (as inject() returns it, default layout) stored in another character encoding -> bytes"""
    _, codec, bom, declared, ch, _ = ENC[encname]
    assert text.startswith(DECL)
    rest = text[len(DECL):]
    if declared is False:
        decl = u''
    elif declared is None:
        decl = u"<?xml version='1.0'?>\n"
    else:
        decl = u"<?xml version='1.0' encoding='%s'?>\n" % declared
    if ch:
        if pos == 'before':
            rest = u'<!--%s-->' % ch + rest
        elif pos == 'after':
            rest = rest + u'<!--%s-->' % ch
        else:
            i = rest.index(u'</')           # the first end tag: the character becomes element text
            rest = rest[:i] + ch + rest[i:]
    return bom + (decl + rest).encode(codec)


def is_utf8(data):
    try:
        data.decode('utf-8')
        return True
    except UnicodeDecodeError:
        return False


def cls_enc(o):
    if o['outcome'] == 'raised':
        return 'forbidden' if o['defused'] else ('undecodable' if o.get('unicode') else 'raised-other')
    return 'expanded' if (o['expanded'] or o['canary']) else 'clean'


def enc_package(target, kind, tok, encname, pos):
    mem = []
    for name, data in template():
        if name == target:
            data = encode_member(inject(data, kind, tok), encname, pos)
        mem.append((name, data))
    return mem


def enc_cell(chk, drv, tok, watch, pkgargs, parses, ep, m, k, encname, pos):
    """one cell of the encoding matrix; k may be a control ('clean' / 'doctype-only')"""
    mem = enc_package(m, k, tok, encname, pos)
    data = dict(mem)[m]
    utf8 = is_utf8(data)
    o = observe(ep, build(mem), tok, watch)
    c = cls_enc(o)
    fam = ENC[encname][5]
    case = {'ep': ep, 'member': m, 'kind': k, 'encoding': encname, 'pos': pos}
    control = k in CONTROLS
    flags = (0, 0) if control else KIND_FLAGS[k]
    chk.count('enc-cell' if not control else 'enc-control')
    chk.count('enc.%s.%s' % (encname, c))
    if not control:
        chk.case((ep, m, k, 'enc:' + encname, pos), nontrivial=bool(parses),
                 sample=dict(case, observed=c, exception=o['defused'] or o['exc'], utf8_valid=utf8)
                 if (len(chk.samples) < 8 and chk.rng.random() < 0.004) else None)
    # -- oracle (property text)
    part, where = member_class(m)
    sig = '%s:%s@%s:%s:enc-%s' % (ep, part, where, 'control' if control else KIND_CLASS[k], fam)
    if o['expanded'] or o['canary']:
        report(chk, sig, case, 'the member is stored as %s; the result contains the %s' %
               (encname, 'expanded entity text' if o['expanded'] else 'content of the canary file'))
    elif o['touched']:
        report(chk, sig, case, 'the member is stored as %s; the external resource named by the document was opened: %s' % (encname, o['touched'][:2]))
    elif not control and (parses or required(ep, m, MANIFEST_ENTRIES)) and c not in ('forbidden', 'undecodable'):
        if o['outcome'] == 'returned':
            report(chk, sig + ':silent', case, 'the entry point takes this member in, the member (stored as %s) %s, and the call returned '
                   'normally: no explicit exception%s' % (encname, 'names an external DTD subset' if flags == (0, 1) else 'declares entities',
                                                         '; the failure was only printed' if o['sax_failed_printed'] else ''))
        else:
            report(chk, sig + ':not-explicit', case, 'the member is stored as %s; raised %s, which is neither (a wrapper of) a defusedxml refusal '
                   'nor a UnicodeError' % (encname, o['exc']))
    # -- correspondence with the model (OdfModel.EntityEnc.readE)
    if drv is not None:
        ans = drv.ask('readenc %d %s %d %d %d %s' % ((EP_CODE[ep], enc_str(m)) + flags + (1 if utf8 else 0, pkgargs)))
        chk.corr()
        got = c if c != 'forbidden' else 'forbidden:' + str(o['defused'])
        want = {'err forbidden-entities': 'forbidden:EntitiesForbidden', 'err forbidden-external': 'forbidden:ExternalReferenceForbidden',
                'err undecodable': 'undecodable', 'ok clean': 'clean', 'ok expanded': 'expanded'}.get(ans.strip(), ans)
        if got != want:
            chk.corr_diff(case, got + ' ' + str(o['exc'] or ''), ans, 'outcome of the cell (member stored as %s, bytes %svalid UTF-8)' % (encname, '' if utf8 else 'not '))
    return o


def run_encodings(chk, drv, parsed):
    """encoding x entry point x every XML member the entry point parses (main document and embedded objects) x injection kind
    (quick: three kinds per (encoding, entry point, member), rotating through all twelve; thorough: all), plus the controls"""
    watch = Watch.install()
    tmp = tempfile.mkdtemp(prefix='c13-')
    try:
        tok = Tokens(chk.rng, tmp)
        pkgargs = model_pkg_args()
        i = chk.rng.randrange(12)
        for enc in ENCODINGS:
            encname = enc[0]
            for ep in EPS:
                for m in XML_MEMBERS:
                    if not parsed.get((ep, m)):
                        continue
                    i += 1
                    enc_cell(chk, drv, tok, watch, pkgargs, True, ep, m, CONTROLS[i % 2], encname, ENC_POS[i % 3])
                    if chk.tier == 'thorough':
                        cells = [(k, ENC_POS[(i + j) % 3]) for j, k in enumerate(KINDS)]
                    else:
                        cells = [(KINDS[(i + 4 * j) % len(KINDS)], ENC_POS[i % 3]) for j in range(3)]
                    for k, pos in cells:
                        enc_cell(chk, drv, tok, watch, pkgargs, True, ep, m, k, encname, pos)
    finally:
        watch.needles = []
        shutil.rmtree(tmp, ignore_errors=True)


def check_repo_binding():
    import odf, odf.opendocument, odf.odf2xhtml
    mods = [odf, odf.opendocument, odf.odf2xhtml, sys.modules.get('opendocument')]
    for m in mods:
        if m is None:
            continue
        f = os.path.realpath(m.__file__)
        if not f.startswith(os.path.realpath(REPO) + os.sep):
            raise InfraError('module %s was imported from %s, not from %s' % (m.__name__, f, REPO))


def run(chk, replay=None):
    import translate_entity
    check_repo_binding()
    chk.rule = ('every cell of: %d XML members (5 top level, 4 in "Object 1/", 4 in further / long-named / nested sub-documents, and 3 members load() must not parse) x %d injection kinds '
                'x %d entry points, plus controls (clean, bare DOCTYPE) and a not-well-formed probe per (entry point, member); '
                'non-trivial = the entry point really parses the member; every parsed (entry point, member) again with the member stored in '
                '%d other character encodings / byte order mark layouts, and with %d prolog shapes (entity literal x other items of the internal subset x items around the DOCTYPE, all legal XML with `<name`, quotes, `>`, `]` inside)' % (len(XML_MEMBERS), len(KINDS), len(EPS), len(ENCODINGS), len(prologs.SHAPES)))
    if replay is not None and 'input' not in replay:
        print('replay: this file records a broken obligation / correspondence without a failing input; run ./check C13')
        return 1
    if replay is not None and 'encoding' in replay['input']:
        c = replay['input']
        watch = Watch.install()
        tmp = tempfile.mkdtemp(prefix='c13-')
        try:
            tok = Tokens(chk.rng, tmp)
            o = enc_cell(chk, None, tok, watch, None, True, c['ep'], c['member'], c['kind'], c['encoding'], c.get('pos', 'before'))
        finally:
            watch.needles = []
            shutil.rmtree(tmp, ignore_errors=True)
        print('replay: %s -> %s' % (c, o))
        return 1 if (chk.failures or chk.known_hits) else 0
    if replay is not None and 'slow' in replay['input']:
        n, slow = prologs.probe_slow(REPO)
        print('replay: probe of __fixXmlPart on prologs.slow_texts(): %d calls in time, first slow call: %s' % (n, slow))
        if slow is not None:
            return 1
        parsed = dict(((ep, m), True) for ep in LOADLIKE for m in XML_MEMBERS)
        run_slow(chk, parsed)
        return 1 if (chk.failures or chk.known_hits) else 0
    if replay is not None and 'shape' in replay['input']:
        c = replay['input']
        watch = Watch.install()
        tmp = tempfile.mkdtemp(prefix='c13-')
        try:
            tok = Tokens(chk.rng, tmp)
            o = prolog_cell(chk, None, tok, watch, None, True, None, c['ep'], c['member'], c['shape'])
            print('member text: %r' % dict(prolog_package(c['member'], c['shape'], tok))[c['member']][:400])
        finally:
            watch.needles = []
            shutil.rmtree(tmp, ignore_errors=True)
        print('replay: %s -> %s' % (c, o))
        return 1 if (chk.failures or chk.known_hits) else 0
    if replay is not None and ('legacy' in replay['input'] or 'damage' in replay['input']):
        c = replay['input']
        watch = Watch.install()
        tmp = tempfile.mkdtemp(prefix='c13-')
        try:
            tok = Tokens(chk.rng, tmp)
            if 'legacy' in c:
                o = legacy_cell(chk, None, tok, watch, None, True, None, c['ep'], c['member'], c['legacy'])
                print('member text: %r' % dict(legacy_package(c['member'], tuple(c['legacy']), tok))[c['member']][:400])
            else:
                o = pair_cell(chk, None, tok, watch, {(c['ep'], c['member']): True}, {}, c['ep'], c['damaged'], c['damage'], c['member'], c['kind'])
        finally:
            watch.needles = []
            shutil.rmtree(tmp, ignore_errors=True)
        print('replay: %s -> %s' % (c, o))
        return 1 if (chk.failures or chk.known_hits) else 0
    if replay is not None and 'media' in replay['input']:
        c = replay['input']
        watch = Watch.install()
        tmp = tempfile.mkdtemp(prefix='c13-')
        try:
            tok = Tokens(chk.rng, tmp)
            media = dict([(k_, u'application/vnd.oasis.opendocument.' + k_) for k_ in ODF_KINDS] + OTHER_MEDIA)[c['media']]
            o = media_cell(chk, None, tok, watch, c['ep'], c['media'], media, c['member'].rpartition(u'/')[2], c['kind'])
        finally:
            watch.needles = []
            shutil.rmtree(tmp, ignore_errors=True)
        print('replay: %s -> %s' % (c, o))
        return 1 if (chk.failures or chk.known_hits) else 0
    if replay is not None and replay['input']['member'] not in XML_MEMBERS:
        # a cell of the object-path sweep: rebuild the package from the member path
        c = replay['input']
        watch = Watch.install()
        tmp = tempfile.mkdtemp(prefix='c13-')
        try:
            tok = Tokens(chk.rng, tmp)
            obj, _, leaf = c['member'].rpartition(u'/')
            segs = [x + u'/' for x in obj.split(u'/')]
            parts = {u'content.xml': t_content('sheet'), u'styles.xml': t_styles(), u'meta.xml': t_meta(), u'settings.xml': t_settings()}
            already = set(p for p, _ in MANIFEST_ENTRIES)
            man = [(u''.join(segs[:i]), u'application/vnd.oasis.opendocument.spreadsheet') for i in range(1, len(segs) + 1)
                   if u''.join(segs[:i]) not in already] + [(c['member'], u'text/xml')]
            mtext = t_manifest().replace(u'</manifest:manifest>', u''.join(
                u'<manifest:file-entry manifest:full-path="%s" manifest:media-type="%s"/>' % e for e in man) + u'</manifest:manifest>')
            mem = [(nm, d) for nm, d in template() if nm != MANIFEST] + [(c['member'], inject(parts[leaf], c['kind'], tok)), (MANIFEST, mtext)]
            o = observe(c['ep'], build(mem), tok, watch)
        finally:
            watch.needles = []
            shutil.rmtree(tmp, ignore_errors=True)
        print('replay: %s -> %s' % (c, o))
        return 0 if (cls(o) == 'forbidden' and not o['touched']) else 1
    if replay is not None:
        c = replay['input']
        tbl = run_matrix(chk, None, verbose=True, only=(c['ep'], c['member'], c['kind'], c.get('layout', 'default')))
        bad = bool(chk.failures) or bool(chk.known_hits)
        print('replay: %s -> %s' % (c, {k: v for k, v in list(tbl.values())[0].items()} if tbl else 'cell not found'))
        return 1 if bad else 0
    # 1 translate
    inv = translate_entity.inventory(REPO)
    chk.write_generated('ParseSites', translate_entity.to_lean(inv))
    chk.extra_cov['parse_sites'] = translate_entity.summary(inv)
    for s in inv['sites']:
        chk.count('site.' + ('library' if s['library'] else 'script') + '.' + s['origin_name'])
    # 2 prove
    ok = chk.prove(modules=['OdfModel.Props.C13', 'OdfModel.Props.C13Enc', 'OdfModel.Props.C13Prep', 'OdfModel.Props.C13Pair'], drivers=['drv_entity'])
    if not ok:
        chk.lake(['build', 'drv_entity'])
    chk.assumptions.append('C13: behaviour of the two parser kinds (defusedxml raises on an entity declaration / external '
                           'reference; the plain xml.* parsers expand) is an explicit hypothesis of the *_partial theorems '
                           '(structure ParserBehaviour), validated by the fault matrix on every run, not proved')
    chk.assumptions.append('C13: the parse-site inventory is syntactic (AST, import origin, name-based call graph); '
                           'parsers reached through dynamic imports or foreign objects would be seen only by the fault matrix')
    # the inventory's own plain-library-site report (independent of Lean): names the site in the evidence
    plain = [s for s in inv['sites'] if s['library'] and s['origin'] != 0 and s['reached_by']]
    for s in plain:
        chk.notes.append('library parse site not from defusedxml: %s:%d %s in %s (reached by %s)' %
                         (s['file'], s['line'], s['callee_path'], s['func'], ', '.join(s['reached_by'])))
    scripts_plain = [s for s in inv['sites'] if not s['library'] and s['origin'] != 0]
    if scripts_plain:
        chk.notes.append('shipped scripts constructing plain xml.* parsers (outside the property: not library entry points): ' +
                         '; '.join('%s:%d %s' % (s['file'], s['line'], s['callee_path']) for s in scripts_plain))
    # 3+4 correspondence and oracle: the fault matrix
    drv = chk.driver('drv_entity')
    prep = PrepCheck(chk, inv)
    parsed = {}
    run_matrix(chk, drv, prep=prep, parsed_out=parsed)
    run_prologs(chk, drv, prep, parsed)
    run_slow(chk, parsed)
    chk.assumptions.append('C13: the text pre-processing in front of the SAX parser (__fixXmlPart) preserves the DOCTYPE: `Prep` of the refusal '
                           'theorems is no longer a bare hypothesis - Props/C13Prep.lean instantiates it with the character-level model of the '
                           'function (C05 fix_prolog_untouched).  Still assumed there: (a) what expat reports of the DOCTYPE is decided by the '
                           'text in front of the document element (DoctypeReader.prolog_decides); (b) per text, the prolog the regex of the code '
                           'finds is the XML prolog (PrologAt, decidable; false only for texts that are not XML in front of the root); (c) model = '
                           'code: fixxml correspondence of C05 and, here, the real function on every member text of the fault matrix and of '
                           'the prolog-shape matrix (%d distinct texts; on every prolog shape it must return the text unchanged)' % len(prep.seen))
    run_legacy(chk, drv, prep, parsed)
    run_pairs(chk, drv, parsed)
    run_media(chk, drv)
    run_encodings(chk, drv, parsed)
    chk.assumptions.append('C13: a parser refuses an entity declaration in whatever character encoding the member is written (ParserBehaviour is '
                           'stated on what the DOCTYPE declares, not on bytes): validated by the encoding matrix (%d encodings x entry points x '
                           'parsed members x injection kinds)' % len(ENCODINGS))
    run_paths(chk, drv, range(2, 100) if chk.tier == 'thorough' else sorted(chk.rng.sample(range(2, 100), 12)))
    return chk.finish()

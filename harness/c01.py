# -*- coding: utf-8 -*-
"""C01 - every XML stream the library emits is well-formed.

proof:          lean/OdfModel/Props/C01.lean (emitted_wf, emitted_wf_after_any_history, covered_after) on top of the
                print/parse round trip (OdfModel/Xml/*.lean) and the namespace-table invariant (OdfModel/NsLemmas.lean)
translator:     _handle_unrepresentable probed on all code points -> Generated/EscTable.lean; initial nsdict -> Generated/NsDict.lean
correspondence: three encoders on every code point; all short strings; Element.toXml byte for byte; get_nsprefix histories
oracle:         expat (+ UTF-8 encodability) on the real bytes of every rendering
"""
import xmlchecks as C
import xmlcorr as X


def replay_one(chk, rp):
    import odf.element as E, io
    inp = rp['input']
    if 'context' in inp and 's' in inp:
        from common import dec_str
        s = dec_str(inp['s']); ctx = inp['context']
        fs = {'text': lambda s: C.wrap_text_raw(E, s), }
        if ctx == 'attr':
            doc = C.PROLOGUE + u'<a b=' + E._quoteattr(s) + u'/>'
        else:
            f = io.StringIO(); (E.Text if ctx == 'text' else E.CDATASection)(s).toXml(0, f)
            doc = C.PROLOGUE + u'<a>' + f.getvalue() + u'</a>'
        ok, res = C.wellformed(doc)
        print('replay:', repr(doc), '->', 'well-formed' if ok else res)
        return 0 if ok else 1
    if 'tree' in inp:
        def fix(n):
            return (n[0], n[1]) if n[0] in 'TC' else ('E', n[1], n[2], [tuple(a) for a in n[3]], [fix(k) for k in n[4]])
        doc = C.PROLOGUE + X.to_xml(X.build(fix(inp['tree'])))
        ok, res = C.wellformed(doc)
        print('replay:', repr(doc)[:400], '->', 'well-formed' if ok else res)
        return 0 if ok else 1
    if 'string_document' in inp:
        from common import dec_str
        C.string_document_one(chk, dec_str(inp['string_document']), want_identity=False)
        for f in chk.failures:
            print('replay:', f['sig'], f['case'].get('rendering', ''), '->', f['detail'][:300])
        print('replay: %d stream(s) of the document not well-formed' % len(chk.failures)); return 1 if chk.failures else 0
    if 'generated_prefix_history' in inp:
        C.generated_prefix_one(chk, inp['generated_prefix_history'])
        for f in chk.failures:
            print('replay:', f['sig'], f['case'].get('rendering', ''), '->', f['detail'][:300])
        print('replay: %d finding(s) after this history' % len(chk.failures)); return 1 if chk.failures else 0
    print('replay: re-running the whole check with the recorded seed'); return None


def run(chk, replay=None):
    chk.rule = ('every code point in text/attribute/CDATA position; all strings <= 3 (quick) / 5 (thorough) over 13 XML-significant '
                'characters in the three positions; seeded random trees (depth <= 4, foreign/empty namespaces, nasty strings); '
                'random documents through all seven renderings; namespace-table histories in fresh interpreters; histories in which '
                'load() meets source prefixes of the generated form ns<k> and further foreign namespaces follow, every rendering after; '
                'every adjacent high+low surrogate pair; all 1,114,112 code points in bulk through writer and expat; reference '
                'look-alikes (&#<digits of every script>; &#x..; &name;) as strings and inside documents; long strings with every special '
                'token at and around the block boundaries 2^10..2^17 (strings, elements, documents). '
                'non-trivial = non-empty string / tree with attributes or children')
    if replay is not None:
        r = replay_one(chk, replay)
        if r is not None:
            return r
        chk.seed = replay.get('seed', chk.seed)
    drv = C.setup(chk, ['OdfModel.Props.C01'])
    fs = C.encoders(chk, drv)
    C.strings_check(chk, drv, fs, want_identity=False)
    C.surrogate_pairs_check(chk, drv, fs, want_identity=False)
    C.all_codepoints_oracle(chk, fs, want_identity=False)
    C.reference_lookalikes_check(chk, drv, fs, want_identity=False)
    C.boundary_strings_check(chk, drv, fs, want_identity=False)
    C.boundary_trees_check(chk, drv, want_identity=False)
    C.adjacent_nodes_check(chk, drv, want_identity=False)
    C.trees_check(chk, drv, want_identity=False)
    C.extreme_trees_check(chk, drv, want_identity=False)
    C.documents_check(chk, want_identity=False, drv=drv)
    C.tableless_kwargs_check(chk)
    C.loaded_samples_check(chk)
    C.histories_check(chk, drv)
    C.generated_prefix_histories_check(chk, drv)
    C.alive_across_load_check(chk)
    C.fresh_process_documents_check(chk)
    return chk.finish()

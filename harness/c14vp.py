# -*- coding: utf-8 -*-
"""C14, value prefixes and refused values - generators and oracles that need a FRESH interpreter per case.

1. value_prefix_attrs_check: EVERY attribute whose datatype lets its value carry a namespace prefix, with every conventional
   prefix, through the API (constructor / setAttrNS, first rendering call save / contentxml / xml) and through load()+save():
   the prefix must be declared where the value stands and bound to the namespace the convention (API) / the source (load) binds
   it to.  The attribute list is read from the shipped RELAX-NG schema (refs `formula`, `namespacedToken`; attr_schema.py, ElementTree
   only) plus the attributes whose prefix rule is only in the prose of ODF 1.2 part 1.  Nothing is read from odf/attrconverters.py.
2. refused_value_check: loaded packages in which ONE element carries a value that is invalid for its datatype (decimal comma in a
   length, bad boolean, unprefixed token, ...) together with something whose namespace the process has never met (a foreign
   attribute / a prefixed value / a foreign child), first save in a fresh interpreter, then a second save.  load() may refuse the
   package (ValueError: counted); a load that succeeds must give namespace-well-formed parts, one prefix per namespace, the foreign
   names kept, and the second save must have the infoset of the first.
Oracles: expat (namespace mode) and zipfile only.
"""
import base64, io, json, os, re, subprocess, sys, zipfile
import xml.parsers.expat
import common

OFFICE = u'urn:oasis:names:tc:opendocument:xmlns:office:1.0'
TEXT = u'urn:oasis:names:tc:opendocument:xmlns:text:1.0'
TABLE = u'urn:oasis:names:tc:opendocument:xmlns:table:1.0'
SCRIPT = u'urn:oasis:names:tc:opendocument:xmlns:script:1.0'
PRESENTATION = u'urn:oasis:names:tc:opendocument:xmlns:presentation:1.0'
MANIFEST = u'urn:oasis:names:tc:opendocument:xmlns:manifest:1.0'

# Prefixes with a conventional binding: ODF 1.2 part 1 section 1.4 (table 1: ODF namespaces - read from the schema below -, table 2:
# dom, xforms, xlink, ...), OpenFormula (of) and the prefixes OpenOffice.org / LibreOffice write in formulas, script languages and events.
CONVENTIONAL = [
    (u'of', u'urn:oasis:names:tc:opendocument:xmlns:of:1.2'),
    (u'dom', u'http://www.w3.org/2001/xml-events'),
    (u'ooo', u'http://openoffice.org/2004/office'),
    (u'ooow', u'http://openoffice.org/2004/writer'),
    (u'oooc', u'http://openoffice.org/2004/calc'),
    (u'xforms', u'http://www.w3.org/2002/xforms'),
]
# ... and ODF's own prefixes as the schema declares them (chart:bar, draw:..., form:...): filled by value_attrs()
SCHEMA_PREFIXES = (u'chart', u'draw', u'form', u'presentation', u'db', u'script')

# Attributes whose value "should begin with a namespace prefix" only according to the prose (the schema types them `string`):
# ODF 1.2 part 1, 19.642 table:formula, 19.609 table:condition, 19.621 table:expression (formulas), 19.429 script:event-name
# ("the event name should be preceded by a namespace prefix"), 19.430 script:language (likewise).
PROSE_ATTRS = [
    ((TABLE, u'table-cell'), (TABLE, u'formula'), 'formula'),
    ((TABLE, u'content-validation'), (TABLE, u'condition'), 'formula'),
    ((TABLE, u'named-expression'), (TABLE, u'expression'), 'formula'),
    ((SCRIPT, u'event-listener'), (SCRIPT, u'event-name'), 'token'),
    ((PRESENTATION, u'event-listener'), (SCRIPT, u'event-name'), 'token'),
    ((SCRIPT, u'event-listener'), (SCRIPT, u'language'), 'token'),
    ((OFFICE, u'script'), (SCRIPT, u'language'), 'token'),
]

_CACHE = {}


def value_attrs():
    """-> (sorted list of (attribute qname, kind, [element qnames])), prefix -> namespace of the conventional prefixes)"""
    if 'attrs' not in _CACHE:
        import attr_schema
        sc = attr_schema.Schema(attr_schema.default_path(common.REPO))
        by = {}
        for e, a, dt, ref in sc.occurrences():
            if ref == 'formula' or ref == 'namespacedToken':
                by.setdefault((a, 'formula' if ref == 'formula' else 'token'), set()).add(e)
        for e, a, kind in PROSE_ATTRS:
            by.setdefault((a, kind), set()).add(e)
        conv = list(CONVENTIONAL)
        for p in SCHEMA_PREFIXES:
            if p in sc.nsmap:
                conv.append((p, sc.nsmap[p]))
        _CACHE['attrs'] = (sorted((a, k, sorted(es)) for (a, k), es in by.items()), conv)
    return _CACHE['attrs']


# ------------------------------------------------------------------------------------------------ independent reading of a part
def scan(data):
    """namespace-aware walk (expat) -> (declarations [(prefix, uri)] in document order,
       elements [((uri, local), [((uri, local), value, uri-the-value's-prefix-is-bound-to-here | None | False)])]);
       False = the value has no prefix.  Raises ExpatError when the part is not namespace-well-formed."""
    scope, decls, elems = {}, [], []

    def qn(name):
        f = name.split(u'\n')
        return (f[0], f[1]) if len(f) > 1 else (u'', f[0])

    def start_ns(prefix, uri):
        scope.setdefault(prefix, []).append(uri)
        decls.append((prefix, uri))

    def end_ns(prefix):
        scope[prefix].pop()

    def start(name, attrs):
        row = []
        for k in sorted(attrs):
            v = attrs[k]
            m = re.match(u'([A-Za-z_][A-Za-z0-9_.-]*):', v)
            bound = False
            if m:
                st = scope.get(m.group(1))
                bound = st[-1] if st else None
            row.append((qn(k), v, bound))
        elems.append((qn(name), row))

    p = xml.parsers.expat.ParserCreate(namespace_separator=u'\n')
    p.namespace_prefixes = True
    p.StartNamespaceDeclHandler = start_ns
    p.EndNamespaceDeclHandler = end_ns
    p.StartElementHandler = start
    p.Parse(data, True)
    return decls, elems


def infoset(data):
    """element / attribute / text events of a part, attributes sorted (expat, namespace mode)"""
    items = []

    def start(name, attrs):
        items.append(('s', name, sorted(attrs.items())))

    def end(name):
        items.append(('e',))

    def chars(d):
        if items and items[-1][0] == 't':
            items[-1] = ('t', items[-1][1] + d)
        else:
            items.append(('t', d))
    p = xml.parsers.expat.ParserCreate(namespace_separator=u'\n')
    p.StartElementHandler = start
    p.EndElementHandler = end
    p.CharacterDataHandler = chars
    p.Parse(data, True)
    return items


def part_oracle(chk, name, data, case, where):
    """the declaration clauses of C14 on one emitted part; -> (decls, elems) or None when the part cannot be read"""
    try:
        decls, elems = scan(data)
    except xml.parsers.expat.ExpatError as ex:
        chk.fail('not-namespace-wellformed-' + where, dict(case, part=name), '%s: %s' % (ex, data[:400]))
        return None
    p2u, u2p = {}, {}
    for prefix, uri in decls:
        if prefix is None:
            continue
        if uri == u'':
            chk.fail('empty-namespace-bound', dict(case, part=name), 'prefix %r bound to the empty namespace' % prefix)
        if p2u.setdefault(prefix, uri) != uri:
            chk.fail('prefix-bound-twice', dict(case, part=name), 'prefix %r bound to %r and %r' % (prefix, p2u[prefix], uri))
        if u2p.setdefault(uri, prefix) != prefix:
            chk.fail('namespace-bound-twice', dict(case, part=name), 'namespace %r bound to %r and %r' % (uri, u2p[uri], prefix))
    return decls, elems


# ------------------------------------------------------------------------------------------------ packages (zipfile only)
def esc(s):
    return s.replace(u'&', u'&amp;').replace(u'<', u'&lt;').replace(u'"', u'&quot;')


def package(body, decls, mimetype=u'application/vnd.oasis.opendocument.text', bodytag=u'text'):
    """a minimal package; `decls` = [(prefix, uri)] declared on the root of content.xml besides office: and text:"""
    seen = [(u'office', OFFICE), (u'text', TEXT)]
    for d in decls:
        if tuple(d) not in seen:
            seen.append(tuple(d))
    content = (u'<?xml version="1.0" encoding="UTF-8"?>\n<office:document-content %s office:version="1.2"><office:body><office:%s>%s'
               u'</office:%s></office:body></office:document-content>') % (
        u' '.join(u'xmlns:%s="%s"' % (p, esc(u)) for p, u in seen), bodytag, body, bodytag)
    styles = (u'<?xml version="1.0" encoding="UTF-8"?>\n<office:document-styles xmlns:office="%s" office:version="1.2">'
              u'<office:styles/></office:document-styles>') % OFFICE
    manifest = (u'<?xml version="1.0" encoding="UTF-8"?>\n<manifest:manifest xmlns:manifest="%s" manifest:version="1.2">'
                u'<manifest:file-entry manifest:full-path="/" manifest:media-type="%s"/>'
                u'<manifest:file-entry manifest:full-path="content.xml" manifest:media-type="text/xml"/>'
                u'<manifest:file-entry manifest:full-path="styles.xml" manifest:media-type="text/xml"/>'
                u'</manifest:manifest>') % (MANIFEST, mimetype)
    b = io.BytesIO()
    z = zipfile.ZipFile(b, 'w')
    z.writestr(zipfile.ZipInfo('mimetype'), mimetype.encode('utf-8'))
    z.writestr('META-INF/manifest.xml', manifest.encode('utf-8'))
    z.writestr('content.xml', content.encode('utf-8'))
    z.writestr('styles.xml', styles.encode('utf-8'))
    z.close()
    return b.getvalue(), content


# ------------------------------------------------------------------------------------------------ the fresh interpreter
_CHILD = r"""
import sys, json, io, base64, zipfile
sys.path.insert(0, %(repo)r)
sys.dont_write_bytecode = True
spec = json.loads(sys.stdin.read())
_real_stdout = sys.stdout; sys.stdout = sys.stderr
out = {}
def parts_of(raw):
    z = zipfile.ZipFile(io.BytesIO(raw))
    return [[n, z.read(n).decode('utf-8')] for n in z.namelist() if n.endswith('.xml')]
def render(d, call):
    if call in ('save', 'write'):
        b = io.BytesIO(); getattr(d, call)(b); return parts_of(b.getvalue())
    r = getattr(d, call)()
    return [[call + '()', r.decode('utf-8') if isinstance(r, bytes) else r]]
if spec['mode'] == 'table':
    # only the namespace table: one setAttrNS on a bare element
    from odf.element import Element
    e = Element(qname=(u'', u'x'), check_grammar=False)
    e.setAttrNS(spec['attr'][0], spec['attr'][1], spec['value'])
    out['table'] = [[k, v] for k, v in Element.namespaces.items()]
elif spec['mode'] == 'api':
    import odf.opendocument as OD
    from odf.element import Element
    d = OD.OpenDocumentText()
    for it in spec['items']:
        q = {(it['attr'][0], it['attr'][1]): it['value']}
        if it['how'] == 'ctor':
            e = Element(qname=tuple(it['el']), qattributes=q, check_grammar=False)
            d.text.addElement(e, check_grammar=False)
        else:
            e = Element(qname=tuple(it['el']), check_grammar=False)
            d.text.addElement(e, check_grammar=False)
            e.setAttrNS(it['attr'][0], it['attr'][1], it['value'])
    out['renderings'] = [render(d, c) for c in spec['calls']]
else:
    import odf.opendocument as OD
    try:
        d = OD.load(io.BytesIO(base64.b64decode(spec['package'])))
    except ValueError as ex:
        out['refused'] = repr(ex)[:300]
        d = None
    if d is not None:
        out['renderings'] = [render(d, c) for c in spec['calls']]
_real_stdout.write(json.dumps(out))
"""


def child(spec):
    code = _CHILD.replace('%(repo)r', repr(common.REPO))
    r = subprocess.run([sys.executable, '-c', code], input=json.dumps(spec), stdout=subprocess.PIPE, stderr=subprocess.PIPE,
                       universal_newlines=True)
    if r.returncode != 0:
        raise common.InfraError('child interpreter failed: ' + r.stderr[-800:])
    return json.loads(r.stdout)


# ------------------------------------------------------------------------------------------------ 1. value prefixes
def value_of(kind, prefix, i):
    if kind == 'formula':
        return prefix + (u':=1+1', u':x eq 1', u':=SUM([.A1:.A2])')[i % 3]
    return prefix + (u':bar', u':click', u':on-load')[i % 3]


def check_items(chk, items, rendering, case, where, pending):
    """every item's attribute must be found, with its value, on its element, the value's prefix bound to item['ns'] there"""
    ok = True
    got = {}
    for name, text in rendering:
        r = part_oracle(chk, name, text.encode('utf-8'), case, where)
        if r is None:
            return False
        if name in ('content.xml', 'contentxml()', 'xml()'):
            for el, row in r[1]:
                for a, v, bound in row:
                    got.setdefault((el, a, v), []).append(bound)
    for it in items:
        key = (tuple(it['el']), tuple(it['attr']), it['value'])
        c = dict(case, element=it['el'], attribute=it['attr'], value=it['value'], expected_namespace=it['ns'])
        if key not in got:
            chk.fail('prefixed-value-lost-' + where, c, 'the attribute with this value is not in the emitted content')
            ok = False
        elif any(b != it['ns'] for b in got[key]):
            b = [b for b in got[key] if b != it['ns']][0]
            what = 'is not declared' if b is None else 'is bound to %r' % (b,)
            if tuple(it['attr']) in pending and b is None:
                # a genuine defect of the unchanged tree, recorded as KF-C14-2 (the repair - an element-specific converter binding -
                # breaks tests/testconverters.py, which demands a grammar row for every such binding; db: has none): its own signature
                chk.count('known:value-prefix-not-declared:%s:%s' % (where, it['attr'][1]))
                chk.fail('value-prefix-not-declared:db-type-has-no-converter', c,
                         '%s: prefix of db:type=%r is not declared in the emitted content (expected %r)' % (where, it['value'], it['ns']))
            else:
                chk.fail('value-prefix-not-declared' if b is None else 'value-prefix-rebound', c,
                         '%s: prefix of %s=%r %s in the emitted content (expected %r)' % (where, it['attr'][1], it['value'], what, it['ns']))
            ok = False
    return ok


# attributes for which the UNCHANGED library does not register the value's prefix (found by this check): known finding KF-C14-2,
# reported under its own signature (see check_items).
# db:type (db:server-database; `namespacedToken` in the schema): odf/attrconverters.py has no converter that looks at its value, so
# the prefix of db:type="of:x" is never registered - neither through the API nor through load().
DB = u'urn:oasis:names:tc:opendocument:xmlns:database:1.0'
PENDING_API = set([(DB, u'type')])
PENDING_LOAD = set([(DB, u'type')])


def value_prefix_attrs_check(chk, drv=None):
    from common import enc_str
    attrs, conv = value_attrs()
    rng = chk.rng
    thorough = chk.tier != 'quick'
    for ai, (attr, kind, elements) in enumerate(attrs):
        rounds = len(elements) if thorough else 1
        for rnd in range(min(rounds, 6)):
            items = []
            for pi, (prefix, ns) in enumerate(conv):
                el = elements[(rnd + pi) % len(elements)] if thorough else rng.choice(elements)
                items.append({'el': list(el), 'attr': list(attr), 'value': value_of(kind, prefix, pi + rnd), 'ns': ns,
                              'how': ('ctor', 'setattr')[(pi + rnd + ai) % 2]})
            # ---- API, fresh interpreter, the first rendering call varies
            calls = [('save', 'contentxml', 'xml')[(ai + rnd) % 3], 'save']
            out = child({'mode': 'api', 'items': items, 'calls': calls})
            chk.case(('vp-api', attr, rnd)); chk.count('value_prefix_api_cases')
            for k, rendering in enumerate(out['renderings']):
                case = {'entry': 'api', 'calls': calls[:k + 1], 'items': [[i['el'], i['attr'], i['value'], i['how']] for i in items]}
                if not check_items(chk, items, rendering, case, 'api', PENDING_API):
                    break
            # ---- load + save, fresh interpreter: the source declares the prefixes; they must stay bound as the source binds them
            decls = [(p, n) for p, n in conv]
            body = u''
            used = {}
            for j, it in enumerate(items):
                ep = used.setdefault(it['el'][0], u'e%d' % len(used))
                ap = used.setdefault(it['attr'][0], u'e%d' % len(used))
                body += u'<%s:%s %s:%s="%s"/>' % (ep, it['el'][1], ap, it['attr'][1], esc(it['value']))
            decls += [(p, n) for n, p in sorted(used.items())]
            raw, content = package(body, decls)
            calls = ['save', 'save'] if (ai + rnd) % 2 == 0 else ['contentxml', 'save']
            out = child({'mode': 'load', 'package': base64.b64encode(raw).decode('ascii'), 'calls': calls})
            chk.case(('vp-load', attr, rnd)); chk.count('value_prefix_load_cases')
            case = {'entry': 'load', 'calls': calls, 'content.xml': content}
            if 'refused' in out:
                chk.count('value_prefix_load_refused')
                chk.fail('prefixed-value-load-refused', case, out['refused'])
                continue
            for k, rendering in enumerate(out['renderings']):
                if not check_items(chk, items, rendering, dict(case, calls=calls[:k + 1]), 'load', PENDING_LOAD):
                    break
        # ---- correspondence: Element.namespaces after ONE setAttrNS of this attribute on a bare element in a fresh interpreter
        #      = the model's get_nsprefix(attribute namespace) followed by savePrefix(value)
        if drv is not None:
            for prefix, ns in [conv[ai % len(conv)], conv[(ai + 1) % len(conv)]]:
                v = value_of(kind, prefix, ai)
                tbl = child({'mode': 'table', 'attr': list(attr), 'value': v})['table']
                sp = drv.ask('saveprefix ' + enc_str(v)).split()[1:]
                init = drv.ask('saveprefix ' + enc_str(u'nocolon')).split()[1:]
                pairs0 = [init[j:j + 2] for j in range(0, len(init), 2)]
                new = [sp[i] for i in range(0, len(sp), 2) if sp[i:i + 2] not in pairs0]      # what savePrefix registers
                ans = drv.ask('nsrun ' + ' '.join([enc_str(attr[0])] + new))
                model = ans.split('|', 1)[1].split() if '|' in ans else [ans]
                impl = []
                for a, b in tbl:
                    impl += [enc_str(a), enc_str(b)]
                chk.corr(); chk.count('attr_save_prefix')
                if impl != model and tuple(attr) in PENDING_API:
                    chk.count('pending:attr-save-prefix-differs:%s' % attr[1])
                elif impl != model:
                    chk.corr_diff({'attribute': list(attr), 'value': v}, ' '.join(impl), ' '.join(model),
                                  'Element.namespaces after setAttrNS(attribute, value) on a bare element vs get_nsprefix + savePrefix')


# ------------------------------------------------------------------------------------------------ 2. refused values
DRAW = u'urn:oasis:names:tc:opendocument:xmlns:drawing:1.0'
SVG = u'urn:oasis:names:tc:opendocument:xmlns:svg-compatible:1.0'
XLINK = u'http://www.w3.org/1999/xlink'
CHART = u'urn:oasis:names:tc:opendocument:xmlns:chart:1.0'
FO = u'urn:oasis:names:tc:opendocument:xmlns:xsl-fo-compatible:1.0'

# (element prefix:name, attributes valid for their datatype, (attribute, value INVALID for its datatype per the schema))
CARRIERS = [
    (u'draw:frame', u'draw:name="F" svg:height="1cm"', (u'svg:width', u'2,5cm')),          # length with a decimal comma
    (u'draw:frame', u'draw:name="G" svg:width="1cm"', (u'svg:height', u'3 furlongs')),     # unknown unit
    (u'text:section', u'text:name="S"', (u'text:protected', u'maybe')),                    # boolean
    (u'table:table-cell', u'', (u'table:number-columns-repeated', u'many')),               # positiveInteger
    (u'text:a', u'xlink:href="http://example.org/"', (u'xlink:type', u'complex')),         # fixed value 'simple'
    (u'chart:chart', u'', (u'chart:class', u'bar')),                                       # namespacedToken without a prefix
    (u'text:h', u'', (u'text:outline-level', u'-x')),                                      # positiveInteger
    (u'draw:rect', u'svg:width="1cm" svg:height="1cm"', (u'svg:x', u'1.5')),               # length without a unit
]
STD = [(u'draw', DRAW), (u'svg', SVG), (u'xlink', XLINK), (u'chart', CHART), (u'table', TABLE), (u'fo', FO)]


def refused_value_specs(chk):
    """-> list of (label, body, decls, expected foreign facts)"""
    specs = []
    rng = chk.rng
    n = 0
    for ci, (el, valid, (ra, rv)) in enumerate(CARRIERS):
        for refused in (True, False):
            kinds = ['foreign-attr', 'value-prefix', 'foreign-child', 'foreign-attr-elsewhere']
            if chk.tier == 'quick':
                kinds = [kinds[ci % 4], kinds[(ci + 1 + int(refused)) % 4]] if refused else [kinds[ci % 4]]
            for kind in kinds:
                n += 1
                fns = u'urn:example:names:scanner:%d.%d' % (ci, n)
                fp = rng.choice([u'scan', u'ext', u'ns%d' % rng.randint(40, 80), u'my.app'])
                attrs = valid + (u' %s="%s"' % (ra, rv) if refused else u'')
                decls = list(STD)
                inner, sibling, expect = u'', u'', {}
                if kind == 'foreign-attr':
                    attrs += u' %s:device="flatbed"' % fp
                    decls.append((fp, fns)); expect['attr'] = [(fns, u'device'), u'flatbed']
                elif kind == 'foreign-attr-elsewhere':
                    sibling = u'<text:p %s:device="flatbed">x</text:p>' % fp
                    decls.append((fp, fns)); expect['attr'] = [(fns, u'device'), u'flatbed']
                elif kind == 'foreign-child':
                    inner = u'<%s:note>n</%s:note>' % (fp, fp)
                    decls.append((fp, fns)); expect['element'] = (fns, u'note')
                else:
                    cp, cns = CONVENTIONAL[n % len(CONVENTIONAL)]
                    attrs += u' table:formula="%s:=1+1"' % cp
                    decls.append((cp, cns)); expect['value'] = [(TABLE, u'formula'), cp + u':=1+1', cns]
                body = u'<text:p>a</text:p><%s %s>%s</%s>%s' % (el, attrs.strip(), inner, el, sibling)
                specs.append(({'carrier': el, 'refused': [ra, rv] if refused else None, 'kind': kind, 'foreign': [fp, fns]},
                              body, decls, expect))
    return specs


def refused_value_check(chk):
    for label, body, decls, expect in refused_value_specs(chk):
        raw, content = package(body, decls)
        out = child({'mode': 'load', 'package': base64.b64encode(raw).decode('ascii'), 'calls': ['save', 'save']})
        chk.case(('refused-value', label['carrier'], str(label['refused']), label['kind']))
        chk.count('refused_value_cases')
        case = dict(label, **{'content.xml': content})
        if 'refused' in out:
            # KF-C05-7 class: load() aborts on a value a converter refuses - nothing is emitted, nothing to hold against C14
            chk.count('refused_value_load_raises' if label['refused'] else 'plain_load_raises')
            if not label['refused']:
                chk.fail('valid-package-load-refused', case, out['refused'])
            continue
        chk.count('refused_value_load_succeeds' if label['refused'] else 'plain_load_succeeds')
        first = None
        for k, rendering in enumerate(out['renderings']):
            where = 'first-save' if k == 0 else 'second-save'
            good = True
            sets = {}
            for name, text in rendering:
                r = part_oracle(chk, name, text.encode('utf-8'), dict(case, save=k + 1), 'after-load-' + where)
                if r is None:
                    good = False
                    break
                if name == 'content.xml':
                    sets = r
            if not good:
                break
            # names loaded from foreign namespaces keep their namespace names; value prefixes stay bound
            elems = sets[1] if sets else []
            if 'attr' in expect:
                a, v = expect['attr']
                if not any(x[0] == tuple(a) and x[1] == v for _, row in elems for x in row):
                    chk.fail('foreign-attribute-lost-' + where, dict(case, save=k + 1), 'attribute {%s}%s="%s" not in the emitted content.xml' % (a[0], a[1], v))
            if 'element' in expect:
                if not any(el == tuple(expect['element']) for el, _ in elems):
                    chk.fail('foreign-element-lost-' + where, dict(case, save=k + 1), 'element {%s}%s not in the emitted content.xml' % tuple(expect['element']))
            if 'value' in expect:
                a, v, ns = expect['value']
                hits = [x[2] for _, row in elems for x in row if x[0] == tuple(a) and x[1] == v]
                if not hits:
                    chk.fail('prefixed-value-lost-' + where, dict(case, save=k + 1), '%s="%s" not in the emitted content.xml' % (a[1], v))
                elif any(h != ns for h in hits):
                    chk.fail('value-prefix-not-declared' if hits[0] is None else 'value-prefix-rebound', dict(case, save=k + 1),
                             'prefix of %s="%s" bound to %r, the source binds it to %r' % (a[1], v, hits[0], ns))
            cur = dict((name, infoset(text.encode('utf-8'))) for name, text in rendering if name in ('content.xml', 'styles.xml'))
            if first is None:
                first = cur
            elif cur != first:
                chk.fail('history-dependent-infoset', dict(case, save=k + 1), 'the second save of the loaded document differs from the first')
